(** C10 — lemmas about the histogram / transport distance models of [Model/Hist.v]
    over the real-number instance [RealA]. *)
From Coq Require Import ZArith List Bool Reals Lra Lia Permutation Sorted.
From FV Require Import NumSys RealA Sums Hist.
Import ListNotations.
Local Open Scope R_scope.

(** * Part 0 — shared vocabulary *)

Definition nonneg (l : list R) : Prop := Forall (fun x => 0 <= x) l.
(** a proportion vector: non-negative entries summing to one *)
Definition isdist (l : list R) : Prop := nonneg l /\ sumA (A:=RealA) l = 1.

Lemma fold_left_Rplus_acc : forall l a, fold_left Rplus l a = a + fold_left Rplus l 0.
Proof.
  induction l as [|x l IH]; intros a; cbn.
  - lra.
  - rewrite IH. rewrite (IH (0 + x)). lra.
Qed.

Lemma sumA_nil : sumA (A:=RealA) (@nil R) = 0.
Proof. reflexivity. Qed.
Ltac sumA0 := change (sumA (A:=RealA) (@nil R)) with 0 in *; change (sumA (A:=RealA) (@nil (num RealA))) with 0 in *.

Lemma sumA_cons : forall (x : R) (l : list R), sumA (A:=RealA) (x :: l) = x + sumA (A:=RealA) l.
Proof.
  intros x l. unfold sumA, zero. cbn.
  rewrite fold_left_Rplus_acc. lra.
Qed.

Lemma sumA_Rsum : forall l : list R, sumA (A:=RealA) l = Rsum l.
Proof.
  induction l as [|x l IH]; [reflexivity|].
  rewrite sumA_cons, IH. reflexivity.
Qed.

Lemma sumA_app : forall l r : list R, sumA (A:=RealA) (l ++ r) = sumA (A:=RealA) l + sumA (A:=RealA) r.
Proof.
  induction l as [|x l IH]; intros r; cbn [app].
  - sumA0. lra.
  - rewrite !sumA_cons, IH. lra.
Qed.

Lemma sumA_nonneg : forall l, nonneg l -> 0 <= sumA (A:=RealA) l.
Proof.
  induction 1 as [|x l Hx Hl IH]; [sumA0; lra|].
  rewrite sumA_cons. lra.
Qed.

Lemma sumA_map_scal : forall (c : R) (l : list R), sumA (A:=RealA) (map (fun v => v * c) l) = sumA (A:=RealA) l * c.
Proof.
  induction l as [|x l IH]; cbn [map]; [sumA0; lra|].
  rewrite !sumA_cons, IH. lra.
Qed.

(** termwise comparison of sums *)
Lemma sumA_le : forall l r : list R, Forall2 Rle l r -> sumA (A:=RealA) l <= sumA (A:=RealA) r.
Proof.
  induction 1 as [|x y l r Hxy Hlr IH]; [lra|].
  rewrite !sumA_cons. lra.
Qed.

Lemma map2_nil_r : forall {T U V} (f : T -> U -> V) l, map2 f l [] = [].
Proof. destruct l; reflexivity. Qed.

Lemma map2_length : forall {T U V} (f : T -> U -> V) l r, length (map2 f l r) = Nat.min (length l) (length r).
Proof.
  induction l as [|a l IH]; intros [|b r]; cbn; auto.
Qed.

Lemma map2_sym : forall {T V} (f : T -> T -> V) l r, (forall a b, f a b = f b a) -> map2 f l r = map2 f r l.
Proof.
  induction l as [|a l IH]; intros [|b r] H; cbn; auto.
  rewrite H, IH; auto.
Qed.

(** sum over [map2] of the first (second) components is at most the whole sum *)
Lemma sumA_map2_fst_le : forall p q : list R, nonneg p -> sumA (A:=RealA) (map2 (fun x _ : R => x) p q) <= sumA (A:=RealA) p.
Proof.
  induction p as [|x p IH]; intros q Hp.
  - cbn. lra.
  - destruct q as [|y q]; cbn [map2].
    + sumA0. apply sumA_nonneg; auto.
    + inversion Hp; subst. rewrite !sumA_cons. specialize (IH q H2). lra.
Qed.
Lemma sumA_map2_snd_le : forall p q : list R, nonneg q -> sumA (A:=RealA) (map2 (fun _ y : R => y) p q) <= sumA (A:=RealA) q.
Proof.
  induction p as [|x p IH]; intros q Hq.
  - cbn. apply sumA_nonneg; auto.
  - destruct q as [|y q]; cbn [map2].
    + sumA0. lra.
    + inversion Hq; subst. rewrite !sumA_cons. specialize (IH q H2). lra.
Qed.

(** ** min / max of a list *)
Lemma amin_le_acc : forall (l : list R) (a : R), amin (A:=RealA) a l <= a.
Proof.
  induction l as [|y l IH]; intros a; cbn [amin]; [lra|].
  cbn [ltb RealA]. destruct (Rltb_spec y a) as [Hlt|Hge].
  - apply Rle_trans with y; [apply IH | lra].
  - apply IH.
Qed.
Lemma amin_le_in : forall (l : list R) (a x : R), In x l -> amin (A:=RealA) a l <= x.
Proof.
  induction l as [|y l IH]; intros a x Hin; [contradiction|].
  cbn [amin]. cbn [ltb RealA]. destruct Hin as [->|Hin].
  - destruct (Rltb_spec x a) as [Hlt|Hge].
    + apply amin_le_acc.
    + apply Rle_trans with a; [apply amin_le_acc | lra].
  - apply IH; auto.
Qed.
Lemma amin_in : forall (l : list R) (a : R), amin (A:=RealA) a l = a \/ In (amin (A:=RealA) a l) l.
Proof.
  induction l as [|y l IH]; intros a; cbn [amin]; [auto|].
  cbn [ltb RealA]. destruct (Rltb_spec y a).
  - destruct (IH y) as [->|H]; [right; left; auto | right; right; auto].
  - destruct (IH a) as [->|H]; [left; auto | right; right; auto].
Qed.
Lemma amax_ge_acc : forall (l : list R) (a : R), a <= amax (A:=RealA) a l.
Proof.
  induction l as [|y l IH]; intros a; cbn [amax]; [lra|].
  cbn [ltb RealA]. destruct (Rltb_spec a y) as [Hlt|Hge].
  - apply Rle_trans with y; [lra | apply IH].
  - apply IH.
Qed.
Lemma amax_ge_in : forall (l : list R) (a x : R), In x l -> x <= amax (A:=RealA) a l.
Proof.
  induction l as [|y l IH]; intros a x Hin; [contradiction|].
  cbn [amax]. cbn [ltb RealA]. destruct Hin as [->|Hin].
  - destruct (Rltb_spec a x) as [Hlt|Hge].
    + apply amax_ge_acc.
    + apply Rle_trans with a; [lra | apply amax_ge_acc].
  - apply IH; auto.
Qed.
Lemma amax_in : forall (l : list R) (a : R), amax (A:=RealA) a l = a \/ In (amax (A:=RealA) a l) l.
Proof.
  induction l as [|y l IH]; intros a; cbn [amax]; [auto|].
  cbn [ltb RealA]. destruct (Rltb_spec a y).
  - destruct (IH y) as [->|H]; [right; left; auto | right; right; auto].
  - destruct (IH a) as [->|H]; [left; auto | right; right; auto].
Qed.

Lemma lmin_le : forall (l : list R) (x : R), In x l -> lmin (A:=RealA) l <= x.
Proof.
  intros [|a l] x Hin; [contradiction|]. cbn [lmin]. destruct Hin as [->|Hin].
  - apply amin_le_acc.
  - apply amin_le_in; auto.
Qed.
Lemma lmin_in : forall (l : list R), l <> [] -> In (lmin (A:=RealA) l) l.
Proof.
  intros [|a l] H; [congruence|]. cbn [lmin]. destruct (amin_in l a) as [->|Hi]; [left; auto | right; auto].
Qed.
Lemma lmax_ge : forall (l : list R) (x : R), In x l -> x <= lmax (A:=RealA) l.
Proof.
  intros [|a l] x Hin; [contradiction|]. cbn [lmax]. destruct Hin as [->|Hin].
  - apply amax_ge_acc.
  - apply amax_ge_in; auto.
Qed.
Lemma lmax_in : forall (l : list R), l <> [] -> In (lmax (A:=RealA) l) l.
Proof.
  intros [|a l] H; [congruence|]. cbn [lmax]. destruct (amax_in l a) as [->|Hi]; [left; auto | right; auto].
Qed.

(** the minimum is determined by the multiset of values *)
Lemma lmin_perm : forall (l l' : list R), Permutation l l' -> lmin (A:=RealA) l = lmin (A:=RealA) l'.
Proof.
  intros l l' HP. destruct l as [|a l].
  - apply Permutation_nil in HP. subst. reflexivity.
  - assert (Hl' : l' <> []) by (intros ->; apply Permutation_sym, Permutation_nil in HP; discriminate).
    apply Rle_antisym.
    + apply lmin_le. apply (Permutation_in _ (Permutation_sym HP)). apply lmin_in; auto.
    + apply lmin_le. apply (Permutation_in _ HP). apply lmin_in. discriminate.
Qed.
Lemma lmax_perm : forall (l l' : list R), Permutation l l' -> lmax (A:=RealA) l = lmax (A:=RealA) l'.
Proof.
  intros l l' HP. destruct l as [|a l].
  - apply Permutation_nil in HP. subst. reflexivity.
  - assert (Hl' : l' <> []) by (intros ->; apply Permutation_sym, Permutation_nil in HP; discriminate).
    apply Rle_antisym.
    + apply lmax_ge. apply (Permutation_in _ HP). apply lmax_in. discriminate.
    + apply lmax_ge. apply (Permutation_in _ (Permutation_sym HP)). apply lmax_in; auto.
Qed.
Lemma lmin_le_lmax : forall (l : list R), l <> [] -> lmin (A:=RealA) l <= lmax (A:=RealA) l.
Proof. intros l H. apply lmin_le. apply lmax_in; auto. Qed.

(** make an equation / inequality at type [num RealA] one at type [R] (for [field] / [lra]) *)
Ltac eqR := match goal with |- @eq _ ?x ?y => change (@eq R x y) end.

(** ** [linspace] over R: the i-th point is [a + i (b - a) / n] *)
Lemma ofN_INR : forall n, ofN (A:=RealA) n = INR n.
Proof. intros n. unfold ofN. cbn [ofZ RealA]. symmetry. apply INR_IZR_INZ. Qed.

Lemma linspace_length : forall (a b : R) n, length (linspace (A:=RealA) a b n) = n.
Proof.
  intros a b [|[|n]]; cbn [linspace]; auto.
  rewrite app_length, map_length, seq_length. cbn. lia.
Qed.

Lemma linspace_nth : forall (a b : R) n i, (1 <= n)%nat -> (i <= n)%nat ->
  nth i (linspace (A:=RealA) a b (S n)) 0 = a + INR i * (b - a) / INR n.
Proof.
  intros a b n i Hn Hi. destruct n as [|n]; [lia|].
  assert (Hpos : 0 < INR (S n)) by (apply lt_0_INR; lia).
  cbn [linspace].
  set (f := fun i0 : nat => _).
  destruct (Nat.eq_dec i (S n)) as [->|Hne].
  - rewrite app_nth2; rewrite map_length, seq_length; [|lia].
    replace (S n - S n)%nat with 0%nat by lia. cbn [nth].
    eqR. field. lra.
  - rewrite app_nth1 by (rewrite map_length, seq_length; lia).
    rewrite (nth_indep _ 0 (f 0%nat)) by (rewrite map_length, seq_length; lia).
    rewrite map_nth. rewrite seq_nth by lia. cbn [Nat.add]. subst f. cbv beta.
    rewrite !ofN_INR. cbn [add sub mul div eqb RealA num].
    change (@zero RealA) with 0.
    destruct (Reqb _ _); eqR; field; lra.
Qed.

Lemma linspace_first : forall (a b : R) n, (1 <= n)%nat -> hd 0 (linspace (A:=RealA) a b (S n)) = a.
Proof.
  intros a b n Hn.
  pose proof (linspace_nth a b n 0 Hn ltac:(lia)) as H.
  pose proof (linspace_length a b (S n)) as HL.
  destruct (linspace a b (S n)) as [|x l]; [discriminate|].
  cbn in *. rewrite H. unfold Rdiv. rewrite !Rmult_0_l. lra.
Qed.

Lemma linspace_last : forall (a b : R) n, (1 <= n)%nat -> last (linspace (A:=RealA) a b (S n)) 0 = b.
Proof.
  intros a b [|n] Hn; [lia|]. cbn [linspace]. apply last_last.
Qed.

(** ** proportions of integer counts *)
Definition Zsum (l : list Z) : Z := fold_right Z.add 0%Z l.

Lemma proportions_length : forall (c : list Z) n, length (proportions (A:=RealA) c n) = length c.
Proof. intros. unfold proportions. apply map_length. Qed.

Lemma proportions_sum : forall (c : list Z) (n : nat), (0 < n)%nat ->
  sumA (A:=RealA) (proportions (A:=RealA) c n) = IZR (Zsum c) / INR n.
Proof.
  intros c n Hn. assert (Hp : 0 < INR n) by (apply lt_0_INR; lia).
  induction c as [|z c IH].
  - cbn. sumA0. unfold Rdiv. rewrite Rmult_0_l. reflexivity.
  - unfold proportions in *. cbn [map Zsum fold_right].
    rewrite sumA_cons, IH. rewrite plus_IZR. rewrite ofN_INR. cbn [div ofZ RealA].
    fold (Zsum c). eqR. field. lra.
Qed.

Lemma proportions_nonneg : forall (c : list Z) (n : nat), (0 < n)%nat ->
  Forall (fun z => (0 <= z)%Z) c -> nonneg (proportions (A:=RealA) c n).
Proof.
  intros c n Hn Hc. assert (Hp : 0 < INR n) by (apply lt_0_INR; lia).
  unfold proportions, nonneg. apply Forall_map.
  eapply Forall_impl; [|exact Hc]. intros z Hz. cbv beta.
  rewrite ofN_INR. cbn [div ofZ RealA].
  apply Rmult_le_pos; [apply IZR_le; exact Hz | left; apply Rinv_0_lt_compat; exact Hp].
Qed.

Lemma proportions_isdist : forall (c : list Z) (n : nat), (0 < n)%nat ->
  Forall (fun z => (0 <= z)%Z) c -> Zsum c = Z.of_nat n -> isdist (proportions (A:=RealA) c n).
Proof.
  intros c n Hn Hc Hs. split; [apply proportions_nonneg; auto|].
  rewrite proportions_sum by auto. rewrite Hs, <- INR_IZR_INZ.
  assert (Hp : 0 < INR n) by (apply lt_0_INR; lia). eqR. field. lra.
Qed.

(** * Part E — [np.histogram] with explicit edges (cumulative-count path) and
      [_calculate_bins_values] *)

Lemma e_filter_perm : forall {T} (f : T -> bool) (l l' : list T), Permutation l l' -> Permutation (filter f l) (filter f l').
Proof.
  intros T f l l' HP. induction HP as [|x l l' HP IH|x y l|l l' l'' H1 IH1 H2 IH2]; cbn.
  - constructor.
  - destruct (f x); auto.
  - destruct (f x), (f y); auto. apply perm_swap.
  - eapply Permutation_trans; eauto.
Qed.

Lemma e_filter_length_le : forall {T} (f g : T -> bool) (l : list T),
  (forall x, In x l -> f x = true -> g x = true) -> (length (filter f l) <= length (filter g l))%nat.
Proof.
  intros T f g l. induction l as [|x l IH]; intros H; cbn; [lia|].
  assert (IH' := IH (fun y Hy => H y (or_intror Hy))).
  destruct (f x) eqn:Ef.
  - rewrite (H x (or_introl eq_refl) Ef). cbn. lia.
  - destruct (g x); cbn; lia.
Qed.

Lemma e_filter_all : forall {T} (f : T -> bool) (l : list T), (forall x, In x l -> f x = true) -> filter f l = l.
Proof.
  intros T f l. induction l as [|x l IH]; intros H; cbn; [reflexivity|].
  rewrite (H x (or_introl eq_refl)). f_equal. apply IH. intros y Hy. apply H. right; auto.
Qed.
Lemma e_filter_none : forall {T} (f : T -> bool) (l : list T), (forall x, In x l -> f x = false) -> filter f l = [].
Proof.
  intros T f l. induction l as [|x l IH]; intros H; cbn; [reflexivity|].
  rewrite (H x (or_introl eq_refl)). apply IH. intros y Hy. apply H. right; auto.
Qed.

Lemma count_lt_perm : forall (e : R) (xs xs' : list R), Permutation xs xs' -> count_lt (A:=RealA) e xs = count_lt (A:=RealA) e xs'.
Proof. intros e xs xs' HP. unfold count_lt. f_equal. apply Permutation_length. apply e_filter_perm; auto. Qed.
Lemma count_le_perm : forall (e : R) (xs xs' : list R), Permutation xs xs' -> count_le (A:=RealA) e xs = count_le (A:=RealA) e xs'.
Proof. intros e xs xs' HP. unfold count_le. f_equal. apply Permutation_length. apply e_filter_perm; auto. Qed.

Lemma cum_counts_perm : forall (edges xs xs' : list R), Permutation xs xs' ->
  cum_counts (A:=RealA) edges xs = cum_counts (A:=RealA) edges xs'.
Proof.
  intros edges xs xs' HP. induction edges as [|e r IH]; [reflexivity|].
  cbn [cum_counts]. destruct r as [|e' r'].
  - f_equal. apply count_le_perm; auto.
  - rewrite IH. f_equal. apply count_lt_perm; auto.
Qed.
Lemma edge_counts_perm : forall (edges xs xs' : list R), Permutation xs xs' ->
  edge_counts (A:=RealA) edges xs = edge_counts (A:=RealA) edges xs'.
Proof. intros. unfold edge_counts. f_equal. apply cum_counts_perm; auto. Qed.

Lemma e_cum_length : forall (edges xs : list R), length (cum_counts (A:=RealA) edges xs) = length edges.
Proof.
  induction edges as [|e r IH]; intros xs; [reflexivity|].
  cbn [cum_counts]. destruct r as [|e' r']; [reflexivity|]. cbn [length]. rewrite IH. reflexivity.
Qed.
Lemma e_diffZ_length : forall l : list Z, length (diffZ l) = pred (length l).
Proof.
  induction l as [|a r IH]; [reflexivity|]. cbn [diffZ]. destruct r as [|b r']; [reflexivity|].
  cbn [length]. rewrite IH. reflexivity.
Qed.
Lemma edge_counts_length : forall (edges xs : list R), length (edge_counts (A:=RealA) edges xs) = pred (length edges).
Proof. intros. unfold edge_counts. rewrite e_diffZ_length, e_cum_length. reflexivity. Qed.

(** telescoping *)
Lemma e_diffZ_sum : forall (a : Z) (l : list Z), Zsum (diffZ (a :: l)) = (last (a :: l) 0 - a)%Z.
Proof.
  intros a l. revert a. induction l as [|b l IH]; intros a.
  - cbn. lia.
  - change (diffZ (a :: b :: l)) with ((b - a)%Z :: diffZ (b :: l)).
    change (Zsum ((b - a)%Z :: diffZ (b :: l))) with ((b - a) + Zsum (diffZ (b :: l)))%Z. rewrite IH.
    change (last (a :: b :: l) 0%Z) with (last (b :: l) 0%Z). lia.
Qed.

Lemma e_cum_hd : forall (e e' : R) (r xs : list R),
  cum_counts (A:=RealA) (e :: e' :: r) xs = count_lt (A:=RealA) e xs :: cum_counts (A:=RealA) (e' :: r) xs.
Proof. reflexivity. Qed.
Lemma e_cum_last : forall (edges xs : list R), edges <> [] ->
  last (cum_counts (A:=RealA) edges xs) 0%Z = count_le (A:=RealA) (last edges 0) xs.
Proof.
  induction edges as [|e r IH]; intros xs H; [congruence|].
  destruct r as [|e' r']; [reflexivity|].
  rewrite e_cum_hd.
  change (last (e :: e' :: r') 0) with (last (e' :: r') 0).
  rewrite <- IH by discriminate.
  destruct (cum_counts (e' :: r') xs) eqn:E; [|reflexivity].
  pose proof (e_cum_length (e' :: r') xs) as HL. rewrite E in HL. discriminate.
Qed.

Lemma e_count_lt_zero : forall (e : R) (xs : list R), (forall x, In x xs -> e <= x) -> count_lt (A:=RealA) e xs = 0%Z.
Proof.
  intros e xs H. unfold count_lt. rewrite e_filter_none; [reflexivity|].
  intros x Hx. cbn [ltb RealA]. apply Rltb_false. auto.
Qed.
Lemma e_count_le_all : forall (e : R) (xs : list R), (forall x, In x xs -> x <= e) -> count_le (A:=RealA) e xs = Z.of_nat (length xs).
Proof.
  intros e xs H. unfold count_le. rewrite e_filter_all; [reflexivity|].
  intros x Hx. cbn [leb RealA]. apply Rleb_true. auto.
Qed.

(** every value within [e_0, e_last] is counted exactly once *)
Lemma edge_counts_sum : forall (edges xs : list R), (2 <= length edges)%nat ->
  (forall x, In x xs -> hd 0 edges <= x <= last edges 0) ->
  Zsum (edge_counts (A:=RealA) edges xs) = Z.of_nat (length xs).
Proof.
  intros edges xs HL H. destruct edges as [|e [|e' r]]; cbn in HL; try lia.
  unfold edge_counts. rewrite e_cum_hd, e_diffZ_sum, <- e_cum_hd.
  rewrite e_cum_last by discriminate.
  rewrite e_count_le_all by (intros x Hx; apply H; auto).
  rewrite e_count_lt_zero; [lia|]. intros x Hx. apply (H x Hx).
Qed.

(** monotone cumulative counts for sorted edges *)
Lemma e_count_lt_mono : forall (e e' : R) (xs : list R), e <= e' -> (count_lt (A:=RealA) e xs <= count_lt (A:=RealA) e' xs)%Z.
Proof.
  intros e e' xs H. unfold count_lt. apply Nat2Z.inj_le. apply e_filter_length_le.
  intros x _. cbn [ltb RealA]. rewrite !Rltb_true. lra.
Qed.
Lemma e_count_lt_le_mono : forall (e e' : R) (xs : list R), e <= e' -> (count_lt (A:=RealA) e xs <= count_le (A:=RealA) e' xs)%Z.
Proof.
  intros e e' xs H. unfold count_lt, count_le. apply Nat2Z.inj_le. apply e_filter_length_le.
  intros x _. cbn [ltb leb RealA]. rewrite Rltb_true, Rleb_true. lra.
Qed.

Lemma e_cum_head_ge : forall (e e' : R) (r xs : list R), e <= e' ->
  (count_lt (A:=RealA) e xs <= hd 0%Z (cum_counts (A:=RealA) (e' :: r) xs))%Z.
Proof.
  intros e e' r xs H. destruct r as [|e'' r'].
  - cbn. apply e_count_lt_le_mono; auto.
  - rewrite e_cum_hd. cbn [hd]. apply e_count_lt_mono; auto.
Qed.

Lemma edge_counts_nonneg : forall (edges xs : list R), Sorted Rle edges ->
  Forall (fun c => (0 <= c)%Z) (edge_counts (A:=RealA) edges xs).
Proof.
  intros edges xs HS. unfold edge_counts. induction HS as [|e r HSr IH Hhd]; [constructor|].
  destruct r as [|e' r']; [constructor|].
  rewrite e_cum_hd.
  assert (Hle : e <= e') by (inversion Hhd; auto).
  pose proof (e_cum_head_ge e e' r' xs Hle) as Hge.
  destruct (cum_counts (e' :: r') xs) as [|c cs] eqn:E.
  - constructor.
  - cbn [diffZ]. constructor; [cbn in Hge; lia | exact IH].
Qed.

(** the j-th count is the number of values in [e_j, e_{j+1}) — closed on the right for the last bin *)
Definition in_bin (edges : list R) (j : nat) (x : R) : bool :=
  Rleb (nth j edges 0) x &&
  (if Nat.eqb (S (S j)) (length edges) then Rleb x (nth (S j) edges 0) else Rltb x (nth (S j) edges 0)).

Lemma e_last_bin : forall (e e' : R) (xs : list R), e <= e' ->
  (count_le (A:=RealA) e' xs - count_lt (A:=RealA) e xs)%Z = Z.of_nat (length (filter (fun x => Rleb e x && Rleb x e') xs)).
Proof.
  intros e e' xs H. unfold count_le, count_lt. induction xs as [|x xs IH]; [reflexivity|].
  cbn [filter]. cbn [ltb leb RealA] in *.
  destruct (Rleb_spec x e'), (Rltb_spec x e), (Rleb_spec e x); cbn [andb length]; try lra;
    rewrite ?Nat2Z.inj_succ in *; lia.
Qed.
Lemma e_mid_bin : forall (e e' : R) (xs : list R), e <= e' ->
  (count_lt (A:=RealA) e' xs - count_lt (A:=RealA) e xs)%Z = Z.of_nat (length (filter (fun x => Rleb e x && Rltb x e') xs)).
Proof.
  intros e e' xs H. unfold count_lt. induction xs as [|x xs IH]; [reflexivity|].
  cbn [filter]. cbn [ltb RealA] in *.
  destruct (Rltb_spec x e'), (Rltb_spec x e), (Rleb_spec e x); cbn [andb length]; try lra;
    rewrite ?Nat2Z.inj_succ in *; lia.
Qed.

Lemma e_filter_ext_in : forall {T} (f g : T -> bool) (l : list T), (forall x, In x l -> f x = g x) -> filter f l = filter g l.
Proof.
  intros T f g l. induction l as [|x l IH]; intros H; [reflexivity|]. cbn.
  rewrite (H x (or_introl eq_refl)). rewrite IH; auto. intros y Hy. apply H. right; auto.
Qed.

Lemma edge_counts_spec : forall (edges xs : list R) (j : nat), Sorted Rle edges -> (S j < length edges)%nat ->
  nth j (edge_counts (A:=RealA) edges xs) 0%Z = Z.of_nat (length (filter (in_bin edges j) xs)).
Proof.
  intros edges xs j HS. revert j. unfold edge_counts.
  induction HS as [|e r HSr IH Hhd]; intros j Hj; [cbn in Hj; lia|].
  destruct r as [|e' r']; [cbn in Hj; lia|].
  assert (Hle : e <= e') by (inversion Hhd; auto).
  rewrite e_cum_hd.
  destruct j as [|j].
  - (* first bin of this suffix *)
    destruct r' as [|e'' r''].
    + (* two edges: last bin, closed *)
      cbn [cum_counts diffZ nth]. rewrite e_last_bin by auto. reflexivity.
    + rewrite e_cum_hd. cbn [diffZ nth]. rewrite e_mid_bin by auto. reflexivity.
  - (* later bin: shift *)
    assert (Hj' : (S j < length (e' :: r'))%nat) by (cbn in *; lia).
    specialize (IH j Hj').
    destruct (cum_counts (e' :: r') xs) as [|c cs] eqn:E.
    { pose proof (e_cum_length (e' :: r') xs) as HL. rewrite E in HL. discriminate. }
    change (diffZ (count_lt (A:=RealA) e xs :: c :: cs)) with ((c - count_lt (A:=RealA) e xs)%Z :: diffZ (c :: cs)).
    change (nth (S j) ((c - count_lt (A:=RealA) e xs)%Z :: diffZ (c :: cs)) 0%Z) with (nth j (diffZ (c :: cs)) 0%Z).
    rewrite IH. reflexivity.
Qed.

(** ** the pooled edges *)
Lemma e_sorted_of_nth : forall l : list R, (forall i, (S i < length l)%nat -> nth i l 0 <= nth (S i) l 0) -> Sorted Rle l.
Proof.
  induction l as [|x l IH]; intros H; [constructor|]. constructor.
  - apply IH. intros i Hi. apply (H (S i)). cbn. lia.
  - destruct l as [|y l]; constructor. apply (H 0%nat). cbn. lia.
Qed.

Lemma linspace_sorted : forall (a b : R) (n : nat), (1 <= n)%nat -> a <= b -> Sorted Rle (linspace (A:=RealA) a b (S n)).
Proof.
  intros a b n Hn Hab. apply e_sorted_of_nth. intros i Hi. rewrite linspace_length in Hi.
  rewrite !linspace_nth by lia. rewrite S_INR.
  assert (Hp : 0 < INR n) by (apply lt_0_INR; lia).
  assert (0 <= (b - a) / INR n) by (apply Rmult_le_pos; [lra | left; apply Rinv_0_lt_compat; auto]).
  unfold Rdiv in *. nra.
Qed.

Lemma e_outer_edges : forall lo hi : R, lo <= hi ->
  let '(a, b) := outer_edges (A:=RealA) lo hi in a < b /\ a <= lo /\ hi <= b.
Proof.
  intros lo hi H. unfold outer_edges. cbn [eqb sub add RealA]. unfold half.
  change (@one RealA) with 1. change (@two RealA) with 2. cbn [div RealA].
  destruct (Reqb lo hi) eqn:E.
  - apply Reqb_true in E. subst. lra.
  - apply Reqb_false in E. lra.
Qed.

Lemma hist_edges_props : forall (lo hi : R) (nb : nat), (1 <= nb)%nat -> lo <= hi ->
  Sorted Rle (hist_edges (A:=RealA) lo hi nb) /\ length (hist_edges (A:=RealA) lo hi nb) = S nb /\
  hd 0 (hist_edges (A:=RealA) lo hi nb) <= lo /\ hi <= last (hist_edges (A:=RealA) lo hi nb) 0.
Proof.
  intros lo hi nb Hnb H. unfold hist_edges.
  pose proof (e_outer_edges lo hi H) as Ho. destruct (outer_edges lo hi) as [a b]. destruct Ho as (Hab & Ha & Hb).
  rewrite linspace_first, linspace_last, linspace_length by auto.
  repeat split; auto. apply linspace_sorted; auto; lra.
Qed.

Lemma e_in_pool_l : forall (X Y : list R) (x : R), In x X -> lmin (A:=RealA) (X ++ Y) <= x <= lmax (A:=RealA) (X ++ Y).
Proof. intros X Y x H. split; [apply lmin_le | apply lmax_ge]; apply in_or_app; auto. Qed.
Lemma e_in_pool_r : forall (X Y : list R) (x : R), In x Y -> lmin (A:=RealA) (X ++ Y) <= x <= lmax (A:=RealA) (X ++ Y).
Proof. intros X Y x H. split; [apply lmin_le | apply lmax_ge]; apply in_or_app; auto. Qed.

Lemma e_props_dist : forall (edges xs : list R) (lo hi : R), xs <> [] -> Sorted Rle edges -> (2 <= length edges)%nat ->
  hd 0 edges <= lo -> hi <= last edges 0 -> (forall x, In x xs -> lo <= x <= hi) ->
  isdist (proportions (A:=RealA) (edge_counts (A:=RealA) edges xs) (length xs)).
Proof.
  intros edges xs lo hi Hne HS HL Hlo Hhi Hin. apply proportions_isdist.
  - destruct xs; [congruence | cbn; lia].
  - apply edge_counts_nonneg; auto.
  - apply edge_counts_sum; auto. intros x Hx. specialize (Hin x Hx). lra.
Qed.

(** both proportion vectors of [_calculate_bins_values] are probability vectors of length [nb] *)
Lemma bins_values_dist : forall (nb : nat) (X Y : list R), (1 <= nb)%nat -> X <> [] -> Y <> [] ->
  isdist (fst (bins_values (A:=RealA) X Y nb)) /\ isdist (snd (bins_values (A:=RealA) X Y nb)) /\
  length (fst (bins_values (A:=RealA) X Y nb)) = nb /\ length (snd (bins_values (A:=RealA) X Y nb)) = nb.
Proof.
  intros nb X Y Hnb HX HY. unfold bins_values, pooled_edges. cbn [fst snd].
  assert (Hpool : X ++ Y <> []) by (destruct X; [congruence | discriminate]).
  pose proof (hist_edges_props (lmin (X ++ Y)) (lmax (X ++ Y)) nb Hnb (lmin_le_lmax _ Hpool)) as (HS & HL & Hlo & Hhi).
  split; [|split; [|split]].
  - apply (e_props_dist _ _ (lmin (X ++ Y)) (lmax (X ++ Y))); auto; [exact (eq_ind_r (fun n => (2 <= n)%nat) (ltac:(lia) : (2 <= S nb)%nat) HL)|]. intros x Hx. apply e_in_pool_l; auto.
  - apply (e_props_dist _ _ (lmin (X ++ Y)) (lmax (X ++ Y))); auto; [exact (eq_ind_r (fun n => (2 <= n)%nat) (ltac:(lia) : (2 <= S nb)%nat) HL)|]. intros x Hx. apply e_in_pool_r; auto.
  - rewrite proportions_length, edge_counts_length. change (num RealA) with R in *. rewrite HL. reflexivity.
  - rewrite proportions_length, edge_counts_length. change (num RealA) with R in *. rewrite HL. reflexivity.
Qed.

Lemma bins_values_perm : forall (nb : nat) (X X' Y Y' : list R), Permutation X X' -> Permutation Y Y' ->
  bins_values (A:=RealA) X Y nb = bins_values (A:=RealA) X' Y' nb.
Proof.
  intros nb X X' Y Y' HX HY. unfold bins_values, pooled_edges.
  assert (HP : Permutation (X ++ Y) (X' ++ Y')) by (apply Permutation_app; auto).
  change (num RealA) with R in *.
  rewrite (lmin_perm _ _ HP), (lmax_perm _ _ HP).
  rewrite (Permutation_length HX), (Permutation_length HY).
  f_equal; f_equal; apply edge_counts_perm; auto.
Qed.

Lemma bins_values_swap : forall (nb : nat) (X Y : list R),
  bins_values (A:=RealA) Y X nb = (snd (bins_values (A:=RealA) X Y nb), fst (bins_values (A:=RealA) X Y nb)).
Proof.
  intros nb X Y. unfold bins_values, pooled_edges. cbn [fst snd].
  change (num RealA) with R in *.
  rewrite (lmin_perm _ _ (Permutation_app_comm Y X)), (lmax_perm _ _ (Permutation_app_comm Y X)).
  reflexivity.
Qed.

Lemma bins_values_self : forall (nb : nat) (X : list R),
  fst (bins_values (A:=RealA) X X nb) = snd (bins_values (A:=RealA) X X nb).
Proof. reflexivity. Qed.

(** * Part V1 -- ranges, identity and symmetry of the distances on two proportion vectors *)

(** ** generic facts about sums over [map2] *)

Lemma v1_map2_diag : forall (f : R -> R -> R) (p : list R), map2 f p p = map (fun x => f x x) p.
Proof.
  intros f p. induction p as [|x p IH]; cbn [map2 map]; [reflexivity|].
  rewrite IH. reflexivity.
Qed.

Lemma v1_map2_sym_P : forall (P : R -> Prop) (f : R -> R -> R) (p q : list R),
  (forall x y : R, P x -> P y -> f x y = f y x) -> Forall P p -> Forall P q -> map2 f p q = map2 f q p.
Proof.
  intros P f p q Hf Hp. revert q. induction Hp as [|x p Hx Hp IH]; intros q Hq.
  - destruct q; reflexivity.
  - destruct Hq as [|y q Hy Hq]; cbn [map2]; [reflexivity|].
    rewrite (Hf x y Hx Hy), (IH q Hq). reflexivity.
Qed.

Lemma v1_sumA_map2_pos : forall (P Q : R -> Prop) (f : R -> R -> R) (p q : list R),
  (forall x y : R, P x -> Q y -> 0 <= f x y) -> Forall P p -> Forall Q q ->
  0 <= sumA (A:=RealA) (map2 f p q).
Proof.
  intros P Q f p q Hf Hp. revert q. induction Hp as [|x p Hx Hp IH]; intros q Hq.
  - cbn [map2]. sumA0. lra.
  - destruct Hq as [|y q Hy Hq]; cbn [map2].
    + sumA0. lra.
    + rewrite sumA_cons. specialize (IH q Hq). specialize (Hf x y Hx Hy). lra.
Qed.

Lemma v1_sumA_map2_le_add : forall (c : R) (f : R -> R -> R) (p q : list R), 0 <= c ->
  (forall x y : R, 0 <= x -> 0 <= y -> f x y <= c * (x + y)) -> nonneg p -> nonneg q ->
  sumA (A:=RealA) (map2 f p q) <= c * (sumA (A:=RealA) p + sumA (A:=RealA) q).
Proof.
  intros c f p q Hc Hf Hp. revert q. induction Hp as [|x p Hx Hp IH]; intros q Hq.
  - cbn [map2]. sumA0. pose proof (sumA_nonneg q Hq) as Hs.
    apply Rmult_le_pos; lra.
  - destruct Hq as [|y q Hy Hq]; cbn [map2].
    + sumA0. pose proof (sumA_nonneg (x :: p) (Forall_cons x Hx Hp)) as Hs.
      apply Rmult_le_pos; lra.
    + rewrite !sumA_cons. specialize (IH q Hq). specialize (Hf x y Hx Hy).
      rewrite Rmult_plus_distr_l in *.
      replace (c * (x + sumA (A:=RealA) p) + c * (y + sumA (A:=RealA) q))
        with ((c * x + c * y) + (c * sumA (A:=RealA) p + c * sumA (A:=RealA) q)) by ring.
      lra.
Qed.

Lemma v1_sumA_map2_le_fst : forall (f : R -> R -> R) (p q : list R),
  (forall x y : R, f x y <= x) -> nonneg p ->
  sumA (A:=RealA) (map2 f p q) <= sumA (A:=RealA) p.
Proof.
  intros f p q Hf Hp. revert q. induction Hp as [|x p Hx Hp IH]; intros q.
  - cbn [map2]. sumA0. lra.
  - destruct q as [|y q]; cbn [map2].
    + sumA0. apply sumA_nonneg. constructor; assumption.
    + rewrite !sumA_cons. specialize (IH q). specialize (Hf x y). lra.
Qed.

Lemma v1_sumA_map_zero : forall (g : R -> R) (l : list R), (forall x : R, g x = 0) ->
  sumA (A:=RealA) (map g l) = 0.
Proof.
  intros g l Hg. induction l as [|x l IH]; cbn [map]; [sumA0; reflexivity|].
  rewrite sumA_cons, IH, Hg. lra.
Qed.

Lemma v1_sumA_map_id : forall (g : R -> R) (l : list R), nonneg l ->
  (forall x : R, 0 <= x -> g x = x) -> sumA (A:=RealA) (map g l) = sumA (A:=RealA) l.
Proof.
  intros g l Hl Hg. induction Hl as [|x l Hx Hl IH]; cbn [map]; [reflexivity|].
  rewrite !sumA_cons, IH, (Hg x Hx). reflexivity.
Qed.

(** ** Hellinger *)

Lemma v1_hell_term_nonneg : forall x y : R, 0 <= (R_sqrt.sqrt x - R_sqrt.sqrt y) * (R_sqrt.sqrt x - R_sqrt.sqrt y).
Proof. intros x y. pose proof (Rle_0_sqr (R_sqrt.sqrt x - R_sqrt.sqrt y)) as H. unfold Rsqr in H. exact H. Qed.

Lemma v1_hell_term_le : forall x y : R, 0 <= x -> 0 <= y ->
  (R_sqrt.sqrt x - R_sqrt.sqrt y) * (R_sqrt.sqrt x - R_sqrt.sqrt y) <= 1 * (x + y).
Proof.
  intros x y Hx Hy.
  pose proof (sqrt_sqrt x Hx) as Ex. pose proof (sqrt_sqrt y Hy) as Ey.
  pose proof (sqrt_pos x) as Px. pose proof (sqrt_pos y) as Py.
  pose proof (Rmult_le_pos _ _ Px Py) as Pxy.
  replace ((R_sqrt.sqrt x - R_sqrt.sqrt y) * (R_sqrt.sqrt x - R_sqrt.sqrt y))
    with (R_sqrt.sqrt x * R_sqrt.sqrt x + R_sqrt.sqrt y * R_sqrt.sqrt y - 2 * (R_sqrt.sqrt x * R_sqrt.sqrt y)) by ring.
  rewrite Ex, Ey. lra.
Qed.

Lemma v1_sqrt2_pos : 0 < R_sqrt.sqrt 2.
Proof. apply sqrt_lt_R0. lra. Qed.

Lemma hellinger_nonneg : forall p q : list R, 0 <= hellinger_f (A:=RealA) p q.
Proof.
  intros p q. unfold hellinger_f. cbn [div sqrt RealA]. change (@two RealA) with 2.
  unfold Rdiv. apply Rmult_le_pos; [apply sqrt_pos|].
  left. apply Rinv_0_lt_compat. exact v1_sqrt2_pos.
Qed.

Lemma hellinger_self : forall p : list R, hellinger_f (A:=RealA) p p = 0.
Proof.
  intros p. unfold hellinger_f, sumA2. rewrite v1_map2_diag.
  rewrite v1_sumA_map_zero.
  - cbn [div sqrt RealA]. rewrite sqrt_0. unfold Rdiv. apply Rmult_0_l.
  - intros x. unfold sqr. cbn [mul sub sqrt RealA]. ring.
Qed.

Lemma hellinger_sym : forall p q : list R, hellinger_f (A:=RealA) p q = hellinger_f (A:=RealA) q p.
Proof.
  intros p q. unfold hellinger_f, sumA2. f_equal. f_equal. f_equal.
  apply map2_sym. intros a b. unfold sqr. cbn [mul sub sqrt RealA]. eqR. ring.
Qed.

Lemma hellinger_le1 : forall p q : list R, isdist p -> isdist q -> hellinger_f (A:=RealA) p q <= 1.
Proof.
  intros p q [Hp Sp] [Hq Sq]. unfold hellinger_f, sumA2.
  cbn [div sqrt RealA]. change (@two RealA) with 2.
  pose proof v1_sqrt2_pos as H2.
  apply (Rmult_le_reg_r (R_sqrt.sqrt 2)); [exact H2|].
  unfold Rdiv. rewrite Rmult_assoc, Rinv_l by lra. rewrite Rmult_1_r, Rmult_1_l.
  apply sqrt_le_1_alt.
  eapply Rle_trans; [apply (v1_sumA_map2_le_add 1); [lra| |exact Hp|exact Hq] | rewrite Sp, Sq; lra].
  intros x y Hx Hy. unfold sqr. cbn [mul sub sqrt RealA]. apply v1_hell_term_le; assumption.
Qed.

(** ** Bhattacharyya *)

Lemma v1_amgm : forall x y : R, 0 <= x -> 0 <= y -> R_sqrt.sqrt (x * y) <= / 2 * (x + y).
Proof.
  intros x y Hx Hy. rewrite sqrt_mult by assumption.
  pose proof (v1_hell_term_nonneg x y) as H.
  pose proof (sqrt_sqrt x Hx) as Ex. pose proof (sqrt_sqrt y Hy) as Ey.
  replace ((R_sqrt.sqrt x - R_sqrt.sqrt y) * (R_sqrt.sqrt x - R_sqrt.sqrt y))
    with (R_sqrt.sqrt x * R_sqrt.sqrt x + R_sqrt.sqrt y * R_sqrt.sqrt y - 2 * (R_sqrt.sqrt x * R_sqrt.sqrt y)) in H by ring.
  rewrite Ex, Ey in H. lra.
Qed.

Lemma bhattacharyya_nonneg : forall p q : list R, isdist p -> isdist q -> 0 <= bhattacharyya_f (A:=RealA) p q.
Proof.
  intros p q [Hp Sp] [Hq Sq]. unfold bhattacharyya_f, sumA2.
  cbn [sub RealA]. change (@one RealA) with 1.
  assert (H' : sumA (A:=RealA) (map2 (fun x y : num RealA => sqrt (x * y)%A) p q) <= / 2 * (sumA (A:=RealA) p + sumA (A:=RealA) q)).
  { apply v1_sumA_map2_le_add; auto; [lra|]. intros x y Hx Hy. cbn [mul sqrt RealA]. apply v1_amgm; assumption. }
  rewrite Sp, Sq in H'.
  lra.
Qed.

Lemma bhattacharyya_le1 : forall p q : list R, nonneg p -> nonneg q -> bhattacharyya_f (A:=RealA) p q <= 1.
Proof.
  intros p q Hp Hq. unfold bhattacharyya_f, sumA2.
  cbn [sub RealA]. change (@one RealA) with 1.
  assert (H' : 0 <= sumA (A:=RealA) (map2 (fun x y : num RealA => sqrt (x * y)%A) p q)).
  { apply (v1_sumA_map2_pos (fun x => 0 <= x) (fun x => 0 <= x)); auto.
    intros x y _ _. cbn [mul sqrt RealA]. apply sqrt_pos. }
  lra.
Qed.

Lemma bhattacharyya_self : forall p : list R, isdist p -> bhattacharyya_f (A:=RealA) p p = 0.
Proof.
  intros p [Hp Sp]. unfold bhattacharyya_f, sumA2. rewrite v1_map2_diag.
  rewrite (v1_sumA_map_id _ p Hp).
  - rewrite Sp. cbn [sub RealA]. change (@one RealA) with 1. lra.
  - intros x Hx. cbn [mul sqrt RealA]. apply sqrt_square. exact Hx.
Qed.

Lemma bhattacharyya_sym : forall p q : list R, bhattacharyya_f (A:=RealA) p q = bhattacharyya_f (A:=RealA) q p.
Proof.
  intros p q. unfold bhattacharyya_f, sumA2. f_equal. f_equal.
  apply map2_sym. intros a b. cbn [mul sqrt RealA]. rewrite Rmult_comm. reflexivity.
Qed.

(** ** histogram-intersection complement *)

Lemma v1_minA_le_l : forall x y : R, minA (A:=RealA) x y <= x.
Proof. intros x y. unfold minA. cbn [ltb RealA]. destruct (Rltb_spec y x); lra. Qed.

Lemma v1_minA_nonneg : forall x y : R, 0 <= x -> 0 <= y -> 0 <= minA (A:=RealA) x y.
Proof. intros x y Hx Hy. unfold minA. cbn [ltb RealA]. destruct (Rltb_spec y x); lra. Qed.

Lemma v1_minA_diag : forall x : R, minA (A:=RealA) x x = x.
Proof. intros x. unfold minA. destruct (ltb x x); reflexivity. Qed.

Lemma v1_minA_comm : forall x y : R, minA (A:=RealA) x y = minA (A:=RealA) y x.
Proof.
  intros x y. unfold minA. cbn [ltb RealA].
  destruct (Rltb_spec y x); destruct (Rltb_spec x y); eqR; lra.
Qed.

Lemma hi_nonneg : forall p q : list R, isdist p -> isdist q -> 0 <= hi_f (A:=RealA) p q.
Proof.
  intros p q [Hp Sp] [Hq Sq]. unfold hi_f, sumA2.
  cbn [sub RealA]. change (@one RealA) with 1.
  match goal with |- 0 <= 1 - ?s => assert (H : s <= 1) end.
  { rewrite <- Sp. apply v1_sumA_map2_le_fst; [exact v1_minA_le_l|exact Hp]. }
  lra.
Qed.

Lemma hi_le1 : forall p q : list R, nonneg p -> nonneg q -> hi_f (A:=RealA) p q <= 1.
Proof.
  intros p q Hp Hq. unfold hi_f, sumA2.
  cbn [sub RealA]. change (@one RealA) with 1.
  match goal with |- 1 - ?s <= 1 => assert (H : 0 <= s) end.
  { apply (v1_sumA_map2_pos (fun x => 0 <= x) (fun x => 0 <= x)); [exact v1_minA_nonneg|exact Hp|exact Hq]. }
  lra.
Qed.

Lemma hi_self : forall p : list R, isdist p -> hi_f (A:=RealA) p p = 0.
Proof.
  intros p [Hp Sp]. unfold hi_f, sumA2. rewrite v1_map2_diag.
  rewrite (v1_sumA_map_id _ p Hp).
  - rewrite Sp. cbn [sub RealA]. change (@one RealA) with 1. lra.
  - intros x _. apply v1_minA_diag.
Qed.

Lemma hi_sym : forall p q : list R, hi_f (A:=RealA) p q = hi_f (A:=RealA) q p.
Proof.
  intros p q. unfold hi_f, sumA2. f_equal. f_equal.
  apply map2_sym. exact v1_minA_comm.
Qed.

(** ** PSI *)

Lemma v1_floor0_pos : forall (tiny : R) (p : list R), 0 < tiny -> nonneg p ->
  Forall (fun v : R => 0 < v) (floor0 (A:=RealA) tiny p).
Proof.
  intros tiny p Ht Hp. unfold floor0. apply Forall_map.
  eapply Forall_impl; [|exact Hp]. intros v Hv. cbv beta.
  cbn [eqb RealA]. change (@zero RealA) with 0.
  destruct (Reqb v 0) eqn:E; [exact Ht|].
  apply Reqb_false in E. lra.
Qed.

Lemma v1_ln_quot : forall x y : R, 0 < x -> 0 < y -> Rpower.ln (y / x) = Rpower.ln y - Rpower.ln x.
Proof.
  intros x y Hx Hy. unfold Rdiv.
  rewrite ln_mult; [|exact Hy|apply Rinv_0_lt_compat; exact Hx].
  rewrite ln_Rinv by exact Hx. lra.
Qed.

Lemma v1_psi_term_nonneg : forall x y : R, 0 < x -> 0 < y -> 0 <= (y - x) * Rpower.ln (y / x).
Proof.
  intros x y Hx Hy. rewrite v1_ln_quot by assumption.
  destruct (Rtotal_order x y) as [Hlt|[Heq|Hgt]].
  - pose proof (ln_increasing x y Hx Hlt) as H.
    apply Rmult_le_pos; lra.
  - subst y. replace (x - x) with 0 by lra. rewrite Rmult_0_l. lra.
  - pose proof (ln_increasing y x Hy Hgt) as H.
    replace ((y - x) * (Rpower.ln y - Rpower.ln x)) with ((x - y) * (Rpower.ln x - Rpower.ln y)) by ring.
    apply Rmult_le_pos; lra.
Qed.

Lemma v1_psi_term_sym : forall x y : R, 0 < x -> 0 < y ->
  (y - x) * Rpower.ln (y / x) = (x - y) * Rpower.ln (x / y).
Proof.
  intros x y Hx Hy. rewrite (v1_ln_quot x y Hx Hy), (v1_ln_quot y x Hy Hx). ring.
Qed.

Lemma psi_nonneg : forall (tiny : R) (p q : list R), 0 < tiny -> nonneg p -> nonneg q -> 0 <= psi_f (A:=RealA) tiny p q.
Proof.
  intros tiny p q Ht Hp Hq. unfold psi_f, sumA2.
  apply (v1_sumA_map2_pos (fun v : R => 0 < v) (fun v : R => 0 < v)).
  - intros x y Hx Hy. cbn [mul sub div ln RealA]. apply v1_psi_term_nonneg; assumption.
  - apply v1_floor0_pos; assumption.
  - apply v1_floor0_pos; assumption.
Qed.

Lemma psi_self : forall (tiny : R) (p : list R), psi_f (A:=RealA) tiny p p = 0.
Proof.
  intros tiny p. unfold psi_f, sumA2. rewrite v1_map2_diag.
  apply v1_sumA_map_zero. intros x. cbn [mul sub div ln RealA].
  replace (x - x) with 0 by lra. apply Rmult_0_l.
Qed.

Lemma psi_sym : forall (tiny : R) (p q : list R), 0 < tiny -> nonneg p -> nonneg q -> psi_f (A:=RealA) tiny p q = psi_f (A:=RealA) tiny q p.
Proof.
  intros tiny p q Ht Hp Hq. unfold psi_f, sumA2. f_equal.
  apply (v1_map2_sym_P (fun v : R => 0 < v)).
  - intros x y Hx Hy. cbn [mul sub div ln RealA]. apply v1_psi_term_sym; assumption.
  - apply v1_floor0_pos; assumption.
  - apply v1_floor0_pos; assumption.
Qed.

(** * Part V2 — KL divergence and Jensen-Shannon distance on two mass vectors *)

(** ** [xadd] / [xsum] over R *)
Lemma v2_xadd_assoc : forall a b c : xnum (A:=RealA), xadd (xadd a b) c = xadd a (xadd b c).
Proof.
  intros [u| |] [v| |] [w| |]; cbn [xadd]; try reflexivity.
  f_equal. cbn [add RealA]. eqR. ring.
Qed.

Lemma v2_xadd_comm : forall a b : xnum (A:=RealA), xadd a b = xadd b a.
Proof.
  intros [u| |] [v| |]; cbn [xadd]; try reflexivity.
  f_equal. cbn [add RealA]. eqR. ring.
Qed.

Lemma v2_fold_xadd : forall (l : list (xnum (A:=RealA))) (a b : xnum (A:=RealA)),
  fold_left xadd l (xadd a b) = xadd a (fold_left xadd l b).
Proof.
  induction l as [|c l IH]; intros a b; cbn [fold_left]; [reflexivity|].
  rewrite v2_xadd_assoc. apply IH.
Qed.

Lemma v2_xsum_nil : xsum (A:=RealA) [] = Fin 0.
Proof. reflexivity. Qed.

Lemma v2_xsum_cons : forall (x : xnum (A:=RealA)) (l : list (xnum (A:=RealA))),
  xsum (x :: l) = xadd x (xsum l).
Proof.
  intros x l. unfold xsum. cbn [fold_left].
  rewrite (v2_xadd_comm (Fin zero) x). apply v2_fold_xadd.
Qed.

Lemma v2_xadd_not_nan : forall a b : xnum (A:=RealA), a <> NaN -> b <> NaN -> xadd a b <> NaN.
Proof. intros [u| |] [v| |] Ha Hb; cbn [xadd]; congruence. Qed.

Lemma v2_xadd_fin_inv : forall (a b : xnum (A:=RealA)) (v : R), xadd a b = Fin v ->
  exists u w : R, a = Fin u /\ b = Fin w /\ v = u + w.
Proof.
  intros [u| |] [w| |] v H; cbn [xadd] in H; try discriminate.
  exists u, w. injection H as H. cbn [add RealA] in H. auto.
Qed.

Lemma v2_xadd_pinf : forall a b : xnum (A:=RealA), a <> NaN -> b <> NaN ->
  (xadd a b = PInf <-> a = PInf \/ b = PInf).
Proof.
  intros [u| |] [v| |] Ha Hb; cbn [xadd]; split; intro H; try congruence; auto;
    destruct H; congruence.
Qed.

(** ** [rel_entr] over R *)
Lemma v2_rel_entr_pos : forall x y : R, 0 < x -> 0 < y ->
  rel_entr (A:=RealA) x y = Fin (x * Rpower.ln (x / y)).
Proof.
  intros x y Hx Hy. unfold rel_entr. cbn [ltb leb eqb mul div ln RealA].
  change (@zero RealA) with 0.
  rewrite (proj2 (Rltb_true 0 x) Hx), (proj2 (Rltb_true 0 y) Hy). reflexivity.
Qed.

Lemma v2_rel_entr_zero : forall y : R, 0 <= y -> rel_entr (A:=RealA) 0 y = Fin 0.
Proof.
  intros y Hy. unfold rel_entr. cbn [ltb leb eqb mul div ln RealA].
  change (@zero RealA) with 0.
  rewrite (proj2 (Rltb_false 0 0)) by lra. cbn [andb].
  rewrite (proj2 (Reqb_true 0 0) eq_refl), (proj2 (Rleb_true 0 y) Hy). reflexivity.
Qed.

Lemma v2_rel_entr_inf : forall x : R, 0 < x -> rel_entr (A:=RealA) x 0 = PInf.
Proof.
  intros x Hx. unfold rel_entr. cbn [ltb leb eqb mul div ln RealA].
  change (@zero RealA) with 0.
  rewrite (proj2 (Rltb_true 0 x) Hx), (proj2 (Rltb_false 0 0)) by lra. cbn [andb].
  rewrite (proj2 (Reqb_false x 0)) by lra. reflexivity.
Qed.

Lemma v2_rel_entr_not_nan : forall x y : R, rel_entr (A:=RealA) x y <> NaN.
Proof.
  intros x y. unfold rel_entr.
  destruct (_ && _); [discriminate|]. destruct (_ && _); discriminate.
Qed.

Lemma v2_rel_entr_cases : forall x y : R, 0 <= x -> 0 <= y ->
  (0 < x /\ 0 < y /\ rel_entr (A:=RealA) x y = Fin (x * Rpower.ln (x / y))) \/
  (x = 0 /\ rel_entr (A:=RealA) x y = Fin 0) \/
  (0 < x /\ y = 0 /\ rel_entr (A:=RealA) x y = PInf).
Proof.
  intros x y Hx Hy.
  destruct (Rle_lt_or_eq_dec 0 x Hx) as [Hxp|Hx0].
  - destruct (Rle_lt_or_eq_dec 0 y Hy) as [Hyp|Hy0].
    + left. auto using v2_rel_entr_pos.
    + right; right. subst y. auto using v2_rel_entr_inf.
  - right; left. subst x. auto using v2_rel_entr_zero.
Qed.

Lemma v2_rel_entr_pinf_iff : forall x y : R, 0 <= x -> 0 <= y ->
  (rel_entr (A:=RealA) x y = PInf <-> 0 < x /\ y = 0).
Proof.
  intros x y Hx Hy.
  destruct (v2_rel_entr_cases x y Hx Hy) as [(H1 & H2 & H3)|[(H1 & H3)|(H1 & H2 & H3)]];
    rewrite H3; split; intro H; try discriminate; auto; destruct H; lra.
Qed.

Lemma v2_xsum_re_not_nan : forall q p : list R, xsum (map2 (rel_entr (A:=RealA)) q p) <> NaN.
Proof.
  induction q as [|x q IH]; intros [|y p]; cbn [map2]; try (rewrite v2_xsum_nil; discriminate).
  rewrite v2_xsum_cons. apply v2_xadd_not_nan; [apply v2_rel_entr_not_nan | apply IH].
Qed.

(** ** Gibbs' inequality, termwise *)
Lemma v2_ln_le_sub1 : forall t : R, 0 < t -> Rpower.ln t <= t - 1.
Proof.
  intros t Ht. pose proof (exp_ineq1_le (Rpower.ln t)) as H.
  rewrite exp_ln in H by exact Ht. lra.
Qed.

Lemma v2_ln_le : forall a b : R, 0 < a -> a <= b -> Rpower.ln a <= Rpower.ln b.
Proof.
  intros a b Ha [Hlt|Heq].
  - left. apply ln_increasing; assumption.
  - subst. lra.
Qed.

Lemma v2_gibbs : forall x y : R, 0 < x -> 0 < y -> x - y <= x * Rpower.ln (x / y).
Proof.
  intros x y Hx Hy.
  assert (Ht : 0 < y / x) by (apply Rdiv_lt_0_compat; assumption).
  replace (x / y) with (/ (y / x)) by (field; lra).
  rewrite ln_Rinv by exact Ht.
  pose proof (v2_ln_le_sub1 (y / x) Ht) as HL.
  pose proof (Rmult_le_compat_l x _ _ (Rlt_le _ _ Hx) HL) as HM.
  replace (x * (y / x - 1)) with (y - x) in HM by (field; lra).
  lra.
Qed.

Definition v2_avg (x y : R) : R := (x + y) / 2.

Lemma v2_ln_ub : forall x y : R, 0 < x -> 0 <= y ->
  x * Rpower.ln (x / v2_avg x y) <= x * Rpower.ln 2.
Proof.
  intros x y Hx Hy. unfold v2_avg.
  apply Rmult_le_compat_l; [lra|].
  apply v2_ln_le.
  - apply Rdiv_lt_0_compat; lra.
  - apply Rmult_le_reg_r with ((x + y) / 2); [lra|].
    replace (x / ((x + y) / 2) * ((x + y) / 2)) with x by (field; lra). lra.
Qed.

(** ** KL *)
Lemma v2_kl_self_aux : forall P : list R, nonneg P -> xsum (map2 (rel_entr (A:=RealA)) P P) = Fin 0.
Proof.
  induction 1 as [|x P Hx HP IH]; [reflexivity|].
  cbn [map2]. rewrite v2_xsum_cons, IH.
  destruct (Rle_lt_or_eq_dec 0 x Hx) as [Hxp|Hx0].
  - rewrite v2_rel_entr_pos by assumption. cbn [xadd]. f_equal. cbn [add RealA].
    replace (x / x) with 1 by (field; lra). rewrite ln_1. eqR. ring.
  - subst x. rewrite v2_rel_entr_zero by lra. cbn [xadd]. f_equal. cbn [add RealA]. eqR. ring.
Qed.

Lemma kl_self : forall P : list R, nonneg P -> kl_f (A:=RealA) P P = Fin 0.
Proof. intros P HP. unfold kl_f. apply v2_kl_self_aux; assumption. Qed.

Lemma v2_kl_lower_aux : forall q p : list R, nonneg q -> nonneg p -> length q = length p ->
  forall v : R, xsum (map2 (rel_entr (A:=RealA)) q p) = Fin v ->
  sumA (A:=RealA) q - sumA (A:=RealA) p <= v.
Proof.
  induction q as [|x q IH]; intros [|y p] Hq Hp HL v Hv; try discriminate.
  - cbn [map2] in Hv. rewrite v2_xsum_nil in Hv. injection Hv as Hv.
    sumA0. change (num RealA) with R in *. lra.
  - cbn [map2] in Hv. rewrite v2_xsum_cons in Hv.
    apply v2_xadd_fin_inv in Hv. destruct Hv as (u & w & Hu & Hw & ->).
    inversion Hq as [|? ? Hx Hq']; subst. inversion Hp as [|? ? Hy Hp']; subst.
    cbn [length] in HL. injection HL as HL.
    specialize (IH p Hq' Hp' HL w Hw).
    rewrite !sumA_cons.
    destruct (v2_rel_entr_cases x y Hx Hy) as [(H1 & H2 & H3)|[(H1 & H3)|(H1 & H2 & H3)]];
      rewrite H3 in Hu; try discriminate; injection Hu as Hu;
      change (num RealA) with R in *; subst u.
    + pose proof (v2_gibbs x y H1 H2). lra.
    + lra.
Qed.

Lemma kl_lower : forall Pref Qtest : list R, nonneg Pref -> nonneg Qtest -> length Pref = length Qtest ->
  forall v : R, kl_f (A:=RealA) Pref Qtest = Fin v -> sumA (A:=RealA) Qtest - sumA (A:=RealA) Pref <= v.
Proof.
  intros Pref Qtest HP HQ HL v Hv. unfold kl_f in Hv.
  apply v2_kl_lower_aux; auto.
Qed.

Lemma kl_not_nan : forall Pref Qtest : list R, kl_f (A:=RealA) Pref Qtest <> NaN.
Proof. intros Pref Qtest. unfold kl_f. apply v2_xsum_re_not_nan. Qed.

Lemma kl_nonneg : forall Pref Qtest : list R, nonneg Pref -> nonneg Qtest -> length Pref = length Qtest ->
  sumA (A:=RealA) Pref <= sumA (A:=RealA) Qtest ->
  kl_f (A:=RealA) Pref Qtest = PInf \/ exists v : R, kl_f (A:=RealA) Pref Qtest = Fin v /\ 0 <= v.
Proof.
  intros Pref Qtest HP HQ HL Hs.
  destruct (kl_f (A:=RealA) Pref Qtest) as [v| |] eqn:E.
  - right. exists v. split; [reflexivity|].
    pose proof (kl_lower Pref Qtest HP HQ HL v E). lra.
  - left; reflexivity.
  - exfalso. exact (kl_not_nan Pref Qtest E).
Qed.

Lemma v2_kl_inf_aux : forall q p : list R, nonneg q -> nonneg p ->
  (xsum (map2 (rel_entr (A:=RealA)) q p) = PInf <->
   exists i : nat, (i < length p)%nat /\ (i < length q)%nat /\ 0 < nth i q 0 /\ nth i p 0 = 0).
Proof.
  induction q as [|x q IH]; intros [|y p] Hq Hp; cbn [map2].
  - rewrite v2_xsum_nil. split; [discriminate|]. intros (i & H1 & _). cbn in H1. lia.
  - rewrite v2_xsum_nil. split; [discriminate|]. intros (i & _ & H1 & _). cbn in H1. lia.
  - rewrite v2_xsum_nil. split; [discriminate|]. intros (i & H1 & _). cbn in H1. lia.
  - inversion Hq as [|? ? Hx Hq']; subst. inversion Hp as [|? ? Hy Hp']; subst.
    rewrite v2_xsum_cons.
    rewrite v2_xadd_pinf by (apply v2_rel_entr_not_nan || apply v2_xsum_re_not_nan).
    rewrite (v2_rel_entr_pinf_iff x y Hx Hy). rewrite (IH p Hq' Hp').
    split.
    + intros [(H1 & H2)|(i & H1 & H2 & H3 & H4)].
      * exists 0%nat. cbn [length nth]. repeat split; try lia; assumption.
      * exists (S i). cbn [length nth]. repeat split; try lia; assumption.
    + intros ([|i] & H1 & H2 & H3 & H4); cbn [length nth] in *.
      * left. split; assumption.
      * right. exists i. repeat split; try lia; assumption.
Qed.

Lemma kl_inf_iff : forall Pref Qtest : list R, nonneg Pref -> nonneg Qtest ->
  (kl_f (A:=RealA) Pref Qtest = PInf <->
   exists i : nat, (i < length Pref)%nat /\ (i < length Qtest)%nat /\ 0 < nth i Qtest 0 /\ nth i Pref 0 = 0).
Proof.
  intros Pref Qtest HP HQ. unfold kl_f. apply v2_kl_inf_aux; assumption.
Qed.

(** ** Jensen-Shannon *)
Lemma v2_avg_map2_sym : forall p q : list R, map2 v2_avg p q = map2 v2_avg q p.
Proof.
  intros p q. apply map2_sym. intros a b. unfold v2_avg. f_equal. apply Rplus_comm.
Qed.

Lemma v2_avg_nonneg : forall p q : list R, nonneg p -> nonneg q -> nonneg (map2 v2_avg p q).
Proof.
  induction p as [|x p IH]; intros [|y q] Hp Hq; cbn [map2]; try constructor.
  - inversion Hp; inversion Hq; subst. unfold v2_avg. lra.
  - inversion Hp; inversion Hq; subst. apply IH; assumption.
Qed.

Lemma v2_sum_avg : forall p q : list R, length p = length q ->
  sumA (A:=RealA) (map2 v2_avg p q) = (sumA (A:=RealA) p + sumA (A:=RealA) q) / 2.
Proof.
  induction p as [|x p IH]; intros [|y q] HL; try discriminate; cbn [map2].
  - sumA0. lra.
  - cbn [length] in HL. injection HL as HL. rewrite !sumA_cons, (IH q HL). unfold v2_avg. lra.
Qed.

(** one of the two halves: finite, bounded below by Gibbs and above by [ln 2] per unit of mass *)
Lemma v2_js_half : forall p q : list R, nonneg p -> nonneg q -> length p = length q ->
  exists a : R, xsum (map2 (rel_entr (A:=RealA)) p (map2 v2_avg p q)) = Fin a /\
    sumA (A:=RealA) p - sumA (A:=RealA) (map2 v2_avg p q) <= a /\
    a <= sumA (A:=RealA) p * Rpower.ln 2.
Proof.
  induction p as [|x p IH]; intros [|y q] Hp Hq HL; try discriminate.
  - exists 0. cbn [map2]. rewrite v2_xsum_nil. sumA0. split; [reflexivity|]. lra.
  - inversion Hp as [|? ? Hx Hp']; subst. inversion Hq as [|? ? Hy Hq']; subst.
    cbn [length] in HL. injection HL as HL.
    destruct (IH q Hp' Hq' HL) as (a & Ha & Hlo & Hhi).
    cbn [map2]. rewrite v2_xsum_cons, Ha, !sumA_cons.
    destruct (Rle_lt_or_eq_dec 0 x Hx) as [Hxp|Hx0].
    + assert (Hm : 0 < v2_avg x y) by (unfold v2_avg; lra).
      rewrite v2_rel_entr_pos by assumption. cbn [xadd add RealA].
      exists (x * Rpower.ln (x / v2_avg x y) + a). split; [reflexivity|].
      pose proof (v2_gibbs x (v2_avg x y) Hxp Hm).
      pose proof (v2_ln_ub x y Hxp Hy). lra.
    + subst x. assert (Hm : 0 <= v2_avg 0 y) by (unfold v2_avg; lra).
      rewrite v2_rel_entr_zero by assumption. cbn [xadd add RealA].
      exists (0 + a). split; [reflexivity|]. lra.
Qed.

Lemma v2_js_self_aux : forall p : list R, nonneg p ->
  xsum (map2 (rel_entr (A:=RealA)) p (map2 v2_avg p p)) = Fin 0.
Proof.
  induction 1 as [|x p Hx Hp IH]; [reflexivity|].
  cbn [map2]. rewrite v2_xsum_cons, IH.
  destruct (Rle_lt_or_eq_dec 0 x Hx) as [Hxp|Hx0].
  - assert (Hm : 0 < v2_avg x x) by (unfold v2_avg; lra).
    rewrite v2_rel_entr_pos by assumption. cbn [xadd]. f_equal. cbn [add RealA].
    replace (x / v2_avg x x) with 1 by (unfold v2_avg; field; lra). rewrite ln_1. eqR. ring.
  - subst x. assert (Hm : 0 <= v2_avg 0 0) by (unfold v2_avg; lra).
    rewrite v2_rel_entr_zero by assumption. cbn [xadd]. f_equal. cbn [add RealA]. eqR. ring.
Qed.

(** normalisation by the total *)
Definition v2_norm (s : R) (P : list R) : list R := map (fun v : R => v / s) P.

Lemma v2_norm_length : forall (s : R) (P : list R), length (v2_norm s P) = length P.
Proof. intros. unfold v2_norm. apply map_length. Qed.

Lemma v2_norm_nonneg : forall (s : R) (P : list R), 0 < s -> nonneg P -> nonneg (v2_norm s P).
Proof.
  intros s P Hs HP. unfold v2_norm, nonneg. apply Forall_map.
  eapply Forall_impl; [|exact HP]. intros x Hx. cbv beta.
  apply Rmult_le_pos; [exact Hx | left; apply Rinv_0_lt_compat; exact Hs].
Qed.

Lemma v2_norm_sum : forall (s : R) (P : list R), sumA (A:=RealA) (v2_norm s P) = sumA (A:=RealA) P / s.
Proof.
  intros s P. unfold v2_norm. induction P as [|x P IH]; cbn [map].
  - sumA0. unfold Rdiv. rewrite Rmult_0_l. reflexivity.
  - rewrite !sumA_cons, IH. unfold Rdiv. eqR. ring.
Qed.

Lemma v2_norm_sum1 : forall P : list R, 0 < sumA (A:=RealA) P ->
  sumA (A:=RealA) (v2_norm (sumA (A:=RealA) P) P) = 1.
Proof. intros P HP. rewrite v2_norm_sum. eqR. field. change (num RealA) with R in *. lra. Qed.

(** [jensenshannon] with the guards resolved *)
Definition v2_js_body (p q : list R) : xnum (A:=RealA) :=
  match xadd (xsum (map2 (rel_entr (A:=RealA)) p (map2 v2_avg p q)))
             (xsum (map2 (rel_entr (A:=RealA)) q (map2 v2_avg p q))) with
  | Fin v => Fin (R_sqrt.sqrt (v / 2))
  | o => o
  end.

Lemma v2_js_unfold : forall P Q : list R,
  jensenshannon (A:=RealA) P Q =
  if Reqb (sumA (A:=RealA) P) 0 then NaN
  else if Reqb (sumA (A:=RealA) Q) 0 then NaN
  else v2_js_body (v2_norm (sumA (A:=RealA) P) P) (v2_norm (sumA (A:=RealA) Q) Q).
Proof. intros P Q. reflexivity. Qed.

Lemma v2_js_body_sym : forall p q : list R, v2_js_body p q = v2_js_body q p.
Proof.
  intros p q. unfold v2_js_body. rewrite (v2_avg_map2_sym q p).
  rewrite v2_xadd_comm. reflexivity.
Qed.

Lemma v2_js_body_not_nan : forall p q : list R, v2_js_body p q <> NaN.
Proof.
  intros p q. unfold v2_js_body.
  pose proof (v2_xadd_not_nan _ _ (v2_xsum_re_not_nan p (map2 v2_avg p q))
                (v2_xsum_re_not_nan q (map2 v2_avg p q))) as H.
  destruct (xadd _ _); [discriminate | discriminate | exact H].
Qed.

Lemma js_sym : forall P Q : list R, jensenshannon (A:=RealA) P Q = jensenshannon (A:=RealA) Q P.
Proof.
  intros P Q. rewrite !v2_js_unfold.
  destruct (Reqb (sumA (A:=RealA) P) 0), (Reqb (sumA (A:=RealA) Q) 0); try reflexivity.
  apply v2_js_body_sym.
Qed.

Lemma js_self : forall P : list R, nonneg P -> 0 < sumA (A:=RealA) P -> jensenshannon (A:=RealA) P P = Fin 0.
Proof.
  intros P HP Hs. rewrite v2_js_unfold.
  rewrite (proj2 (Reqb_false (sumA (A:=RealA) P) 0)) by lra.
  unfold v2_js_body.
  rewrite v2_js_self_aux by (apply v2_norm_nonneg; assumption).
  cbn [xadd add RealA]. f_equal.
  replace ((0 + 0) / 2) with 0 by field. apply sqrt_0.
Qed.

Lemma js_nan_iff : forall P Q : list R, nonneg P -> nonneg Q ->
  (jensenshannon (A:=RealA) P Q = NaN <-> sumA (A:=RealA) P = 0 \/ sumA (A:=RealA) Q = 0).
Proof.
  intros P Q HP HQ. rewrite v2_js_unfold.
  destruct (Reqb (sumA (A:=RealA) P) 0) eqn:E1.
  - apply Reqb_true in E1. split; auto.
  - destruct (Reqb (sumA (A:=RealA) Q) 0) eqn:E2.
    + apply Reqb_true in E2. split; auto.
    + apply Reqb_false in E1. apply Reqb_false in E2. split.
      * intro H. exfalso. exact (v2_js_body_not_nan _ _ H).
      * intros [H|H]; contradiction.
Qed.

(** the radicand is a genuine non-negative real, at most [ln 2] *)
Lemma v2_js_body_radicand : forall p q : list R, nonneg p -> nonneg q -> length p = length q ->
  sumA (A:=RealA) p = 1 -> sumA (A:=RealA) q = 1 ->
  exists r : R, v2_js_body p q = Fin (R_sqrt.sqrt r) /\ 0 <= r /\ r <= Rpower.ln 2.
Proof.
  intros p q Hp Hq HL Sp Sq.
  destruct (v2_js_half p q Hp Hq HL) as (a & Ha & Halo & Hahi).
  destruct (v2_js_half q p Hq Hp (eq_sym HL)) as (b & Hb & Hblo & Hbhi).
  rewrite (v2_avg_map2_sym q p) in Hb, Hblo.
  pose proof (v2_sum_avg p q HL) as Hm. rewrite Sp, Sq in *.
  unfold v2_js_body. rewrite Ha, Hb. cbn [xadd add RealA].
  exists ((a + b) / 2). split; [reflexivity|]. split; lra.
Qed.

Lemma v2_js_body_range : forall p q : list R, nonneg p -> nonneg q -> length p = length q ->
  sumA (A:=RealA) p = 1 -> sumA (A:=RealA) q = 1 ->
  exists v : R, v2_js_body p q = Fin v /\ 0 <= v /\ v <= R_sqrt.sqrt (Rpower.ln 2).
Proof.
  intros p q Hp Hq HL Sp Sq.
  destruct (v2_js_body_radicand p q Hp Hq HL Sp Sq) as (r & Hr & Hr0 & Hr1).
  exists (R_sqrt.sqrt r). split; [exact Hr|]. split.
  - apply sqrt_pos.
  - apply sqrt_le_1_alt. exact Hr1.
Qed.

Lemma js_range : forall P Q : list R, nonneg P -> nonneg Q -> length P = length Q ->
  0 < sumA (A:=RealA) P -> 0 < sumA (A:=RealA) Q ->
  exists v : R, jensenshannon (A:=RealA) P Q = Fin v /\ 0 <= v /\ v <= sqrt (ln 2).
Proof.
  intros P Q HP HQ HL SP SQ. rewrite v2_js_unfold.
  rewrite (proj2 (Reqb_false (sumA (A:=RealA) P) 0)) by lra.
  rewrite (proj2 (Reqb_false (sumA (A:=RealA) Q) 0)) by lra.
  cbn [sqrt ln RealA].
  apply v2_js_body_range.
  - apply v2_norm_nonneg; assumption.
  - apply v2_norm_nonneg; assumption.
  - rewrite !v2_norm_length. exact HL.
  - apply v2_norm_sum1; assumption.
  - apply v2_norm_sum1; assumption.
Qed.

(** * Part U — the uniform-bins path of [np.histogram] *)

(** ** structural facts *)
Lemma u_filter_length_le : forall {T} (f : T -> bool) (l : list T), (length (filter f l) <= length l)%nat.
Proof.
  intros T f l. induction l as [|a l IH]; cbn [filter length]; [lia|].
  destruct (f a); cbn [length]; lia.
Qed.

Lemma u_trunc_idx_le : forall (f : R) (nb : nat), (trunc_idx (A:=RealA) f nb <= nb)%nat.
Proof.
  intros f nb. unfold trunc_idx.
  pose proof (u_filter_length_le (fun k : nat => leb (ofN (A:=RealA) k) f) (seq 1 nb)) as H.
  rewrite seq_length in H. exact H.
Qed.

Lemma u_idx_nat : forall (nb i0 : nat) (b1 b2 : nat -> bool), (1 <= nb)%nat -> (i0 <= nb)%nat ->
  ((let i1 := if Nat.eqb i0 nb then pred i0 else i0 in
    let i2 := if b1 i1 then pred i1 else i1 in
    if andb (b2 i2) (negb (Nat.eqb i2 (pred nb))) then S i2 else i2) < nb)%nat.
Proof.
  intros nb i0 b1 b2 Hnb H0. cbv zeta.
  set (i1 := if Nat.eqb i0 nb then pred i0 else i0).
  assert (H1 : (i1 <= nb - 1)%nat).
  { subst i1. destruct (Nat.eqb_spec i0 nb); lia. }
  set (i2 := if b1 i1 then pred i1 else i1).
  assert (H2 : (i2 <= nb - 1)%nat).
  { subst i2. destruct (b1 i1); lia. }
  destruct (Nat.eqb_spec i2 (pred nb)) as [He|Hne]; cbn [negb].
  - rewrite andb_false_r. lia.
  - destruct (andb _ _); lia.
Qed.

Lemma uni_index_lt : forall (lo hi : R) (nb : nat) (edges : list R) (x : R), (1 <= nb)%nat ->
  (uni_index (A:=RealA) lo hi nb edges x < nb)%nat.
Proof.
  intros lo hi nb edges x Hnb. unfold uni_index.
  exact (u_idx_nat nb _ (fun i1 => @ltb RealA x (nth i1 edges zero))
           (fun i2 => @leb RealA (nth (S i2) edges zero) x) Hnb (u_trunc_idx_le _ nb)).
Qed.

Lemma uni_counts_length : forall (lo hi : R) (nb : nat) (xs : list R), length (uni_counts (A:=RealA) lo hi nb xs) = nb.
Proof.
  intros lo hi nb xs. unfold uni_counts.
  destruct (outer_edges lo hi) as [a b].
  rewrite map_length, seq_length. reflexivity.
Qed.

Lemma uni_counts_nonneg : forall (lo hi : R) (nb : nat) (xs : list R), Forall (fun c => (0 <= c)%Z) (uni_counts (A:=RealA) lo hi nb xs).
Proof.
  intros lo hi nb xs. unfold uni_counts.
  destruct (outer_edges lo hi) as [a b].
  apply Forall_map. apply Forall_forall. intros j _. apply Nat2Z.is_nonneg.
Qed.

(** ** counting indices *)
Lemma u_Zsum_app : forall l r : list Z, Zsum (l ++ r) = (Zsum l + Zsum r)%Z.
Proof.
  induction l as [|a l IH]; intros r; cbn [app Zsum fold_right]; [reflexivity|].
  fold (Zsum (l ++ r)). fold (Zsum l). rewrite IH. lia.
Qed.

Lemma u_count_step : forall (idx : list nat) (n : nat),
  (length (filter (fun i => Nat.ltb i n) idx) + length (filter (Nat.eqb n) idx)
   = length (filter (fun i => Nat.ltb i (S n)) idx))%nat.
Proof.
  induction idx as [|a idx IH]; intros n; cbn [filter length]; [reflexivity|].
  specialize (IH n).
  destruct (Nat.ltb_spec a n); destruct (Nat.eqb_spec n a); destruct (Nat.ltb_spec a (S n));
    cbn [length]; lia.
Qed.

Lemma u_count_lt : forall (idx : list nat) (n : nat),
  Zsum (map (fun j => Z.of_nat (length (filter (Nat.eqb j) idx))) (seq 0 n))
  = Z.of_nat (length (filter (fun i => Nat.ltb i n) idx)).
Proof.
  intros idx n. induction n as [|n IH].
  - cbn [seq map Zsum fold_right].
    assert (E : filter (fun i => Nat.ltb i 0) idx = []).
    { induction idx as [|a idx IHi]; cbn [filter]; [reflexivity|].
      destruct (Nat.ltb_spec a 0); [lia|exact IHi]. }
    rewrite E. reflexivity.
  - rewrite seq_S, map_app, u_Zsum_app, IH. cbn [Nat.add map Zsum fold_right].
    rewrite <- u_count_step. lia.
Qed.

Lemma u_filter_all : forall {T} (f : T -> bool) (l : list T), (forall x, In x l -> f x = true) -> filter f l = l.
Proof.
  intros T f l. induction l as [|a l IH]; intros H; cbn [filter]; [reflexivity|].
  rewrite (H a (or_introl eq_refl)). rewrite IH; [reflexivity|].
  intros x Hx. apply H. right. exact Hx.
Qed.

Lemma u_count_total : forall (idx : list nat) (n : nat), (forall i, In i idx -> (i < n)%nat) ->
  Zsum (map (fun j => Z.of_nat (length (filter (Nat.eqb j) idx))) (seq 0 n)) = Z.of_nat (length idx).
Proof.
  intros idx n H. rewrite u_count_lt. rewrite u_filter_all; [reflexivity|].
  intros i Hi. apply Nat.ltb_lt. apply H. exact Hi.
Qed.

Lemma u_half : half (A:=RealA) = 1 / 2.
Proof. reflexivity. Qed.

Lemma u_counts_sum_gen : forall (lo hi : R) (nb : nat) (xs : list R), (1 <= nb)%nat ->
  (forall x, In x xs -> lo <= x <= hi) ->
  Zsum (map (fun j => Z.of_nat (length (filter (Nat.eqb j)
          (map (uni_index (A:=RealA) lo hi nb (linspace (A:=RealA) lo hi (S nb)))
               (filter (fun x : R => andb (@leb RealA lo x) (@leb RealA x hi)) xs)))))
        (seq 0 nb)) = Z.of_nat (length xs).
Proof.
  intros lo hi nb xs Hnb Hin.
  rewrite u_filter_all.
  - rewrite u_count_total; [rewrite map_length; reflexivity|].
    intros i Hi. apply in_map_iff in Hi. destruct Hi as [x [<- _]].
    apply uni_index_lt. exact Hnb.
  - intros x Hx. destruct (Hin x Hx) as [H1 H2]. cbn [leb RealA].
    apply andb_true_intro. split; apply Rleb_true; assumption.
Qed.

Lemma uni_counts_sum : forall (lo0 hi0 : R) (nb : nat) (xs : list R), (1 <= nb)%nat -> lo0 <= hi0 ->
  (forall x, In x xs -> lo0 <= x <= hi0) ->
  Zsum (uni_counts (A:=RealA) lo0 hi0 nb xs) = Z.of_nat (length xs).
Proof.
  intros lo0 hi0 nb xs Hnb Hle Hin. unfold uni_counts, outer_edges.
  cbn [eqb RealA]. destruct (Reqb lo0 hi0) eqn:E.
  - apply u_counts_sum_gen; [exact Hnb|].
    intros x Hx. destruct (Hin x Hx) as [H1 H2]. rewrite u_half.
    cbn [sub add RealA]. lra.
  - apply u_counts_sum_gen; assumption.
Qed.

(** ** permutation invariance *)
Lemma u_perm_filter : forall {T} (f : T -> bool) (l l' : list T), Permutation l l' -> Permutation (filter f l) (filter f l').
Proof.
  intros T f l l' HP. induction HP as [|a l l' HP IH|a b l|l l' l'' HP1 IH1 HP2 IH2].
  - constructor.
  - cbn [filter]. destruct (f a); [constructor|]; exact IH.
  - cbn [filter]. destruct (f a); destruct (f b); try apply Permutation_refl. apply perm_swap.
  - eapply Permutation_trans; eassumption.
Qed.

Lemma uni_counts_perm : forall (lo hi : R) (nb : nat) (xs xs' : list R), Permutation xs xs' ->
  uni_counts (A:=RealA) lo hi nb xs = uni_counts (A:=RealA) lo hi nb xs'.
Proof.
  intros lo hi nb xs xs' HP. unfold uni_counts.
  destruct (outer_edges lo hi) as [a b].
  apply map_ext. intros j. f_equal.
  apply Permutation_length. apply u_perm_filter. apply Permutation_map. apply u_perm_filter. exact HP.
Qed.

(** ** the HI proportions *)
Lemma u_hi_range : forall (X Y : list R) (x : R), In x X \/ In x Y ->
  lmin (A:=RealA) [lmin (A:=RealA) X; lmin (A:=RealA) Y] <= x <= lmax (A:=RealA) [lmax (A:=RealA) X; lmax (A:=RealA) Y].
Proof.
  intros X Y x H.
  pose proof (lmin_le [lmin (A:=RealA) X; lmin (A:=RealA) Y] (lmin (A:=RealA) X) (or_introl eq_refl)) as H1.
  pose proof (lmin_le [lmin (A:=RealA) X; lmin (A:=RealA) Y] (lmin (A:=RealA) Y) (or_intror (or_introl eq_refl))) as H2.
  pose proof (lmax_ge [lmax (A:=RealA) X; lmax (A:=RealA) Y] (lmax (A:=RealA) X) (or_introl eq_refl)) as H3.
  pose proof (lmax_ge [lmax (A:=RealA) X; lmax (A:=RealA) Y] (lmax (A:=RealA) Y) (or_intror (or_introl eq_refl))) as H4.
  destruct H as [H|H].
  - pose proof (lmin_le X x H) as H5. pose proof (lmax_ge X x H) as H6.
    split; [apply Rle_trans with (lmin (A:=RealA) X) | apply Rle_trans with (lmax (A:=RealA) X)]; assumption.
  - pose proof (lmin_le Y x H) as H5. pose proof (lmax_ge Y x H) as H6.
    split; [apply Rle_trans with (lmin (A:=RealA) Y) | apply Rle_trans with (lmax (A:=RealA) Y)]; assumption.
Qed.

Lemma u_length_pos : forall {T} (l : list T), l <> [] -> (0 < length l)%nat.
Proof. intros T [|a l] H; [congruence|cbn; lia]. Qed.

Lemma hi_props_dist : forall (nb : nat) (X Y : list R), (1 <= nb)%nat -> X <> [] -> Y <> [] ->
  isdist (fst (hi_props (A:=RealA) nb X Y)) /\ isdist (snd (hi_props (A:=RealA) nb X Y)).
Proof.
  intros nb X Y Hnb HX HY. unfold hi_props. cbn [fst snd].
  assert (Hle : lmin (A:=RealA) [lmin (A:=RealA) X; lmin (A:=RealA) Y] <= lmax (A:=RealA) [lmax (A:=RealA) X; lmax (A:=RealA) Y]).
  { destruct X as [|x X]; [congruence|].
    destruct (u_hi_range (x :: X) Y x (or_introl (or_introl eq_refl))) as [H1 H2].
    eapply Rle_trans; eassumption. }
  split; apply proportions_isdist.
  - apply u_length_pos; exact HX.
  - apply uni_counts_nonneg.
  - apply uni_counts_sum; [exact Hnb|exact Hle|].
    intros x Hx. apply u_hi_range. left. exact Hx.
  - apply u_length_pos; exact HY.
  - apply uni_counts_nonneg.
  - apply uni_counts_sum; [exact Hnb|exact Hle|].
    intros x Hx. apply u_hi_range. right. exact Hx.
Qed.

Lemma hi_props_perm : forall (nb : nat) (X X' Y Y' : list R), Permutation X X' -> Permutation Y Y' ->
  hi_props (A:=RealA) nb X Y = hi_props (A:=RealA) nb X' Y'.
Proof.
  intros nb X X' Y Y' HX HY. unfold hi_props. change (num RealA) with R.
  rewrite (lmin_perm X X' HX), (lmin_perm Y Y' HY), (lmax_perm X X' HX), (lmax_perm Y Y' HY).
  rewrite (Permutation_length HX), (Permutation_length HY).
  rewrite (uni_counts_perm _ _ nb X X' HX), (uni_counts_perm _ _ nb Y Y' HY).
  reflexivity.
Qed.

Lemma hi_props_swap : forall (nb : nat) (X Y : list R), X <> [] -> Y <> [] ->
  hi_props (A:=RealA) nb Y X = (snd (hi_props (A:=RealA) nb X Y), fst (hi_props (A:=RealA) nb X Y)).
Proof.
  intros nb X Y _ _. unfold hi_props. cbn [fst snd].
  rewrite (lmin_perm [lmin (A:=RealA) Y; lmin (A:=RealA) X] [lmin (A:=RealA) X; lmin (A:=RealA) Y]) by apply perm_swap.
  rewrite (lmax_perm [lmax (A:=RealA) Y; lmax (A:=RealA) X] [lmax (A:=RealA) X; lmax (A:=RealA) Y]) by apply perm_swap.
  reflexivity.
Qed.

Lemma hi_props_self : forall (nb : nat) (X : list R), fst (hi_props (A:=RealA) nb X X) = snd (hi_props (A:=RealA) nb X X).
Proof. intros nb X. reflexivity. Qed.

(** ** truncation *)
Lemma u_trunc_S : forall (f : R) (nb : nat),
  trunc_idx (A:=RealA) f (S nb) = (trunc_idx (A:=RealA) f nb + (if Rleb (INR (S nb)) f then 1 else 0))%nat.
Proof.
  intros f nb. unfold trunc_idx. rewrite seq_S, filter_app, app_length.
  cbn [filter Nat.add]. rewrite ofN_INR. cbn [leb RealA].
  destruct (Rleb (INR (S nb)) f); reflexivity.
Qed.

Lemma trunc_idx_spec : forall (f : R) (nb : nat), 0 <= f ->
  (trunc_idx (A:=RealA) f nb <= nb)%nat /\ INR (trunc_idx (A:=RealA) f nb) <= f /\
  (trunc_idx (A:=RealA) f nb = nb \/ f < INR (trunc_idx (A:=RealA) f nb) + 1).
Proof.
  intros f nb Hf. induction nb as [|nb IH].
  - unfold trunc_idx. cbn [seq filter length INR]. split; [lia|]. split; [lra|]. left; reflexivity.
  - destruct IH as [H1 [H2 H3]]. rewrite u_trunc_S.
    set (t := trunc_idx (A:=RealA) f nb) in *.
    destruct (Rleb_spec (INR (S nb)) f) as [Hle|Hgt].
    + assert (Et : t = nb).
      { destruct H3 as [E|Hlt]; [exact E|].
        exfalso. assert (Ht : INR t + 1 <= INR (S nb)).
        { rewrite S_INR. apply le_INR in H1. lra. }
        lra. }
      rewrite Et. replace (nb + 1)%nat with (S nb) by lia.
      split; [lia|]. split; [exact Hle|]. left; reflexivity.
    + replace (t + 0)%nat with t by lia.
      split; [lia|]. split; [exact H2|]. right.
      destruct H3 as [E|Hlt]; [|exact Hlt].
      rewrite E. rewrite S_INR in Hgt. lra.
Qed.

(** ** the bin index in exact arithmetic *)
Lemma u_INR_pred : forall nb : nat, (1 <= nb)%nat -> INR (pred nb) = INR nb - 1.
Proof. intros [|n] H; [lia|]. rewrite S_INR. cbn [pred]. lra. Qed.

Lemma u_index_eval : forall (lo hi x : R) (nb : nat), (1 <= nb)%nat -> lo < hi -> lo <= x <= hi ->
  let f := (x - lo) / (hi - lo) * INR nb in
  let k := trunc_idx (A:=RealA) f nb in
  let c := (hi - lo) / INR nb in
  x = lo + f * c /\ hi = lo + INR nb * c /\ 0 < c /\ 0 <= f <= INR nb /\
  uni_index (A:=RealA) lo hi nb (linspace (A:=RealA) lo hi (S nb)) x = if Nat.eqb k nb then pred nb else k.
Proof.
  intros lo hi x nb Hnb Hlt Hx f k c.
  assert (Hn : 0 < INR nb) by (apply lt_0_INR; lia).
  assert (Hc : 0 < c) by (subst c; apply Rdiv_lt_0_compat; lra).
  assert (Exf : x = lo + f * c) by (subst f c; field; split; lra).
  assert (Ehi : hi = lo + INR nb * c) by (subst c; field; lra).
  assert (Hf0 : 0 <= f).
  { subst f. apply Rmult_le_pos; [|lra]. unfold Rdiv. apply Rmult_le_pos; [lra|].
    left. apply Rinv_0_lt_compat. lra. }
  assert (Hfn : f <= INR nb) by nra.
  split; [exact Exf|]. split; [exact Ehi|]. split; [exact Hc|]. split; [split; assumption|].
  destruct (trunc_idx_spec f nb Hf0) as [Hk1 [Hk2 Hk3]]. fold k in Hk1, Hk2, Hk3.
  assert (Hedge : forall i : nat, (i <= nb)%nat ->
            nth i (linspace (A:=RealA) lo hi (S nb)) (@zero RealA) = lo + INR i * c).
  { intros i Hi. change (@zero RealA) with 0. rewrite linspace_nth by lia. subst c. eqR. unfold Rdiv. ring. }
  unfold uni_index. rewrite ofN_INR. cbn [sub div mul ltb leb RealA].
  change (trunc_idx (A:=RealA) ((x - lo) / (hi - lo) * INR nb) nb) with k.
  destruct (Nat.eqb_spec k nb) as [Ek|Nk].
  - rewrite Ek in *. rewrite (Hedge (pred nb)) by lia.
    pose proof (u_INR_pred nb Hnb) as Hp.
    assert (Ef : f = INR nb) by lra.
    assert (F1 : Rltb x (lo + INR (pred nb) * c) = false).
    { apply Rltb_false. rewrite Hp. nra. }
    rewrite F1. rewrite Nat.eqb_refl. cbn [negb]. rewrite andb_false_r. reflexivity.
  - assert (Hklt : (k < nb)%nat) by lia.
    destruct Hk3 as [E|Hk3]; [contradiction|].
    rewrite (Hedge k) by lia.
    assert (F1 : Rltb x (lo + INR k * c) = false).
    { apply Rltb_false. nra. }
    rewrite F1. rewrite (Hedge (S k)) by lia.
    assert (F2 : Rleb (lo + INR (S k) * c) x = false).
    { apply Rleb_false. rewrite S_INR. nra. }
    rewrite F2. cbn [andb]. reflexivity.
Qed.

Lemma uni_index_spec : forall (lo hi x : R) (nb : nat), (1 <= nb)%nat -> lo < hi -> lo <= x <= hi ->
  let w := (hi - lo) / INR nb in
  let i := uni_index (A:=RealA) lo hi nb (linspace (A:=RealA) lo hi (S nb)) x in
  (i < nb)%nat /\ lo + INR i * w <= x /\ (x < lo + (INR i + 1) * w \/ (i = nb - 1)%nat /\ x = hi).
Proof.
  intros lo hi x nb Hnb Hlt Hx w i.
  split; [apply uni_index_lt; exact Hnb|].
  destruct (u_index_eval lo hi x nb Hnb Hlt Hx) as [Exf [Ehi [Hc [[Hf0 Hfn] Ev]]]].
  fold w in Exf, Ehi, Hc. fold i in Ev.
  set (f := (x - lo) / (hi - lo) * INR nb) in *.
  destruct (trunc_idx_spec f nb Hf0) as [Hk1 [Hk2 Hk3]].
  set (k := trunc_idx (A:=RealA) f nb) in *.
  destruct (Nat.eqb_spec k nb) as [Ek|Nk].
  - rewrite Ev. rewrite Ek in Hk2. assert (Ef : f = INR nb) by lra.
    rewrite (u_INR_pred nb Hnb).
    split; [nra|]. right. split; [lia|]. rewrite Exf, Ef. symmetry. exact Ehi.
  - rewrite Ev. destruct Hk3 as [E|Hk3]; [contradiction|].
    split; [nra|]. left. nra.
Qed.

Lemma bin_index_unique : forall (lo hi x : R) (nb i j : nat), (1 <= nb)%nat -> lo < hi ->
  let w := (hi - lo) / INR nb in
  (i < nb)%nat -> (j < nb)%nat ->
  lo + INR i * w <= x -> (x < lo + (INR i + 1) * w \/ (i = nb - 1)%nat /\ x = hi) ->
  lo + INR j * w <= x -> (x < lo + (INR j + 1) * w \/ (j = nb - 1)%nat /\ x = hi) ->
  i = j.
Proof.
  intros lo hi x nb i j Hnb Hlt w Hi Hj Li Ui Lj Uj.
  assert (Hn : 0 < INR nb) by (apply lt_0_INR; lia).
  assert (Hw : 0 < w) by (subst w; apply Rdiv_lt_0_compat; lra).
  assert (Key : forall a b : nat, (a < b)%nat -> (b < nb)%nat ->
            lo + INR b * w <= x -> (x < lo + (INR a + 1) * w \/ (a = nb - 1)%nat /\ x = hi) -> False).
  { intros a b Hab Hb Lb Ua. destruct Ua as [Ua|[Ea _]]; [|lia].
    assert (H1 : INR a + 1 <= INR b).
    { rewrite <- S_INR. apply le_INR. lia. }
    assert (H2 : (INR a + 1) * w <= INR b * w) by (apply Rmult_le_compat_r; lra).
    lra. }
  destruct (lt_eq_lt_dec i j) as [[Hij|E]|Hji]; [|exact E|].
  - exfalso. exact (Key i j Hij Hj Lj Ui).
  - exfalso. exact (Key j i Hji Hi Li Uj).
Qed.

(** * Part T1 — insertion sort, empirical CDF, EMD / energy distance (SciPy [_cdf_distance]) *)

(** ** insertion sort *)
Lemma t1_insert_nil : forall x : R, insert (A:=RealA) x [] = [x].
Proof. reflexivity. Qed.

Lemma t1_insert_cons : forall (x y : R) (r : list R),
  insert (A:=RealA) x (y :: r) = if Rleb x y then x :: y :: r else y :: insert (A:=RealA) x r.
Proof. reflexivity. Qed.

Lemma t1_isort_cons : forall (x : R) (l : list R),
  isort (A:=RealA) (x :: l) = insert (A:=RealA) x (isort (A:=RealA) l).
Proof. reflexivity. Qed.

Lemma t1_insert_perm : forall (x : R) (l : list R), Permutation (insert (A:=RealA) x l) (x :: l).
Proof.
  intros x l. induction l as [|y r IH].
  - rewrite t1_insert_nil. apply Permutation_refl.
  - rewrite t1_insert_cons. destruct (Rleb_spec x y) as [Hle|Hnle].
    + apply Permutation_refl.
    + apply perm_trans with (y :: x :: r); [apply perm_skip; exact IH | apply perm_swap].
Qed.

Lemma t1_insert_sorted : forall (x : R) (l : list R),
  StronglySorted Rle l -> StronglySorted Rle (insert (A:=RealA) x l).
Proof.
  intros x l H. induction H as [|y r Hs IH Hall].
  - rewrite t1_insert_nil. constructor; constructor.
  - rewrite t1_insert_cons. destruct (Rleb_spec x y) as [Hle|Hnle].
    + constructor.
      * constructor; auto.
      * constructor; auto.
        eapply Forall_impl; [|exact Hall]. intros a Ha. cbv beta in *. lra.
    + constructor; auto.
      apply Forall_forall. intros a Ha.
      apply (Permutation_in _ (t1_insert_perm x r)) in Ha.
      destruct Ha as [<-|Ha]; [lra|].
      rewrite Forall_forall in Hall. apply Hall; exact Ha.
Qed.

Lemma isort_perm : forall l : list R, Permutation (isort (A:=RealA) l) l.
Proof.
  induction l as [|x l IH].
  - apply Permutation_refl.
  - rewrite t1_isort_cons.
    apply perm_trans with (x :: isort (A:=RealA) l); [apply t1_insert_perm | apply perm_skip; exact IH].
Qed.

Lemma isort_sorted : forall l : list R, StronglySorted Rle (isort (A:=RealA) l).
Proof.
  induction l as [|x l IH].
  - constructor.
  - rewrite t1_isort_cons. apply t1_insert_sorted; exact IH.
Qed.

Lemma t1_sorted_head_le : forall (a : R) (l : list R) (b : R),
  StronglySorted Rle (a :: l) -> In b (a :: l) -> a <= b.
Proof.
  intros a l b Hs Hin. inversion Hs as [|a' l' Hs' Hall]; subst.
  destruct Hin as [<-|Hin]; [lra|].
  rewrite Forall_forall in Hall. apply Hall; exact Hin.
Qed.

Lemma t1_sorted_perm_eq : forall l l' : list R,
  StronglySorted Rle l -> StronglySorted Rle l' -> Permutation l l' -> l = l'.
Proof.
  induction l as [|a l IH]; intros l' Hs Hs' HP.
  - apply Permutation_nil in HP. subst; reflexivity.
  - destruct l' as [|b l'].
    + apply Permutation_sym, Permutation_nil in HP. discriminate.
    + assert (Hab : a = b).
      { apply Rle_antisym.
        - apply (t1_sorted_head_le a l b Hs).
          apply (Permutation_in _ (Permutation_sym HP)). left; reflexivity.
        - apply (t1_sorted_head_le b l' a Hs').
          apply (Permutation_in _ HP). left; reflexivity. }
      subst b. f_equal.
      inversion Hs; inversion Hs'; subst.
      apply IH; auto.
      eapply Permutation_cons_inv; exact HP.
Qed.

(* sorting is determined by the multiset *)
Lemma isort_unique : forall l l' : list R, Permutation l l' -> isort (A:=RealA) l = isort (A:=RealA) l'.
Proof.
  intros l l' HP. apply t1_sorted_perm_eq; try apply isort_sorted.
  apply perm_trans with l; [apply isort_perm|].
  apply perm_trans with l'; [exact HP | apply Permutation_sym, isort_perm].
Qed.

(** ** empirical CDF *)
Lemma t1_filter_perm : forall (f : R -> bool) (l l' : list R),
  Permutation l l' -> Permutation (filter f l) (filter f l').
Proof.
  intros f l l' HP. induction HP as [|x l l' HP IH|x y l|l l' l'' HP1 IH1 HP2 IH2].
  - apply Permutation_refl.
  - cbn [filter]. destruct (f x); [apply perm_skip|]; exact IH.
  - cbn [filter]. destruct (f x), (f y); try apply Permutation_refl. apply perm_swap.
  - eapply perm_trans; eassumption.
Qed.

Lemma t1_count_le_perm : forall (z : R) (xs xs' : list R),
  Permutation xs xs' -> count_le (A:=RealA) z xs = count_le (A:=RealA) z xs'.
Proof.
  intros z xs xs' HP. unfold count_le. f_equal.
  apply Permutation_length. apply t1_filter_perm. exact HP.
Qed.

Lemma ecdf_perm : forall (xs xs' : list R) (z : R), Permutation xs xs' -> ecdf (A:=RealA) xs z = ecdf (A:=RealA) xs' z.
Proof.
  intros xs xs' z HP. unfold ecdf.
  rewrite (t1_count_le_perm z xs xs' HP).
  change (num RealA) with R. rewrite (Permutation_length HP). reflexivity.
Qed.

(** ** the term list of [_cdf_distance] *)
Lemma t1_cdf_terms_nil : forall (g : R -> R) (X Y : list R),
  cdf_terms (A:=RealA) g X Y [] = [].
Proof. reflexivity. Qed.

Lemma t1_cdf_terms_single : forall (g : R -> R) (X Y : list R) (z : R),
  cdf_terms (A:=RealA) g X Y [z] = [].
Proof. reflexivity. Qed.

Lemma t1_cdf_terms_cons2 : forall (g : R -> R) (X Y : list R) (z z' : R) (r : list R),
  cdf_terms (A:=RealA) g X Y (z :: z' :: r) =
  g (ecdf (A:=RealA) X z - ecdf (A:=RealA) Y z) * (z' - z) :: cdf_terms (A:=RealA) g X Y (z' :: r).
Proof. reflexivity. Qed.

Lemma t1_absA_nonneg : forall t : R, 0 <= absA (A:=RealA) t.
Proof.
  intros t. unfold absA. cbn [ltb sub RealA]. change (@zero RealA) with 0.
  destruct (Rltb_spec t 0); lra.
Qed.

Lemma t1_sqr_nonneg : forall t : R, 0 <= sqr (A:=RealA) t.
Proof. intros t. unfold sqr. cbn [mul RealA]. nra. Qed.

Lemma t1_absA_0 : absA (A:=RealA) 0 = 0.
Proof.
  unfold absA. cbn [ltb sub RealA]. change (@zero RealA) with 0.
  destruct (Rltb_spec 0 0); lra.
Qed.

Lemma t1_sqr_0 : sqr (A:=RealA) 0 = 0.
Proof. unfold sqr. cbn [mul RealA]. lra. Qed.

Lemma t1_absA_swap : forall a b : R, absA (A:=RealA) (a - b) = absA (A:=RealA) (b - a).
Proof.
  intros a b. unfold absA. cbn [ltb sub RealA]. change (@zero RealA) with 0.
  destruct (Rltb_spec (a - b) 0); destruct (Rltb_spec (b - a) 0); lra.
Qed.

Lemma t1_sqr_swap : forall a b : R, sqr (A:=RealA) (a - b) = sqr (A:=RealA) (b - a).
Proof. intros a b. unfold sqr. cbn [mul RealA]. lra. Qed.

Lemma t1_cdf_terms_nonneg : forall (g : R -> R) (X Y all : list R),
  (forall t : R, 0 <= g t) -> StronglySorted Rle all -> nonneg (cdf_terms (A:=RealA) g X Y all).
Proof.
  intros g X Y all Hg Hs. induction Hs as [|z r Hs IH Hall].
  - rewrite t1_cdf_terms_nil. constructor.
  - destruct r as [|z' r'].
    + rewrite t1_cdf_terms_single. constructor.
    + rewrite t1_cdf_terms_cons2. constructor; [|exact IH].
      apply Rmult_le_pos; [apply Hg|].
      inversion Hall as [|u v Hzz' Hrest]; subst. lra.
Qed.

Lemma t1_cdf_terms_self : forall (g : R -> R) (X all : list R),
  g 0 = 0 -> sumA (A:=RealA) (cdf_terms (A:=RealA) g X X all) = 0.
Proof.
  intros g X all Hg. induction all as [|z r IH].
  - rewrite t1_cdf_terms_nil. sumA0. reflexivity.
  - destruct r as [|z' r'].
    + rewrite t1_cdf_terms_single. sumA0. reflexivity.
    + rewrite t1_cdf_terms_cons2. rewrite sumA_cons, IH.
      unfold Rminus at 1. rewrite Rplus_opp_r, Hg. lra.
Qed.

Lemma t1_cdf_terms_sym : forall (g : R -> R) (X Y all : list R),
  (forall a b : R, g (a - b) = g (b - a)) ->
  cdf_terms (A:=RealA) g X Y all = cdf_terms (A:=RealA) g Y X all.
Proof.
  intros g X Y all Hg. induction all as [|z r IH].
  - reflexivity.
  - destruct r as [|z' r'].
    + reflexivity.
    + rewrite !t1_cdf_terms_cons2. rewrite IH. rewrite (Hg (ecdf (A:=RealA) X z)). reflexivity.
Qed.

Lemma t1_cdf_terms_ext : forall (g : R -> R) (X X' Y Y' all : list R),
  (forall z : R, ecdf (A:=RealA) X z = ecdf (A:=RealA) X' z) ->
  (forall z : R, ecdf (A:=RealA) Y z = ecdf (A:=RealA) Y' z) ->
  cdf_terms (A:=RealA) g X Y all = cdf_terms (A:=RealA) g X' Y' all.
Proof.
  intros g X X' Y Y' all HX HY. induction all as [|z r IH].
  - reflexivity.
  - destruct r as [|z' r'].
    + reflexivity.
    + rewrite !t1_cdf_terms_cons2. rewrite IH, HX, HY. reflexivity.
Qed.

(** ** EMD (Wasserstein-1) and energy distance *)
Lemma t1_emd_unfold : forall X Y : list R,
  emd_dist (A:=RealA) X Y =
  sumA (A:=RealA) (cdf_terms (A:=RealA) (absA (A:=RealA)) X Y (isort (A:=RealA) (X ++ Y))).
Proof. reflexivity. Qed.

Lemma t1_energy_unfold : forall X Y : list R,
  energy_dist (A:=RealA) X Y =
  R_sqrt.sqrt 2 *
  R_sqrt.sqrt (sumA (A:=RealA) (cdf_terms (A:=RealA) (sqr (A:=RealA)) X Y (isort (A:=RealA) (X ++ Y)))).
Proof. reflexivity. Qed.

Lemma emd_nonneg : forall X Y : list R, 0 <= emd_dist (A:=RealA) X Y.
Proof.
  intros X Y. rewrite t1_emd_unfold. apply sumA_nonneg.
  apply t1_cdf_terms_nonneg; [apply t1_absA_nonneg | apply isort_sorted].
Qed.

Lemma energy_nonneg : forall X Y : list R, 0 <= energy_dist (A:=RealA) X Y.
Proof.
  intros X Y. rewrite t1_energy_unfold.
  apply Rmult_le_pos; apply sqrt_pos.
Qed.

Lemma emd_self : forall X : list R, emd_dist (A:=RealA) X X = 0.
Proof.
  intros X. rewrite t1_emd_unfold. apply t1_cdf_terms_self. apply t1_absA_0.
Qed.

Lemma energy_self : forall X : list R, energy_dist (A:=RealA) X X = 0.
Proof.
  intros X. rewrite t1_energy_unfold.
  rewrite (t1_cdf_terms_self (sqr (A:=RealA)) X _ t1_sqr_0).
  rewrite sqrt_0. apply Rmult_0_r.
Qed.

Lemma emd_sym : forall X Y : list R, emd_dist (A:=RealA) X Y = emd_dist (A:=RealA) Y X.
Proof.
  intros X Y. rewrite !t1_emd_unfold.
  rewrite (isort_unique (X ++ Y) (Y ++ X) (Permutation_app_comm X Y)).
  rewrite (t1_cdf_terms_sym (absA (A:=RealA)) X Y _ t1_absA_swap). reflexivity.
Qed.

Lemma energy_sym : forall X Y : list R, energy_dist (A:=RealA) X Y = energy_dist (A:=RealA) Y X.
Proof.
  intros X Y. rewrite !t1_energy_unfold.
  rewrite (isort_unique (X ++ Y) (Y ++ X) (Permutation_app_comm X Y)).
  rewrite (t1_cdf_terms_sym (sqr (A:=RealA)) X Y _ t1_sqr_swap). reflexivity.
Qed.

Lemma emd_perm : forall X X' Y Y' : list R, Permutation X X' -> Permutation Y Y' ->
  emd_dist (A:=RealA) X Y = emd_dist (A:=RealA) X' Y'.
Proof.
  intros X X' Y Y' HX HY. rewrite !t1_emd_unfold.
  rewrite (isort_unique (X ++ Y) (X' ++ Y') (Permutation_app HX HY)).
  rewrite (t1_cdf_terms_ext (absA (A:=RealA)) X X' Y Y' _
             (fun z => ecdf_perm X X' z HX) (fun z => ecdf_perm Y Y' z HY)).
  reflexivity.
Qed.

Lemma energy_perm : forall X X' Y Y' : list R, Permutation X X' -> Permutation Y Y' ->
  energy_dist (A:=RealA) X Y = energy_dist (A:=RealA) X' Y'.
Proof.
  intros X X' Y Y' HX HY. rewrite !t1_energy_unfold.
  rewrite (isort_unique (X ++ Y) (X' ++ Y') (Permutation_app HX HY)).
  rewrite (t1_cdf_terms_ext (sqr (A:=RealA)) X X' Y Y' _
             (fun z => ecdf_perm X X' z HX) (fun z => ecdf_perm Y Y' z HY)).
  reflexivity.
Qed.

(** * Part T2 — affine scaling laws of EMD / energy distance ([_cdf_distance]) *)

(** ** insertion sort: permutation and (strong) sortedness *)
Fixpoint t2_srt (l : list R) : Prop :=
  match l with
  | [] => True
  | z :: r => (forall y : R, In y r -> z <= y) /\ t2_srt r
  end.

Lemma t2_insert_perm : forall (x : R) (l : list R), Permutation (insert (A:=RealA) x l) (x :: l).
Proof.
  intros x l. induction l as [|y r IH]; cbn [insert]; [apply Permutation_refl|].
  cbn [leb RealA]. destruct (Rleb x y).
  - apply Permutation_refl.
  - eapply perm_trans; [apply perm_skip; exact IH | apply perm_swap].
Qed.

Lemma t2_isort_perm : forall l : list R, Permutation (isort (A:=RealA) l) l.
Proof.
  induction l as [|x l IH]; [apply Permutation_refl|].
  unfold isort in *. cbn [fold_right].
  eapply perm_trans; [apply t2_insert_perm|]. apply perm_skip; exact IH.
Qed.

Lemma t2_insert_srt : forall (x : R) (l : list R), t2_srt l -> t2_srt (insert (A:=RealA) x l).
Proof.
  intros x l. induction l as [|y r IH]; intros Hs; cbn [insert].
  - cbn [t2_srt]. split; [intros y []|exact I].
  - cbn [leb RealA]. destruct Hs as [Hy Hr]. destruct (Rleb_spec x y) as [Hle|Hgt].
    + cbn [t2_srt]. split; [|split; auto].
      intros w [<-|Hw]; [exact Hle|]. specialize (Hy w Hw). lra.
    + cbn [t2_srt]. split; [|apply IH; exact Hr].
      intros w Hw. apply (Permutation_in _ (t2_insert_perm x r)) in Hw.
      destruct Hw as [<-|Hw]; [lra|auto].
Qed.

Lemma t2_isort_srt : forall l : list R, t2_srt (isort (A:=RealA) l).
Proof.
  induction l as [|x l IH]; [exact I|].
  unfold isort in *. cbn [fold_right]. apply t2_insert_srt. exact IH.
Qed.

Lemma t2_cdf_terms_cons2 : forall (g : R -> R) (X Y r : list R) (z z' : R),
  cdf_terms (A:=RealA) g X Y (z :: z' :: r) =
  g (ecdf (A:=RealA) X z - ecdf (A:=RealA) Y z) * (z' - z) :: cdf_terms (A:=RealA) g X Y (z' :: r).
Proof. reflexivity. Qed.

(** ** positive scale: [f x = a x + b] commutes with everything *)
Lemma t2_insert_map_pos : forall (a b x : R) (l : list R), 0 < a ->
  insert (A:=RealA) (a * x + b) (map (fun v : R => a * v + b) l) =
  map (fun v : R => a * v + b) (insert (A:=RealA) x l).
Proof.
  intros a b x l Ha. induction l as [|y r IH]; cbn [insert map]; [reflexivity|].
  cbn [leb RealA].
  destruct (Rleb_spec x y) as [H1|H1]; destruct (Rleb_spec (a * x + b) (a * y + b)) as [H2|H2].
  - reflexivity.
  - exfalso; nra.
  - exfalso; nra.
  - cbn [map]. rewrite IH. reflexivity.
Qed.

Lemma t2_isort_map_pos : forall (a b : R) (l : list R), 0 < a ->
  isort (A:=RealA) (map (fun v : R => a * v + b) l) = map (fun v : R => a * v + b) (isort (A:=RealA) l).
Proof.
  intros a b l Ha. induction l as [|x l IH]; [reflexivity|].
  unfold isort in *. cbn [map fold_right]. rewrite IH. apply t2_insert_map_pos. exact Ha.
Qed.

Lemma t2_count_le_map_pos : forall (a b z : R) (xs : list R), 0 < a ->
  count_le (A:=RealA) (a * z + b) (map (fun v : R => a * v + b) xs) = count_le (A:=RealA) z xs.
Proof.
  intros a b z xs Ha. unfold count_le. cbn [leb RealA]. f_equal.
  induction xs as [|x r IH]; cbn [map filter]; [reflexivity|].
  destruct (Rleb_spec x z) as [H1|H1]; destruct (Rleb_spec (a * x + b) (a * z + b)) as [H2|H2];
    try (exfalso; nra); cbn [length]; rewrite IH; reflexivity.
Qed.

Lemma t2_ecdf_map_pos : forall (a b z : R) (xs : list R), 0 < a ->
  ecdf (A:=RealA) (map (fun v : R => a * v + b) xs) (a * z + b) = ecdf (A:=RealA) xs z.
Proof.
  intros a b z xs Ha. unfold ecdf. rewrite t2_count_le_map_pos by exact Ha.
  rewrite map_length. reflexivity.
Qed.

Lemma t2_cdf_terms_map_pos : forall (g : R -> R) (a b : R) (X Y all : list R), 0 < a ->
  cdf_terms (A:=RealA) g (map (fun v : R => a * v + b) X) (map (fun v : R => a * v + b) Y)
            (map (fun v : R => a * v + b) all)
  = map (fun t : R => t * a) (cdf_terms (A:=RealA) g X Y all).
Proof.
  intros g a b X Y all Ha. induction all as [|z r IH]; [reflexivity|].
  destruct r as [|z' r']; [reflexivity|].
  change (map (fun v : R => a * v + b) (z :: z' :: r'))
    with ((a * z + b) :: map (fun v : R => a * v + b) (z' :: r')).
  change (map (fun v : R => a * v + b) (z' :: r'))
    with ((a * z' + b) :: map (fun v : R => a * v + b) r') at 1.
  rewrite t2_cdf_terms_cons2.
  change ((a * z' + b) :: map (fun v : R => a * v + b) r')
    with (map (fun v : R => a * v + b) (z' :: r')).
  rewrite IH. rewrite t2_cdf_terms_cons2. cbn [map].
  rewrite !t2_ecdf_map_pos by exact Ha.
  f_equal. ring.
Qed.

Lemma emd_affine_pos : forall (a b : R) (X Y : list R), 0 < a ->
  emd_dist (A:=RealA) (map (fun x => a * x + b) X) (map (fun x => a * x + b) Y) = a * emd_dist (A:=RealA) X Y.
Proof.
  intros a b X Y Ha. unfold emd_dist.
  rewrite <- map_app, t2_isort_map_pos by exact Ha.
  rewrite t2_cdf_terms_map_pos by exact Ha.
  rewrite sumA_map_scal. apply Rmult_comm.
Qed.

(** the energy sum is non-negative on a sorted pooled list *)
Lemma t2_cdf_terms_sqr_nonneg : forall (X Y all : list R), t2_srt all ->
  nonneg (cdf_terms (A:=RealA) sqr X Y all).
Proof.
  intros X Y all. induction all as [|z r IH]; intros Hs; [constructor|].
  destruct r as [|z' r']; [constructor|].
  rewrite t2_cdf_terms_cons2. destruct Hs as [Hz Hr]. constructor; [|apply IH; exact Hr].
  unfold sqr. cbn [mul RealA].
  assert (z <= z') by (apply Hz; left; reflexivity).
  apply Rmult_le_pos; [apply Rle_0_sqr | lra].
Qed.

Lemma t2_energy_sum_nonneg : forall X Y : list R,
  0 <= sumA (A:=RealA) (cdf_terms (A:=RealA) sqr X Y (isort (A:=RealA) (X ++ Y))).
Proof. intros X Y. apply sumA_nonneg, t2_cdf_terms_sqr_nonneg, t2_isort_srt. Qed.

Lemma energy_affine_pos : forall (a b : R) (X Y : list R), 0 < a ->
  energy_dist (A:=RealA) (map (fun x => a * x + b) X) (map (fun x => a * x + b) Y) = sqrt a * energy_dist (A:=RealA) X Y.
Proof.
  intros a b X Y Ha. unfold energy_dist.
  rewrite <- map_app, t2_isort_map_pos by exact Ha.
  rewrite t2_cdf_terms_map_pos by exact Ha.
  rewrite sumA_map_scal. cbn [mul sqrt RealA].
  rewrite sqrt_mult; [change (num RealA) with R; ring | apply t2_energy_sum_nonneg | lra].
Qed.

(** ** zero scale: every pooled point equals [b] *)
Lemma t2_cdf_terms_const : forall (g : R -> R) (X Y all : list R) (c : R),
  (forall x : R, In x all -> x = c) ->
  Forall (fun t : R => t = 0) (cdf_terms (A:=RealA) g X Y all).
Proof.
  intros g X Y all c. induction all as [|z r IH]; intros H; [constructor|].
  destruct r as [|z' r']; [constructor|].
  rewrite t2_cdf_terms_cons2. constructor.
  - rewrite (H z) by (left; reflexivity). rewrite (H z') by (right; left; reflexivity). ring.
  - apply IH. intros x Hx. apply H. right; exact Hx.
Qed.

Lemma t2_sumA_zeros : forall l : list R, Forall (fun t : R => t = 0) l -> sumA (A:=RealA) l = 0.
Proof.
  induction 1 as [|x l Hx Hl IH]; [reflexivity|].
  rewrite sumA_cons, IH, Hx. lra.
Qed.

Lemma t2_zero_sum : forall (g : R -> R) (b : R) (X Y : list R),
  sumA (A:=RealA) (cdf_terms (A:=RealA) g (map (fun x : R => 0 * x + b) X) (map (fun x : R => 0 * x + b) Y)
    (isort (A:=RealA) (map (fun x : R => 0 * x + b) X ++ map (fun x : R => 0 * x + b) Y))) = 0.
Proof.
  intros g b X Y. apply t2_sumA_zeros. apply t2_cdf_terms_const with (c := b).
  intros x Hx. apply (Permutation_in _ (t2_isort_perm _)) in Hx.
  rewrite <- map_app in Hx. apply in_map_iff in Hx. destruct Hx as [w [Hw _]]. lra.
Qed.

Lemma emd_affine_zero : forall (b : R) (X Y : list R),
  emd_dist (A:=RealA) (map (fun x => 0 * x + b) X) (map (fun x => 0 * x + b) Y) = 0.
Proof. intros b X Y. unfold emd_dist. apply t2_zero_sum. Qed.

Lemma energy_affine_zero : forall (b : R) (X Y : list R),
  energy_dist (A:=RealA) (map (fun x => 0 * x + b) X) (map (fun x => 0 * x + b) Y) = 0.
Proof.
  intros b X Y. unfold energy_dist. rewrite t2_zero_sum. cbn [mul sqrt RealA].
  rewrite sqrt_0. eqR. ring.
Qed.

(** ** reflection *)
Lemma t2_srt_app : forall l1 l2 : list R, t2_srt l1 -> t2_srt l2 ->
  (forall x y : R, In x l1 -> In y l2 -> x <= y) -> t2_srt (l1 ++ l2).
Proof.
  induction l1 as [|a l1 IH]; intros l2 H1 H2 H; cbn [app]; [exact H2|].
  destruct H1 as [Ha H1]. cbn [t2_srt]. split.
  - intros y Hy. apply in_app_or in Hy.
    destruct Hy as [Hy|Hy]; [auto | apply H; [left; reflexivity | exact Hy]].
  - apply IH; auto. intros x y Hx Hy. apply H; [right; exact Hx | exact Hy].
Qed.

Lemma t2_srt_rev_opp : forall l : list R, t2_srt l -> t2_srt (rev (map Ropp l)).
Proof.
  induction l as [|z r IH]; intros Hs; [exact I|].
  cbn [map rev]. destruct Hs as [Hz Hr].
  apply t2_srt_app; [apply IH; exact Hr | cbn [t2_srt]; split; [intros y []|exact I] |].
  intros x y Hx [<-|[]]. rewrite <- in_rev in Hx. apply in_map_iff in Hx.
  destruct Hx as [w [<- Hw]]. specialize (Hz w Hw). lra.
Qed.

Lemma t2_srt_perm_eq : forall l1 l2 : list R, t2_srt l1 -> t2_srt l2 -> Permutation l1 l2 -> l1 = l2.
Proof.
  induction l1 as [|a l1 IH]; intros l2 H1 H2 HP.
  - apply Permutation_nil in HP. auto.
  - destruct l2 as [|c l2]; [apply Permutation_sym, Permutation_nil in HP; discriminate|].
    destruct H1 as [Ha H1]. destruct H2 as [Hc H2].
    assert (Hac : a = c).
    { assert (In a (c :: l2)) as Hi by (apply (Permutation_in _ HP); left; reflexivity).
      assert (In c (a :: l1)) as Hj by (apply (Permutation_in _ (Permutation_sym HP)); left; reflexivity).
      destruct Hi as [Hi|Hi]; [auto|]. destruct Hj as [Hj|Hj]; [auto|].
      specialize (Hc a Hi). specialize (Ha c Hj). lra. }
    subst c. f_equal. apply IH; auto. apply Permutation_cons_inv with a. exact HP.
Qed.

Lemma t2_isort_opp : forall l : list R,
  isort (A:=RealA) (map Ropp l) = rev (map Ropp (isort (A:=RealA) l)).
Proof.
  intros l. apply t2_srt_perm_eq.
  - apply t2_isort_srt.
  - apply t2_srt_rev_opp, t2_isort_srt.
  - eapply perm_trans; [apply t2_isort_perm|].
    eapply perm_trans; [|apply Permutation_rev].
    apply Permutation_map, Permutation_sym, t2_isort_perm.
Qed.

Lemma t2_cdf_terms_snoc : forall (g : R -> R) (X Y l : list R) (u v : R),
  cdf_terms (A:=RealA) g X Y ((l ++ [u]) ++ [v]) =
  cdf_terms (A:=RealA) g X Y (l ++ [u]) ++ [g (ecdf (A:=RealA) X u - ecdf (A:=RealA) Y u) * (v - u)].
Proof.
  intros g X Y l u v. induction l as [|w l' IH]; [reflexivity|].
  destruct l' as [|w' l'']; [reflexivity|].
  cbn [app] in *. rewrite !t2_cdf_terms_cons2. rewrite IH. reflexivity.
Qed.

Lemma t2_count_le_opp : forall (z z' : R) (X : list R), z < z' ->
  (forall x : R, In x X -> x <= z \/ z' <= x) ->
  count_le (A:=RealA) (- z') (map Ropp X) = (Z.of_nat (length X) - count_le (A:=RealA) z X)%Z.
Proof.
  intros z z' X Hlt. unfold count_le. cbn [leb RealA].
  induction X as [|x r IH]; intros H; [reflexivity|].
  cbn [map filter].
  assert (Hr : forall x0 : R, In x0 r -> x0 <= z \/ z' <= x0) by (intros x0 Hx0; apply H; right; exact Hx0).
  specialize (IH Hr). destruct (H x (or_introl eq_refl)) as [Hx|Hx].
  - destruct (Rleb_spec (- x) (- z')) as [H1|H1]; [exfalso; lra|].
    destruct (Rleb_spec x z) as [H2|H2]; [|exfalso; lra].
    cbn [length]. lia.
  - destruct (Rleb_spec (- x) (- z')) as [H1|H1]; [|exfalso; lra].
    destruct (Rleb_spec x z) as [H2|H2]; [exfalso; lra|].
    cbn [length]. lia.
Qed.

Lemma t2_ecdf_opp : forall (z z' : R) (X : list R), X <> [] -> z < z' ->
  (forall x : R, In x X -> x <= z \/ z' <= x) ->
  ecdf (A:=RealA) (map Ropp X) (- z') = 1 - ecdf (A:=RealA) X z.
Proof.
  intros z z' X Hne Hlt H. unfold ecdf.
  rewrite map_length, (t2_count_le_opp z z' X Hlt H).
  rewrite !ofN_INR. change (num RealA) with R. cbn [ofZ div RealA]. rewrite minus_IZR, <- INR_IZR_INZ.
  assert (Hp : 0 < INR (length X)).
  { destruct X as [|x r]; [congruence|]. apply lt_0_INR. cbn [length]. lia. }
  eqR. field. lra.
Qed.

Lemma t2_refl_sum : forall (g : R -> R) (X Y : list R),
  (forall t : R, g (- t) = g t) -> X <> [] -> Y <> [] ->
  forall L : list R, t2_srt L ->
  (forall x : R, In x X \/ In x Y -> match L with [] => True | z :: r => x <= z \/ In x r end) ->
  sumA (A:=RealA) (cdf_terms (A:=RealA) g (map Ropp X) (map Ropp Y) (rev (map Ropp L))) =
  sumA (A:=RealA) (cdf_terms (A:=RealA) g X Y L).
Proof.
  intros g X Y Hg HX HY. induction L as [|z r IH]; intros Hs H; [reflexivity|].
  destruct r as [|z' r']; [reflexivity|].
  change (rev (map Ropp (z :: z' :: r'))) with ((rev (map Ropp r') ++ [- z']) ++ [- z]).
  rewrite t2_cdf_terms_snoc, sumA_app, t2_cdf_terms_cons2, !sumA_cons.
  change (rev (map Ropp r') ++ [- z']) with (rev (map Ropp (z' :: r'))).
  destruct Hs as [Hz Hs']. pose proof Hs' as [Hz' _].
  assert (Hzz : z <= z') by (apply Hz; left; reflexivity).
  assert (Hsep : forall x : R, In x X \/ In x Y -> x <= z \/ z' <= x).
  { intros x Hx. destruct (H x Hx) as [Hl|[<-|Hi]]; [left; exact Hl | right; lra | right; apply Hz'; exact Hi]. }
  rewrite IH; [|exact Hs'|].
  2:{ intros x Hx. destruct (H x Hx) as [Hl|[<-|Hi]]; [left; lra | left; lra | right; exact Hi]. }
  sumA0.
  destruct (Req_dec z z') as [->|Hne].
  - eqR. change (num RealA) with R. ring.
  - assert (Hlt : z < z') by lra.
    rewrite (t2_ecdf_opp z z' X HX Hlt) by (intros x Hx; apply Hsep; left; exact Hx).
    rewrite (t2_ecdf_opp z z' Y HY Hlt) by (intros x Hx; apply Hsep; right; exact Hx).
    replace (1 - ecdf (A:=RealA) X z - (1 - ecdf (A:=RealA) Y z))
      with (- (ecdf (A:=RealA) X z - ecdf (A:=RealA) Y z)) by ring.
    rewrite Hg. eqR. change (num RealA) with R. ring.
Qed.

Lemma t2_refl_sum_isort : forall (g : R -> R) (X Y : list R),
  (forall t : R, g (- t) = g t) -> X <> [] -> Y <> [] ->
  sumA (A:=RealA) (cdf_terms (A:=RealA) g (map Ropp X) (map Ropp Y) (isort (A:=RealA) (map Ropp X ++ map Ropp Y))) =
  sumA (A:=RealA) (cdf_terms (A:=RealA) g X Y (isort (A:=RealA) (X ++ Y))).
Proof.
  intros g X Y Hg HX HY. rewrite <- map_app, t2_isort_opp.
  apply t2_refl_sum; auto; [apply t2_isort_srt|].
  intros x Hx.
  assert (Hin : In x (isort (A:=RealA) (X ++ Y))).
  { apply (Permutation_in _ (Permutation_sym (t2_isort_perm _))). apply in_or_app. exact Hx. }
  destruct (isort (A:=RealA) (X ++ Y)) as [|z r]; [exact I|].
  destruct Hin as [<-|Hin]; [left; lra | right; exact Hin].
Qed.

Lemma t2_absA_opp : forall t : R, absA (A:=RealA) (- t) = absA (A:=RealA) t.
Proof.
  intros t. unfold absA. cbn [ltb sub RealA]. change (@zero RealA) with 0.
  destruct (Rltb_spec (- t) 0); destruct (Rltb_spec t 0); lra.
Qed.

Lemma t2_sqr_opp : forall t : R, sqr (A:=RealA) (- t) = sqr (A:=RealA) t.
Proof. intros t. unfold sqr. cbn [mul RealA]. eqR. ring. Qed.

Lemma emd_neg : forall X Y : list R, X <> [] -> Y <> [] ->
  emd_dist (A:=RealA) (map Ropp X) (map Ropp Y) = emd_dist (A:=RealA) X Y.
Proof.
  intros X Y HX HY. unfold emd_dist. apply t2_refl_sum_isort; auto. exact t2_absA_opp.
Qed.

Lemma energy_neg : forall X Y : list R, X <> [] -> Y <> [] ->
  energy_dist (A:=RealA) (map Ropp X) (map Ropp Y) = energy_dist (A:=RealA) X Y.
Proof.
  intros X Y HX HY. unfold energy_dist.
  cbn [mul sqrt RealA]. f_equal. f_equal. apply (t2_refl_sum_isort sqr X Y t2_sqr_opp HX HY).
Qed.

(** ** general affine map *)
Lemma t2_map_affine_neg : forall (a b : R) (X : list R),
  map (fun x : R => a * x + b) X = map (fun x : R => (- a) * x + b) (map Ropp X).
Proof.
  intros a b X. rewrite map_map. apply map_ext. intros x. ring.
Qed.

Lemma emd_affine : forall (a b : R) (X Y : list R), X <> [] -> Y <> [] ->
  emd_dist (A:=RealA) (map (fun x => a * x + b) X) (map (fun x => a * x + b) Y) = Rabs a * emd_dist (A:=RealA) X Y.
Proof.
  intros a b X Y HX HY. destruct (Rtotal_order a 0) as [Hneg|[->|Hpos]].
  - rewrite (t2_map_affine_neg a b X), (t2_map_affine_neg a b Y).
    rewrite emd_affine_pos by lra. rewrite emd_neg by assumption.
    rewrite Rabs_left by exact Hneg. reflexivity.
  - rewrite emd_affine_zero, Rabs_R0. eqR. ring.
  - rewrite emd_affine_pos by exact Hpos. rewrite Rabs_right by lra. reflexivity.
Qed.

Lemma energy_affine : forall (a b : R) (X Y : list R), X <> [] -> Y <> [] ->
  energy_dist (A:=RealA) (map (fun x => a * x + b) X) (map (fun x => a * x + b) Y) = sqrt (Rabs a) * energy_dist (A:=RealA) X Y.
Proof.
  intros a b X Y HX HY. destruct (Rtotal_order a 0) as [Hneg|[->|Hpos]].
  - rewrite (t2_map_affine_neg a b X), (t2_map_affine_neg a b Y).
    rewrite energy_affine_pos by lra. rewrite energy_neg by assumption.
    rewrite Rabs_left by exact Hneg. reflexivity.
  - rewrite energy_affine_zero, Rabs_R0. cbn [sqrt RealA]. rewrite sqrt_0. eqR. ring.
  - rewrite energy_affine_pos by exact Hpos. rewrite Rabs_right by lra. reflexivity.
Qed.

(** * Part C — the distances on samples (composition of the parts above) *)

Lemma c_hellinger_eq : forall (nb : nat) (X Y : list R),
  hellinger_dist (A:=RealA) nb X Y = hellinger_f (A:=RealA) (fst (bins_values (A:=RealA) X Y nb)) (snd (bins_values (A:=RealA) X Y nb)).
Proof. intros. unfold hellinger_dist. destruct (bins_values X Y nb); reflexivity. Qed.
Lemma c_bhattacharyya_eq : forall (nb : nat) (X Y : list R),
  bhattacharyya_dist (A:=RealA) nb X Y = bhattacharyya_f (A:=RealA) (fst (bins_values (A:=RealA) X Y nb)) (snd (bins_values (A:=RealA) X Y nb)).
Proof. intros. unfold bhattacharyya_dist. destruct (bins_values X Y nb); reflexivity. Qed.
Lemma c_psi_eq : forall (tiny : R) (nb : nat) (X Y : list R),
  psi_dist (A:=RealA) tiny nb X Y = psi_f (A:=RealA) tiny (fst (bins_values (A:=RealA) X Y nb)) (snd (bins_values (A:=RealA) X Y nb)).
Proof. intros. unfold psi_dist. destruct (bins_values X Y nb); reflexivity. Qed.
Lemma c_hi_eq : forall (nb : nat) (X Y : list R),
  hi_dist (A:=RealA) nb X Y = hi_f (A:=RealA) (fst (hi_props (A:=RealA) nb X Y)) (snd (hi_props (A:=RealA) nb X Y)).
Proof. intros. unfold hi_dist. destruct (hi_props nb X Y); reflexivity. Qed.

(** ** Hellinger *)
Lemma hellinger_dist_range : forall (nb : nat) (X Y : list R), (1 <= nb)%nat -> X <> [] -> Y <> [] ->
  0 <= hellinger_dist (A:=RealA) nb X Y <= 1.
Proof.
  intros nb X Y Hnb HX HY. rewrite c_hellinger_eq.
  destruct (bins_values_dist nb X Y Hnb HX HY) as (Hp & Hq & _).
  split; [apply hellinger_nonneg | apply hellinger_le1; auto].
Qed.
Lemma hellinger_dist_self : forall (nb : nat) (X : list R), hellinger_dist (A:=RealA) nb X X = 0.
Proof. intros. rewrite c_hellinger_eq, bins_values_self. apply hellinger_self. Qed.
Lemma hellinger_dist_sym : forall (nb : nat) (X Y : list R),
  hellinger_dist (A:=RealA) nb X Y = hellinger_dist (A:=RealA) nb Y X.
Proof. intros. rewrite !c_hellinger_eq, (bins_values_swap nb X Y). cbn [fst snd]. apply hellinger_sym. Qed.
Lemma hellinger_dist_perm : forall (nb : nat) (X X' Y Y' : list R), Permutation X X' -> Permutation Y Y' ->
  hellinger_dist (A:=RealA) nb X Y = hellinger_dist (A:=RealA) nb X' Y'.
Proof. intros nb X X' Y Y' HX HY. rewrite !c_hellinger_eq, (bins_values_perm nb X X' Y Y' HX HY). reflexivity. Qed.

(** ** Bhattacharyya *)
Lemma bhattacharyya_dist_range : forall (nb : nat) (X Y : list R), (1 <= nb)%nat -> X <> [] -> Y <> [] ->
  0 <= bhattacharyya_dist (A:=RealA) nb X Y <= 1.
Proof.
  intros nb X Y Hnb HX HY. rewrite c_bhattacharyya_eq.
  destruct (bins_values_dist nb X Y Hnb HX HY) as (Hp & Hq & _).
  split; [apply bhattacharyya_nonneg; auto | apply bhattacharyya_le1; [apply Hp | apply Hq]].
Qed.
Lemma bhattacharyya_dist_self : forall (nb : nat) (X : list R), (1 <= nb)%nat -> X <> [] ->
  bhattacharyya_dist (A:=RealA) nb X X = 0.
Proof.
  intros nb X Hnb HX. rewrite c_bhattacharyya_eq, bins_values_self. apply bhattacharyya_self.
  apply (bins_values_dist nb X X Hnb HX HX).
Qed.
Lemma bhattacharyya_dist_sym : forall (nb : nat) (X Y : list R),
  bhattacharyya_dist (A:=RealA) nb X Y = bhattacharyya_dist (A:=RealA) nb Y X.
Proof. intros. rewrite !c_bhattacharyya_eq, (bins_values_swap nb X Y). cbn [fst snd]. apply bhattacharyya_sym. Qed.
Lemma bhattacharyya_dist_perm : forall (nb : nat) (X X' Y Y' : list R), Permutation X X' -> Permutation Y Y' ->
  bhattacharyya_dist (A:=RealA) nb X Y = bhattacharyya_dist (A:=RealA) nb X' Y'.
Proof. intros nb X X' Y Y' HX HY. rewrite !c_bhattacharyya_eq, (bins_values_perm nb X X' Y Y' HX HY). reflexivity. Qed.

(** ** PSI *)
Lemma psi_dist_nonneg : forall (tiny : R) (nb : nat) (X Y : list R), 0 < tiny -> (1 <= nb)%nat -> X <> [] -> Y <> [] ->
  0 <= psi_dist (A:=RealA) tiny nb X Y.
Proof.
  intros tiny nb X Y Ht Hnb HX HY. rewrite c_psi_eq.
  destruct (bins_values_dist nb X Y Hnb HX HY) as (Hp & Hq & _).
  apply psi_nonneg; [auto | apply Hp | apply Hq].
Qed.
Lemma psi_dist_self : forall (tiny : R) (nb : nat) (X : list R), psi_dist (A:=RealA) tiny nb X X = 0.
Proof. intros. rewrite c_psi_eq, bins_values_self. apply psi_self. Qed.
Lemma psi_dist_sym : forall (tiny : R) (nb : nat) (X Y : list R), 0 < tiny -> (1 <= nb)%nat -> X <> [] -> Y <> [] ->
  psi_dist (A:=RealA) tiny nb X Y = psi_dist (A:=RealA) tiny nb Y X.
Proof.
  intros tiny nb X Y Ht Hnb HX HY. rewrite !c_psi_eq, (bins_values_swap nb X Y). cbn [fst snd].
  destruct (bins_values_dist nb X Y Hnb HX HY) as (Hp & Hq & _).
  apply psi_sym; [auto | apply Hp | apply Hq].
Qed.
Lemma psi_dist_perm : forall (tiny : R) (nb : nat) (X X' Y Y' : list R), Permutation X X' -> Permutation Y Y' ->
  psi_dist (A:=RealA) tiny nb X Y = psi_dist (A:=RealA) tiny nb X' Y'.
Proof. intros tiny nb X X' Y Y' HX HY. rewrite !c_psi_eq, (bins_values_perm nb X X' Y Y' HX HY). reflexivity. Qed.

(** ** histogram intersection (normalised complement) *)
Lemma hi_dist_range : forall (nb : nat) (X Y : list R), (1 <= nb)%nat -> X <> [] -> Y <> [] ->
  0 <= hi_dist (A:=RealA) nb X Y <= 1.
Proof.
  intros nb X Y Hnb HX HY. rewrite c_hi_eq.
  destruct (hi_props_dist nb X Y Hnb HX HY) as (Hp & Hq).
  split; [apply hi_nonneg; auto | apply hi_le1; [apply Hp | apply Hq]].
Qed.
Lemma hi_dist_self : forall (nb : nat) (X : list R), (1 <= nb)%nat -> X <> [] -> hi_dist (A:=RealA) nb X X = 0.
Proof.
  intros nb X Hnb HX. rewrite c_hi_eq, hi_props_self. apply hi_self.
  apply (hi_props_dist nb X X Hnb HX HX).
Qed.
Lemma hi_dist_sym : forall (nb : nat) (X Y : list R), X <> [] -> Y <> [] ->
  hi_dist (A:=RealA) nb X Y = hi_dist (A:=RealA) nb Y X.
Proof. intros nb X Y HX HY. rewrite !c_hi_eq, (hi_props_swap nb X Y HX HY). cbn [fst snd]. apply hi_sym. Qed.
Lemma hi_dist_perm : forall (nb : nat) (X X' Y Y' : list R), Permutation X X' -> Permutation Y Y' ->
  hi_dist (A:=RealA) nb X Y = hi_dist (A:=RealA) nb X' Y'.
Proof. intros nb X X' Y Y' HX HY. rewrite !c_hi_eq, (hi_props_perm nb X X' Y Y' HX HY). reflexivity. Qed.

(** ** JS / KL BEFORE the repair 5e463cd (points spanning the pooled sample range): [js_dist_pre], [kl_dist_pre] *)
Lemma pooled_points_perm : forall (nb : nat) (X X' Y Y' : list R), Permutation X X' -> Permutation Y Y' ->
  pooled_points (A:=RealA) X Y nb = pooled_points (A:=RealA) X' Y' nb.
Proof.
  intros nb X X' Y Y' HX HY. unfold pooled_points.
  assert (HP : Permutation (X ++ Y) (X' ++ Y')) by (apply Permutation_app; auto).
  change (num RealA) with R in *.
  rewrite (lmin_perm _ _ HP), (lmax_perm _ _ HP). reflexivity.
Qed.
Lemma pooled_points_swap : forall (nb : nat) (X Y : list R),
  pooled_points (A:=RealA) Y X nb = pooled_points (A:=RealA) X Y nb.
Proof.
  intros nb X Y. unfold pooled_points. change (num RealA) with R in *.
  rewrite (lmin_perm _ _ (Permutation_app_comm Y X)), (lmax_perm _ _ (Permutation_app_comm Y X)). reflexivity.
Qed.

Lemma c_diffF_length : forall (F : R -> R) (pts : list R), length (diffF (A:=RealA) F pts) = pred (length pts).
Proof.
  intros F pts. induction pts as [|a r IH]; [reflexivity|]. cbn [diffF]. destruct r as [|b r']; [reflexivity|].
  cbn [length]. rewrite IH. reflexivity.
Qed.
Lemma masses_length : forall (c : list Z) (e pts : list R), length (masses (A:=RealA) c e pts) = pred (length pts).
Proof. intros. unfold masses. apply c_diffF_length. Qed.

Lemma js_pre_sym : forall (nb : nat) (hX hY : list Z * list R) (X Y : list R),
  js_dist_pre (A:=RealA) nb hX hY X Y = js_dist_pre (A:=RealA) nb hY hX Y X.
Proof. intros. unfold js_dist_pre. rewrite (pooled_points_swap nb X Y). apply js_sym. Qed.
Lemma js_pre_perm : forall (nb : nat) (hX hY : list Z * list R) (X X' Y Y' : list R), Permutation X X' -> Permutation Y Y' ->
  js_dist_pre (A:=RealA) nb hX hY X Y = js_dist_pre (A:=RealA) nb hX hY X' Y'.
Proof. intros nb hX hY X X' Y Y' HX HY. unfold js_dist_pre. rewrite (pooled_points_perm nb X X' Y Y' HX HY). reflexivity. Qed.
Lemma kl_pre_perm : forall (nb : nat) (hX hY : list Z * list R) (X X' Y Y' : list R), Permutation X X' -> Permutation Y Y' ->
  kl_dist_pre (A:=RealA) nb hX hY X Y = kl_dist_pre (A:=RealA) nb hX hY X' Y'.
Proof. intros nb hX hY X X' Y Y' HX HY. unfold kl_dist_pre. rewrite (pooled_points_perm nb X X' Y Y' HX HY). reflexivity. Qed.

(** range, given that the discretised masses of the two oracle histograms are non-negative
    with a positive total *)
Lemma js_pre_range : forall (nb : nat) (hX hY : list Z * list R) (X Y : list R),
  let P := masses (A:=RealA) (fst hX) (snd hX) (pooled_points (A:=RealA) X Y nb) in
  let Q := masses (A:=RealA) (fst hY) (snd hY) (pooled_points (A:=RealA) X Y nb) in
  nonneg P -> nonneg Q -> 0 < sumA (A:=RealA) P -> 0 < sumA (A:=RealA) Q ->
  exists v : R, js_dist_pre (A:=RealA) nb hX hY X Y = Fin v /\ 0 <= v /\ v <= sqrt (ln 2).
Proof.
  intros nb hX hY X Y P Q HP HQ HsP HsQ. unfold js_dist_pre. apply js_range; auto.
  unfold P, Q. rewrite !masses_length. reflexivity.
Qed.
Lemma js_pre_self : forall (nb : nat) (h : list Z * list R) (X : list R),
  let P := masses (A:=RealA) (fst h) (snd h) (pooled_points (A:=RealA) X X nb) in
  nonneg P -> 0 < sumA (A:=RealA) P -> js_dist_pre (A:=RealA) nb h h X X = Fin 0.
Proof. intros nb h X P HP Hs. unfold js_dist_pre. apply js_self; auto. Qed.
Lemma kl_pre_self : forall (nb : nat) (h : list Z * list R) (X : list R),
  nonneg (masses (A:=RealA) (fst h) (snd h) (pooled_points (A:=RealA) X X nb)) -> kl_dist_pre (A:=RealA) nb h h X X = Fin 0.
Proof. intros nb h X HP. unfold kl_dist_pre. apply kl_self; auto. Qed.
(** KL(test || reference) >= 0 (or +inf) PROVIDED the test masses total at least the reference
    masses — which fails when the test sample is constant (its histogram [c-1/2, c+1/2] spills
    outside the pooled range) *)
Lemma kl_pre_nonneg : forall (nb : nat) (hX hY : list Z * list R) (X Y : list R),
  let P := masses (A:=RealA) (fst hX) (snd hX) (pooled_points (A:=RealA) X Y nb) in
  let Q := masses (A:=RealA) (fst hY) (snd hY) (pooled_points (A:=RealA) X Y nb) in
  nonneg P -> nonneg Q -> sumA (A:=RealA) P <= sumA (A:=RealA) Q ->
  kl_dist_pre (A:=RealA) nb hX hY X Y = PInf \/ exists v : R, kl_dist_pre (A:=RealA) nb hX hY X Y = Fin v /\ 0 <= v.
Proof.
  intros nb hX hY X Y P Q HP HQ Hs. unfold kl_dist_pre. apply kl_nonneg; auto.
  unfold P, Q. rewrite !masses_length. reflexivity.
Qed.
Lemma kl_pre_lower : forall (nb : nat) (hX hY : list Z * list R) (X Y : list R) (v : R),
  let P := masses (A:=RealA) (fst hX) (snd hX) (pooled_points (A:=RealA) X Y nb) in
  let Q := masses (A:=RealA) (fst hY) (snd hY) (pooled_points (A:=RealA) X Y nb) in
  nonneg P -> nonneg Q -> kl_dist_pre (A:=RealA) nb hX hY X Y = Fin v -> sumA (A:=RealA) Q - sumA (A:=RealA) P <= v.
Proof.
  intros nb hX hY X Y v P Q HP HQ Hv. unfold kl_dist_pre in Hv. apply (kl_lower P Q); auto.
  unfold P, Q. rewrite !masses_length. reflexivity.
Qed.

(** ** F29: both samples constant and equal => every discretised mass is 0 => JS = 0/0 = nan,
       whatever the oracle histograms are *)
Lemma c_lmin_const : forall (l : list R) (c : R), l <> [] -> (forall x, In x l -> x = c) -> lmin (A:=RealA) l = c.
Proof. intros l c Hne H. apply H. apply lmin_in; auto. Qed.
Lemma c_lmax_const : forall (l : list R) (c : R), l <> [] -> (forall x, In x l -> x = c) -> lmax (A:=RealA) l = c.
Proof. intros l c Hne H. apply H. apply lmax_in; auto. Qed.

Lemma c_linspace_const : forall (c : R) (n : nat) (x : R), In x (linspace (A:=RealA) c c n) -> x = c.
Proof.
  intros c n x Hin. destruct n as [|[|n]]; cbn [linspace] in Hin.
  - contradiction.
  - destruct Hin as [<-|[]]. cbn [add sub mul RealA]. change (@zero RealA) with 0. eqR. ring.
  - apply in_app_or in Hin. destruct Hin as [Hin|[<-|[]]]; [|reflexivity].
    apply in_map_iff in Hin. destruct Hin as (i & <- & _).
    cbn [add sub mul div eqb RealA]. destruct (Reqb _ _); eqR; unfold Rdiv; ring.
Qed.

Lemma c_diffF_const : forall (F : R -> R) (pts : list R) (c : R), (forall x, In x pts -> x = c) ->
  forall m, In m (diffF (A:=RealA) F pts) -> m = 0.
Proof.
  intros F pts c. induction pts as [|a r IH]; intros H m Hm; [contradiction|].
  cbn [diffF] in Hm. destruct r as [|b r']; [contradiction|].
  destruct Hm as [<-|Hm].
  - rewrite (H a), (H b) by (cbn; auto). cbn [sub RealA]. eqR. ring.
  - apply IH; auto. intros x Hx. apply H. right; auto.
Qed.

Lemma c_sumA_zero : forall l : list R, (forall m, In m l -> m = 0) -> sumA (A:=RealA) l = 0 /\ nonneg l.
Proof.
  induction l as [|x l IH]; intros H.
  - split; [reflexivity | constructor].
  - destruct IH as (Hs & Hn); [intros m Hm; apply H; right; auto|].
    rewrite sumA_cons, Hs, (H x) by (left; auto). split; [lra|].
    constructor; [lra | exact Hn].
Qed.

Lemma js_pre_const_nan : forall (nb : nat) (hX hY : list Z * list R) (X Y : list R) (c : R),
  X <> [] -> Y <> [] -> (forall x, In x X -> x = c) -> (forall y, In y Y -> y = c) ->
  js_dist_pre (A:=RealA) nb hX hY X Y = NaN.
Proof.
  intros nb hX hY X Y c HX HY HcX HcY. unfold js_dist_pre.
  assert (Hpool : X ++ Y <> []) by (destruct X; [congruence | discriminate]).
  assert (Hc : forall x, In x (X ++ Y) -> x = c) by (intros x Hx; apply in_app_or in Hx; destruct Hx; auto).
  assert (Hpts : forall x, In x (pooled_points (A:=RealA) X Y nb) -> x = c).
  { unfold pooled_points. change (num RealA) with R in *.
    rewrite (c_lmin_const _ c Hpool Hc), (c_lmax_const _ c Hpool Hc). apply c_linspace_const. }
  set (P := masses (fst hX) (snd hX) (pooled_points X Y nb)).
  set (Q := masses (fst hY) (snd hY) (pooled_points X Y nb)).
  destruct (c_sumA_zero P) as (HsP & HnP); [unfold P, masses; apply (c_diffF_const _ _ c Hpts)|].
  destruct (c_sumA_zero Q) as (HsQ & HnQ); [unfold Q, masses; apply (c_diffF_const _ _ c Hpts)|].
  apply js_nan_iff; auto.
Qed.

(** ** KL(test || reference) can be NEGATIVE in the model (and in the code): a constant test
       sample has the histogram [c - 1/2, c + 1/2], only part of whose mass lies in the pooled range *)
Lemma k_linspace_2 : forall a b : R, linspace (A:=RealA) a b 2 = [a; b].
Proof.
  intros a b. cbn [linspace seq map app]. f_equal.
  cbn [add sub mul div eqb RealA]. unfold ofN. cbn [Z.of_nat ofZ RealA].
  destruct (Reqb _ _); eqR; unfold Rdiv; ring.
Qed.

Lemma rvh_cdf_below : forall (edges t : list R) (x : R), x <= hd 0 edges -> rvh_cdf (A:=RealA) edges t x = 0.
Proof.
  intros edges t x H. unfold rvh_cdf. cbn [leb RealA]. change (@zero RealA) with 0. change (num RealA) with R.
  destruct (Rleb_spec x (hd 0 edges)); [reflexivity | lra].
Qed.
Lemma rvh_cdf_above : forall (edges t : list R) (x : R), hd 0 edges < x -> last edges 0 <= x -> rvh_cdf (A:=RealA) edges t x = 1.
Proof.
  intros edges t x H1 H2. unfold rvh_cdf. cbn [leb RealA]. change (@zero RealA) with 0. change (num RealA) with R.
  destruct (Rleb_spec x (hd 0 edges)); [lra|].
  destruct (Rleb_spec (last edges 0) x); [reflexivity | lra].
Qed.

Lemma k_cdf_const_sample : rvh_cdf (A:=RealA) [-1/2; 1/2] (rvh_cdf_table (A:=RealA) [1%Z] [-1/2; 1/2]) 0 = 1/2.
Proof.
  unfold rvh_cdf, rvh_cdf_table. cbn [diffA map2 map hd last filter length pred nth cumsumA].
  cbn [leb eqb add sub mul div ofZ RealA]. change (@zero RealA) with 0.
  destruct (Rleb_spec 0 (-1/2)); [lra|].
  destruct (Rleb_spec (1/2) 0); [lra|].
  destruct (Rleb_spec (-1/2) 0); [|lra]. cbn [length pred nth].
  destruct (Reqb (-1/2) 0) eqn:E; [apply Reqb_true in E; lra|].
  unfold sumA. cbn [fold_left add RealA]. change (@zero RealA) with 0. eqR. field.
Qed.

Lemma kl_pre_negative_witness :
  let X := [0; 1/2] in let hX := ([1%Z; 1%Z], [0; 1/4; 1/2]) in
  let Y := [0] in let hY := ([1%Z], [-1/2; 1/2]) in
  exists v : R, kl_dist_pre (A:=RealA) 2 hX hY X Y = Fin v /\ v < 0.
Proof.
  intros X hX Y hY. exists ((1 - 1/2) * ln ((1 - 1/2) / (1 - 0))). split.
  - unfold kl_dist_pre, pooled_points.
    assert (Hmin : lmin (A:=RealA) (X ++ Y) = 0).
    { apply Rle_antisym; [apply lmin_le; cbn; auto|].
      destruct (lmin_in (X ++ Y) ltac:(discriminate)) as [H|[H|[H|[]]]]; rewrite <- H; lra. }
    assert (Hmax : lmax (A:=RealA) (X ++ Y) = 1/2).
    { apply Rle_antisym; [|apply lmax_ge; cbn; auto].
      destruct (lmax_in (X ++ Y) ltac:(discriminate)) as [H|[H|[H|[]]]]; rewrite <- H; lra. }
    change (num RealA) with R in *. rewrite Hmin, Hmax, k_linspace_2.
    unfold masses. cbn [diffF fst snd hX hY].
    rewrite (rvh_cdf_below [0; 1/4; 1/2] _ 0) by (cbn; lra).
    rewrite (rvh_cdf_above [0; 1/4; 1/2] _ (1/2)) by (cbn; lra).
    rewrite (rvh_cdf_above [-1/2; 1/2] _ (1/2)) by (cbn; lra).
    rewrite k_cdf_const_sample.
    unfold kl_f. cbn [map2]. unfold xsum. cbn [fold_left]. unfold rel_entr.
    cbn [ltb leb eqb add sub mul div ln RealA]. change (@zero RealA) with 0.
    destruct (Rltb_spec 0 (1 - 1/2)); [|lra].
    destruct (Rltb_spec 0 (1 - 0)); [|lra]. cbn [andb xadd]. f_equal. cbn [add RealA]. eqR. ring.
  - replace ((1 - 1/2) / (1 - 0)) with (/ 2) by field.
    change (@ln RealA) with Rpower.ln. rewrite ln_Rinv by lra.
    assert (0 < Rpower.ln 2) by (rewrite <- ln_1; apply ln_increasing; lra). lra.
Qed.

(** * Part M — [rv_histogram]: the CDF table, range and monotonicity of the CDF,
      non-negativity of the discretised masses *)

(** contract of the oracle np.histogram(sample, bins="auto") for a non-empty sample *)
Definition valid_hist (h : list Z * list R) : Prop :=
  length (snd h) = S (length (fst h)) /\ fst h <> [] /\
  (forall i : nat, (S i < length (snd h))%nat -> nth i (snd h) 0 < nth (S i) (snd h) 0) /\
  Forall (fun c => (0 <= c)%Z) (fst h) /\ (0 < Zsum (fst h))%Z.

(** ** strictly increasing lists, pairwise form *)
Definition m_inc (l : list R) : Prop :=
  forall i j : nat, (i < j)%nat -> (j < length l)%nat -> nth i l 0 < nth j l 0.

Lemma m_inc_of_nth : forall l : list R,
  (forall i : nat, (S i < length l)%nat -> nth i l 0 < nth (S i) l 0) -> m_inc l.
Proof.
  intros l H i j. revert i. induction j as [|j IH]; intros i Hij Hj; [lia|].
  destruct (Nat.eq_dec i j) as [->|Hne].
  - apply H; lia.
  - apply Rlt_trans with (nth j l 0); [apply IH; lia | apply H; lia].
Qed.

Lemma m_inc_tail : forall (a : R) (r : list R), m_inc (a :: r) -> m_inc r.
Proof. intros a r H i j Hij Hj. apply (H (S i) (S j)); cbn [length]; lia. Qed.

Lemma m_inc_head : forall (a : R) (r : list R) (v : R), m_inc (a :: r) -> In v r -> a < v.
Proof.
  intros a r v H Hin. destruct (In_nth r v 0 Hin) as [i [Hi Hv]]. rewrite <- Hv.
  apply (H 0%nat (S i)); cbn [length]; lia.
Qed.

Lemma m_inc_le : forall (l : list R) (i j : nat), m_inc l -> (i <= j)%nat -> (j < length l)%nat ->
  nth i l 0 <= nth j l 0.
Proof.
  intros l i j H Hij Hj. destruct (Nat.eq_dec i j) as [->|Hne]; [lra|].
  left. apply H; lia.
Qed.

(** indices are ordered like the values *)
Lemma m_inc_idx : forall (l : list R) (i j : nat), m_inc l -> (i < length l)%nat -> (j < length l)%nat ->
  nth i l 0 < nth j l 0 -> (i < j)%nat.
Proof.
  intros l i j H Hi Hj Hlt. destruct (Nat.lt_ge_cases i j) as [Hc|Hc]; [exact Hc|].
  pose proof (m_inc_le l j i H Hc Hi). lra.
Qed.

Lemma m_last_nth : forall l : list R, last l 0 = nth (pred (length l)) l 0.
Proof.
  induction l as [|a r IH]; [reflexivity|].
  destruct r as [|b r]; [reflexivity|].
  change (last (a :: b :: r) 0) with (last (b :: r) 0). rewrite IH. reflexivity.
Qed.

Lemma m_hd_nth : forall l : list R, hd 0 l = nth 0 l 0.
Proof. intros [|a r]; reflexivity. Qed.

(** ** the index chosen by [np.interp] *)
Lemma m_count_spec : forall (e : list R) (x : R), m_inc e ->
  (forall i : nat, (i < length (filter (fun v : R => Rleb v x) e))%nat -> nth i e 0 <= x) /\
  (forall i : nat, (length (filter (fun v : R => Rleb v x) e) <= i)%nat -> (i < length e)%nat -> x < nth i e 0).
Proof.
  induction e as [|a r IH]; intros x He.
  - split; intros i Hi; cbn in *; lia.
  - cbn [filter]. destruct (Rleb_spec a x) as [Hax|Hax].
    + destruct (IH x (m_inc_tail _ _ He)) as [IH1 IH2]. split.
      * intros [|i] Hi; cbn [nth]; [lra|]. apply IH1. cbn [length] in Hi. lia.
      * intros [|i] Hk Hi; cbn [length] in *; [lia|]. cbn [nth]. apply IH2; lia.
    + assert (Hnone : filter (fun v : R => Rleb v x) r = []).
      { apply e_filter_none. intros v Hv. apply Rleb_false.
        pose proof (m_inc_head _ _ _ He Hv). lra. }
      rewrite Hnone. split.
      * intros i Hi. cbn in Hi. lia.
      * intros [|i] _ Hi; cbn [nth]; [lra|]. cbn [length] in Hi.
        assert (a < nth i r 0) by (apply (He 0%nat (S i)); cbn [length]; lia). lra.
Qed.

Lemma m_index : forall (e : list R) (x : R), m_inc e -> hd 0 e < x -> x < last e 0 ->
  (S (pred (length (filter (fun v : R => Rleb v x) e))) < length e)%nat /\
  nth (pred (length (filter (fun v : R => Rleb v x) e))) e 0 <= x /\
  x < nth (S (pred (length (filter (fun v : R => Rleb v x) e)))) e 0.
Proof.
  intros e x He Hlo Hhi.
  destruct (m_count_spec e x He) as [H1 H2].
  pose proof (u_filter_length_le (fun v : R => Rleb v x) e) as Hle.
  rewrite m_hd_nth in Hlo. rewrite m_last_nth in Hhi.
  set (k := length (filter (fun v : R => Rleb v x) e)) in *.
  assert (Hlen : (0 < length e)%nat).
  { destruct e; [cbn in *; lra | cbn; lia]. }
  assert (Hk0 : (0 < k)%nat).
  { destruct (Nat.eq_dec k 0) as [E|]; [|lia].
    pose proof (H2 0%nat ltac:(lia) Hlen). lra. }
  assert (Hk1 : (k < length e)%nat).
  { destruct (Nat.eq_dec k (length e)) as [E|]; [|lia].
    pose proof (H1 (pred (length e)) ltac:(lia)). lra. }
  replace (S (pred k)) with k by lia.
  split; [exact Hk1|]. split; [apply H1; lia | apply H2; lia].
Qed.

(** ** the CDF table *)
Lemma m_diffA_cons2 : forall (a b : R) (r : list R),
  diffA (A:=RealA) (a :: b :: r) = (b - a) :: diffA (A:=RealA) (b :: r).
Proof. reflexivity. Qed.

Lemma m_diffA_length : forall l : list R, length (diffA (A:=RealA) l) = pred (length l).
Proof.
  induction l as [|a r IH]; [reflexivity|].
  destruct r as [|b r]; [reflexivity|].
  rewrite m_diffA_cons2. cbn [length pred] in *. rewrite IH. reflexivity.
Qed.

Lemma m_diffA_pos : forall l : list R, m_inc l -> Forall (fun v : R => 0 < v) (diffA (A:=RealA) l).
Proof.
  induction l as [|a r IH]; intros Hl; [constructor|].
  destruct r as [|b r]; [constructor|].
  rewrite m_diffA_cons2. constructor.
  - pose proof (Hl 0%nat 1%nat ltac:(lia) ltac:(cbn [length]; lia)) as H. cbn [nth] in H. lra.
  - apply IH. eapply m_inc_tail; eauto.
Qed.

(** [hpdf * widths] gives back the counts *)
Lemma m_pdf0_mul : forall (c : list Z) (w : list R), Forall (fun v : R => 0 < v) w ->
  map2 Rmult (map2 (fun (c0 : Z) (wi : R) => IZR c0 / wi) c w) w = map2 (fun (c0 : Z) (_ : R) => IZR c0) c w.
Proof.
  induction c as [|z c IH]; intros w Hw; [reflexivity|].
  destruct w as [|v w]; [reflexivity|]. inversion Hw as [|? ? Hv Hw']; subst.
  cbn [map2]. rewrite IH by assumption. f_equal. field. lra.
Qed.

Lemma m_pdf_mul : forall (tot : R) (c : list Z) (w : list R), tot <> 0 -> Forall (fun v : R => 0 < v) w ->
  map2 Rmult (map (fun v : R => v / tot) (map2 (fun (c0 : Z) (wi : R) => IZR c0 / wi) c w)) w =
  map2 (fun (c0 : Z) (_ : R) => IZR c0 / tot) c w.
Proof.
  intros tot. induction c as [|z c IH]; intros w Ht Hw; [reflexivity|].
  destruct w as [|v w]; [reflexivity|]. inversion Hw as [|? ? Hv Hw']; subst.
  cbn [map2 map]. rewrite IH by assumption. f_equal. field. split; lra.
Qed.

Lemma m_map2_fst : forall (f : Z -> R) (c : list Z) (w : list R), length c = length w ->
  map2 (fun (c0 : Z) (_ : R) => f c0) c w = map f c.
Proof.
  intros f. induction c as [|z c IH]; intros [|v w] HL; cbn [length] in HL; try discriminate; [reflexivity|].
  cbn [map2 map]. rewrite IH by lia. reflexivity.
Qed.

Lemma m_sum_IZR : forall c : list Z, sumA (A:=RealA) (map IZR c) = IZR (Zsum c).
Proof.
  induction c as [|z c IH]; [reflexivity|].
  cbn [map Zsum fold_right]. rewrite sumA_cons, IH, plus_IZR. reflexivity.
Qed.

Lemma m_sum_IZR_div : forall (tot : R) (c : list Z),
  sumA (A:=RealA) (map (fun z : Z => IZR z / tot) c) = IZR (Zsum c) / tot.
Proof.
  intros tot. induction c as [|z c IH].
  - cbn [map Zsum fold_right]. sumA0. unfold Rdiv. rewrite Rmult_0_l. reflexivity.
  - cbn [map Zsum fold_right]. rewrite sumA_cons, IH, plus_IZR. fold (Zsum c). eqR. unfold Rdiv. ring.
Qed.

Lemma m_cumsum_head : forall l : list R,
  match l with [] => [] | x :: r => x :: cumsumA (A:=RealA) x r end = cumsumA (A:=RealA) 0 l.
Proof.
  intros [|x r]; [reflexivity|]. cbn [cumsumA]. cbn [add RealA]. rewrite Rplus_0_l. reflexivity.
Qed.

(** the increments of the table: [counts / total] *)
Definition m_incs (c : list Z) : list R := map (fun z : Z => IZR z / IZR (Zsum c)) c.

Lemma m_table_eq : forall (c : list Z) (e : list R), length e = S (length c) -> m_inc e -> (0 < Zsum c)%Z ->
  rvh_cdf_table (A:=RealA) c e = 0 :: cumsumA (A:=RealA) 0 (m_incs c).
Proof.
  intros c e HL He Hs.
  assert (Hw := m_diffA_pos e He).
  assert (HLw : length c = length (diffA (A:=RealA) e)) by (rewrite m_diffA_length; lia).
  assert (Htot : 0 < IZR (Zsum c)) by (apply IZR_lt; exact Hs).
  unfold rvh_cdf_table. cbv zeta. cbn [add sub mul div ofZ RealA num].
  change (@zero RealA) with 0.
  rewrite (m_pdf0_mul c _ Hw), (m_map2_fst IZR c _ HLw), m_sum_IZR.
  assert (Hne0 : IZR (Zsum c) <> 0) by lra.
  rewrite (m_pdf_mul (IZR (Zsum c)) c _ Hne0 Hw), (m_map2_fst (fun z : Z => IZR z / IZR (Zsum c)) c _ HLw).
  fold (m_incs c). rewrite m_cumsum_head. reflexivity.
Qed.

Lemma m_incs_length : forall c : list Z, length (m_incs c) = length c.
Proof. intros c. unfold m_incs. apply map_length. Qed.

Lemma m_incs_nonneg : forall c : list Z, Forall (fun z => (0 <= z)%Z) c -> (0 < Zsum c)%Z -> nonneg (m_incs c).
Proof.
  intros c Hc Hs. assert (Htot : 0 < IZR (Zsum c)) by (apply IZR_lt; exact Hs).
  unfold m_incs, nonneg. apply Forall_map. eapply Forall_impl; [|exact Hc].
  intros z Hz. cbv beta.
  apply Rmult_le_pos; [apply IZR_le; exact Hz | left; apply Rinv_0_lt_compat; exact Htot].
Qed.

Lemma m_incs_sum : forall c : list Z, (0 < Zsum c)%Z -> sumA (A:=RealA) (m_incs c) = 1.
Proof.
  intros c Hs. assert (Htot : 0 < IZR (Zsum c)) by (apply IZR_lt; exact Hs).
  unfold m_incs. rewrite m_sum_IZR_div. eqR. field. lra.
Qed.

(** running sums *)
Lemma m_cumsum_length : forall (l : list R) (a : R), length (cumsumA (A:=RealA) a l) = length l.
Proof. induction l as [|x r IH]; intros a; cbn [cumsumA length]; [reflexivity|]. rewrite IH. reflexivity. Qed.

Lemma m_cumsum_step : forall (l : list R) (a : R) (i : nat), (i < length l)%nat ->
  nth (S i) (a :: cumsumA (A:=RealA) a l) 0 = nth i (a :: cumsumA (A:=RealA) a l) 0 + nth i l 0.
Proof.
  induction l as [|x r IH]; intros a i Hi; cbn [length] in Hi; [lia|].
  cbn [cumsumA]. destruct i as [|i].
  - reflexivity.
  - exact (IH (a + x) i ltac:(lia)).
Qed.

Lemma m_last_cons2 : forall (a b : R) (l : list R), last (a :: b :: l) 0 = last (b :: l) 0.
Proof. reflexivity. Qed.

Lemma m_cumsum_last : forall (l : list R) (a : R),
  last (a :: cumsumA (A:=RealA) a l) 0 = a + sumA (A:=RealA) l.
Proof.
  induction l as [|x r IH]; intros a.
  - cbn [cumsumA last]. sumA0. lra.
  - cbn [cumsumA].
    rewrite m_last_cons2.
    rewrite IH, sumA_cons. cbn [add RealA]. lra.
Qed.

Lemma m_nondecr_le : forall (t : list R),
  (forall i : nat, (S i < length t)%nat -> nth i t 0 <= nth (S i) t 0) ->
  forall i j : nat, (i <= j)%nat -> (j < length t)%nat -> nth i t 0 <= nth j t 0.
Proof.
  intros t H i j. revert i. induction j as [|j IH]; intros i Hij Hj.
  - replace i with 0%nat by lia. lra.
  - destruct (Nat.eq_dec i (S j)) as [->|Hne]; [lra|].
    apply Rle_trans with (nth j t 0); [apply IH; lia | apply H; lia].
Qed.

Lemma m_valid_inc : forall h : list Z * list R, valid_hist h -> m_inc (snd h).
Proof. intros h (_ & _ & H & _). apply m_inc_of_nth. exact H. Qed.

Lemma valid_hist_range : forall h : list Z * list R, valid_hist h -> hd 0 (snd h) < last (snd h) 0.
Proof.
  intros h Hv. pose proof (m_valid_inc h Hv) as Hinc.
  destruct Hv as (HL & Hne & _).
  rewrite m_hd_nth, m_last_nth. apply Hinc.
  - destruct (fst h); [congruence|]. cbn [length] in HL. lia.
  - destruct (fst h); [congruence|]. cbn [length] in HL. lia.
Qed.

(* the CDF table is 0 = t_0 <= t_1 <= ... <= t_k = 1 *)
Lemma rvh_table_props : forall h : list Z * list R, valid_hist h ->
  let t := rvh_cdf_table (A:=RealA) (fst h) (snd h) in
  length t = length (snd h) /\ nth 0 t 0 = 0 /\ last t 0 = 1 /\
  (forall i : nat, (S i < length t)%nat -> nth i t 0 <= nth (S i) t 0).
Proof.
  intros h Hv. pose proof (m_valid_inc h Hv) as Hinc.
  destruct Hv as (HL & Hne & _ & Hc & Hs).
  cbv zeta. rewrite (m_table_eq _ _ HL Hinc Hs).
  pose proof (m_incs_nonneg _ Hc Hs) as Hnn.
  split; [|split; [|split]].
  - cbn [length]. rewrite m_cumsum_length, m_incs_length. lia.
  - reflexivity.
  - rewrite m_cumsum_last, m_incs_sum by exact Hs. lra.
  - intros i Hi. cbn [length] in Hi. rewrite m_cumsum_length in Hi.
    rewrite m_cumsum_step by lia.
    assert (0 <= nth i (m_incs (fst h)) 0).
    { unfold nonneg in Hnn. rewrite Forall_forall in Hnn. apply Hnn. apply nth_In. lia. }
    change (num RealA) with R in *. lra.
Qed.

(** ** the CDF: value on a segment *)
Lemma m_cdf_inside : forall (e t : list R) (x : R), hd 0 e < x -> x < last e 0 ->
  rvh_cdf (A:=RealA) e t x =
  nth (pred (length (filter (fun v : R => Rleb v x) e))) t 0 +
  (nth (S (pred (length (filter (fun v : R => Rleb v x) e)))) t 0 -
   nth (pred (length (filter (fun v : R => Rleb v x) e))) t 0) *
  ((x - nth (pred (length (filter (fun v : R => Rleb v x) e))) e 0) /
   (nth (S (pred (length (filter (fun v : R => Rleb v x) e)))) e 0 -
    nth (pred (length (filter (fun v : R => Rleb v x) e))) e 0)).
Proof.
  intros e t x Hlo Hhi. unfold rvh_cdf. cbv zeta.
  cbn [add sub mul div leb eqb ofZ RealA num].
  change (@zero RealA) with 0. change (@one RealA) with 1. change (num RealA) with R.
  set (j := pred (length (filter (fun v : R => Rleb v x) e))).
  destruct (Rleb_spec x (hd 0 e)) as [H1|H1]; [lra|].
  destruct (Rleb_spec (last e 0) x) as [H2|H2]; [lra|].
  destruct (Reqb (nth j e 0) x) eqn:E.
  - apply Reqb_true in E. rewrite E. unfold Rdiv. ring.
  - unfold Rdiv. ring.
Qed.

Lemma m_interp_bounds : forall tj tj' ej ej' x : R, tj <= tj' -> ej <= x -> x < ej' ->
  tj <= tj + (tj' - tj) * ((x - ej) / (ej' - ej)) <= tj'.
Proof.
  intros tj tj' ej ej' x Ht H1 H2.
  assert (Hw : 0 < ej' - ej) by lra.
  assert (Hl0 : 0 <= (x - ej) / (ej' - ej)).
  { apply Rmult_le_pos; [lra | left; apply Rinv_0_lt_compat; exact Hw]. }
  assert (Hl1 : (x - ej) / (ej' - ej) <= 1).
  { apply Rmult_le_reg_r with (ej' - ej); [exact Hw|].
    replace ((x - ej) / (ej' - ej) * (ej' - ej)) with (x - ej) by (field; lra). lra. }
  set (lam := (x - ej) / (ej' - ej)) in *.
  split.
  - assert (0 <= (tj' - tj) * lam) by (apply Rmult_le_pos; lra). lra.
  - assert ((tj' - tj) * lam <= (tj' - tj) * 1) by (apply Rmult_le_compat_l; lra). lra.
Qed.

Lemma m_interp_mono : forall tj tj' ej ej' x y : R, tj <= tj' -> ej < ej' -> x <= y ->
  tj + (tj' - tj) * ((x - ej) / (ej' - ej)) <= tj + (tj' - tj) * ((y - ej) / (ej' - ej)).
Proof.
  intros tj tj' ej ej' x y Ht Hw Hxy.
  apply Rplus_le_compat_l. apply Rmult_le_compat_l; [lra|].
  unfold Rdiv. apply Rmult_le_compat_r; [|lra].
  left. apply Rinv_0_lt_compat. lra.
Qed.

(** abstract properties of a CDF table over the edges [e] *)
Definition m_tab (e t : list R) : Prop :=
  length t = length e /\ nth 0 t 0 = 0 /\ last t 0 = 1 /\
  (forall i : nat, (S i < length t)%nat -> nth i t 0 <= nth (S i) t 0).

Lemma m_tab_bounds : forall (e t : list R) (i : nat), m_tab e t -> (i < length t)%nat -> 0 <= nth i t 0 <= 1.
Proof.
  intros e t i (HL & H0 & H1 & Hm) Hi.
  rewrite m_last_nth in H1.
  pose proof (m_nondecr_le t Hm 0%nat i ltac:(lia) Hi) as B0.
  pose proof (m_nondecr_le t Hm i (pred (length t)) ltac:(lia) ltac:(lia)) as B1.
  lra.
Qed.

(** on the segment [e_j <= x < e_(j+1)] the CDF lies between [t_j] and [t_(j+1)] *)
Lemma m_cdf_seg : forall (e t : list R) (x : R), m_inc e -> m_tab e t -> hd 0 e < x -> x < last e 0 ->
  nth (pred (length (filter (fun v : R => Rleb v x) e))) t 0 <= rvh_cdf (A:=RealA) e t x /\
  rvh_cdf (A:=RealA) e t x <= nth (S (pred (length (filter (fun v : R => Rleb v x) e)))) t 0.
Proof.
  intros e t x He Ht Hlo Hhi.
  rewrite (m_cdf_inside e t x Hlo Hhi).
  destruct (m_index e x He Hlo Hhi) as (Hj & Hj1 & Hj2).
  set (j := pred (length (filter (fun v : R => Rleb v x) e))) in *.
  destruct Ht as (HL & _ & _ & Hm).
  apply m_interp_bounds; auto. apply Hm. lia.
Qed.

Lemma m_cdf_range_gen : forall (e t : list R) (x : R), m_inc e -> m_tab e t ->
  0 <= rvh_cdf (A:=RealA) e t x <= 1.
Proof.
  intros e t x He Ht.
  destruct (Rle_lt_dec x (hd 0 e)) as [H1|H1].
  { rewrite rvh_cdf_below by exact H1. lra. }
  destruct (Rle_lt_dec (last e 0) x) as [H2|H2].
  { rewrite rvh_cdf_above by assumption. lra. }
  destruct (m_cdf_seg e t x He Ht H1 H2) as [Ha Hb].
  destruct (m_index e x He H1 H2) as (Hj & _).
  set (j := pred (length (filter (fun v : R => Rleb v x) e))) in *.
  assert (HL : length t = length e) by (destruct Ht as (HL & _); exact HL).
  pose proof (m_tab_bounds e t j Ht ltac:(lia)) as B1.
  pose proof (m_tab_bounds e t (S j) Ht ltac:(lia)) as B2.
  lra.
Qed.

Lemma m_cdf_mono_gen : forall (e t : list R) (x y : R), m_inc e -> m_tab e t -> x <= y ->
  rvh_cdf (A:=RealA) e t x <= rvh_cdf (A:=RealA) e t y.
Proof.
  intros e t x y He Ht Hxy.
  pose proof (m_cdf_range_gen e t x He Ht) as Rx.
  pose proof (m_cdf_range_gen e t y He Ht) as Ry.
  destruct (Rle_lt_dec x (hd 0 e)) as [X1|X1].
  { rewrite (rvh_cdf_below e t x) by exact X1. lra. }
  destruct (Rle_lt_dec (last e 0) y) as [Y2|Y2].
  { rewrite (rvh_cdf_above e t y) by (try assumption; lra). lra. }
  assert (Y1 : hd 0 e < y) by lra.
  assert (X2 : x < last e 0) by lra.
  destruct (m_index e x He X1 X2) as (Hjx & Hx1 & Hx2).
  destruct (m_index e y He Y1 Y2) as (Hjy & Hy1 & Hy2).
  pose proof (m_cdf_seg e t x He Ht X1 X2) as [Sx1 Sx2].
  pose proof (m_cdf_seg e t y He Ht Y1 Y2) as [Sy1 Sy2].
  pose proof (m_cdf_inside e t x X1 X2) as Ex.
  pose proof (m_cdf_inside e t y Y1 Y2) as Ey.
  set (jx := pred (length (filter (fun v : R => Rleb v x) e))) in *.
  set (jy := pred (length (filter (fun v : R => Rleb v y) e))) in *.
  destruct Ht as (HL & _ & _ & Hm).
  assert (Hlt : (jx < S jy)%nat).
  { apply (m_inc_idx e jx (S jy) He); [lia | lia | lra]. }
  destruct (Nat.eq_dec jx jy) as [Ejj|Nejj].
  - rewrite Ex, Ey. rewrite <- Ejj. apply m_interp_mono; [apply Hm; lia | apply He; lia | exact Hxy].
  - apply Rle_trans with (nth (S jx) t 0); [exact Sx2|].
    apply Rle_trans with (nth jy t 0); [|exact Sy1].
    apply m_nondecr_le; [exact Hm | lia | lia].
Qed.

Lemma m_valid_tab : forall h : list Z * list R, valid_hist h ->
  m_tab (snd h) (rvh_cdf_table (A:=RealA) (fst h) (snd h)).
Proof. intros h Hv. exact (rvh_table_props h Hv). Qed.

Lemma rvh_cdf_range : forall (h : list Z * list R) (x : R), valid_hist h ->
  0 <= rvh_cdf (A:=RealA) (snd h) (rvh_cdf_table (A:=RealA) (fst h) (snd h)) x <= 1.
Proof.
  intros h x Hv. apply m_cdf_range_gen; [apply m_valid_inc | apply m_valid_tab]; exact Hv.
Qed.

Lemma rvh_cdf_mono : forall (h : list Z * list R) (x y : R), valid_hist h -> x <= y ->
  rvh_cdf (A:=RealA) (snd h) (rvh_cdf_table (A:=RealA) (fst h) (snd h)) x <=
  rvh_cdf (A:=RealA) (snd h) (rvh_cdf_table (A:=RealA) (fst h) (snd h)) y.
Proof.
  intros h x y Hv Hxy. apply m_cdf_mono_gen; [apply m_valid_inc | apply m_valid_tab | exact Hxy]; exact Hv.
Qed.

(** masses of a non-decreasing function over sorted points *)
Lemma m_diffF_nonneg : forall (F : R -> R) (pts : list R), (forall x y : R, x <= y -> F x <= F y) ->
  Sorted Rle pts -> nonneg (diffF (A:=RealA) F pts).
Proof.
  intros F pts HF. induction pts as [|a r IH]; intros Hs; [constructor|].
  destruct r as [|b r]; [constructor|].
  apply Sorted_inv in Hs. destruct Hs as [Hs Hhd]. apply HdRel_inv in Hhd.
  change (diffF (A:=RealA) F (a :: b :: r)) with ((F b - F a) :: diffF (A:=RealA) F (b :: r)).
  constructor; [|apply IH; exact Hs].
  pose proof (HF a b Hhd). lra.
Qed.

(* hence the discretised masses over sorted points are non-negative *)
Lemma masses_nonneg : forall (h : list Z * list R) (pts : list R), valid_hist h -> Sorted Rle pts ->
  nonneg (masses (A:=RealA) (fst h) (snd h) pts).
Proof.
  intros h pts Hv Hs. unfold masses. apply m_diffF_nonneg; [|exact Hs].
  intros x y Hxy. apply rvh_cdf_mono; assumption.
Qed.

(** * Part N — JS / KL with the repaired discretisation (points spanning both histogram supports),
      relative to the contract [valid_hist] of the oracle [np.histogram(bins="auto")] *)

Lemma n_diffF_sum : forall (F : R -> R) (a : R) (pts : list R),
  sumA (A:=RealA) (diffF (A:=RealA) F (a :: pts)) = F (last (a :: pts) 0) - F a.
Proof.
  intros F a pts. revert a. induction pts as [|b pts IH]; intros a.
  - cbn. sumA0. lra.
  - change (diffF (A:=RealA) F (a :: b :: pts)) with ((F b - F a) :: diffF (A:=RealA) F (b :: pts)).
    rewrite sumA_cons, IH. change (last (a :: b :: pts) 0) with (last (b :: pts) 0). lra.
Qed.

(** both supports inside the discretised range => the masses total exactly 1 *)
Lemma masses_sum_one : forall (c : list Z) (e : list R) (lo hi : R) (nb : nat), (2 <= nb)%nat ->
  hd 0 e < last e 0 -> lo <= hd 0 e -> last e 0 <= hi ->
  sumA (A:=RealA) (masses (A:=RealA) c e (linspace (A:=RealA) lo hi nb)) = 1.
Proof.
  intros c e lo hi nb Hnb He Hlo Hhi. destruct nb as [|n]; [lia|]. assert (Hn : (1 <= n)%nat) by lia.
  pose proof (linspace_first lo hi n Hn) as Hf. pose proof (linspace_last lo hi n Hn) as Hl.
  pose proof (linspace_length lo hi (S n)) as HL.
  unfold masses. destruct (linspace lo hi (S n)) as [|a pts]; [discriminate|].
  rewrite n_diffF_sum. cbn [hd] in Hf. subst a. change (num RealA) with R in *. rewrite Hl.
  rewrite (rvh_cdf_below e _ lo) by lra. rewrite (rvh_cdf_above e _ hi) by lra. lra.
Qed.

Lemma n_span : forall eX eY : list R,
  lmin (A:=RealA) [hd 0 eX; hd 0 eY] <= hd 0 eX /\ lmin (A:=RealA) [hd 0 eX; hd 0 eY] <= hd 0 eY /\
  last eX 0 <= lmax (A:=RealA) [last eX 0; last eY 0] /\ last eY 0 <= lmax (A:=RealA) [last eX 0; last eY 0].
Proof.
  intros. repeat split; first [apply lmin_le | apply lmax_ge]; cbn; auto.
Qed.

Lemma support_points_swap : forall (eX eY : list R) (nb : nat),
  support_points (A:=RealA) eY eX nb = support_points (A:=RealA) eX eY nb.
Proof.
  intros. unfold support_points. change (@zero RealA) with 0. change (num RealA) with R in *.
  rewrite (lmin_perm [hd 0 eY; hd 0 eX] [hd 0 eX; hd 0 eY] (perm_swap _ _ [])).
  rewrite (lmax_perm [last eY 0; last eX 0] [last eX 0; last eY 0] (perm_swap _ _ [])).
  reflexivity.
Qed.

(** the nan guard of js.py (f367129) over the reals: a finite SciPy value is returned unchanged,
    a nan (a zero total: 0/0) becomes 0 *)
Lemma js_f_of_fin : forall (P Q : list R) (v : R), jensenshannon (A:=RealA) P Q = Fin v -> js_f (A:=RealA) P Q = Fin v.
Proof.
  intros P Q v H. unfold js_f. rewrite H. cbn [eqb RealA].
  destruct (Reqb v v) eqn:E; [reflexivity|]. apply Reqb_false in E. congruence.
Qed.
Lemma js_f_not_nan : forall P Q : list R, js_f (A:=RealA) P Q <> NaN.
Proof.
  intros P Q. unfold js_f. destruct (jensenshannon P Q) as [w| |]; try discriminate.
  destruct (@eqb RealA w w); discriminate.
Qed.
Lemma js_f_sym : forall P Q : list R, js_f (A:=RealA) P Q = js_f (A:=RealA) Q P.
Proof. intros. unfold js_f. rewrite (js_sym P Q). reflexivity. Qed.

Lemma js_dist_sym : forall (nb : nat) (hX hY : list Z * list R),
  js_dist (A:=RealA) nb hX hY = js_dist (A:=RealA) nb hY hX.
Proof. intros. unfold js_dist. rewrite (support_points_swap (snd hX) (snd hY)). apply js_f_sym. Qed.

Lemma n_support_sorted : forall (hX hY : list Z * list R) (nb : nat), valid_hist hX -> valid_hist hY -> (2 <= nb)%nat ->
  Sorted Rle (support_points (A:=RealA) (snd hX) (snd hY) nb).
Proof.
  intros hX hY nb VX VY Hnb. unfold support_points. change (@zero RealA) with 0.
  destruct nb as [|n]; [lia|]. apply linspace_sorted; [lia|].
  pose proof (n_span (snd hX) (snd hY)) as (H1 & _ & H3 & _). pose proof (valid_hist_range hX VX) as H0.
  change (num RealA) with R in *. lra.
Qed.

(** the two discretised mass vectors are probability vectors of the same length *)
Lemma masses_valid : forall (nb : nat) (hX hY : list Z * list R), valid_hist hX -> valid_hist hY -> (2 <= nb)%nat ->
  let pts := support_points (A:=RealA) (snd hX) (snd hY) nb in
  isdist (masses (A:=RealA) (fst hX) (snd hX) pts) /\ isdist (masses (A:=RealA) (fst hY) (snd hY) pts) /\
  length (masses (A:=RealA) (fst hX) (snd hX) pts) = length (masses (A:=RealA) (fst hY) (snd hY) pts).
Proof.
  intros nb hX hY VX VY Hnb pts.
  pose proof (n_support_sorted hX hY nb VX VY Hnb) as HS.
  pose proof (n_span (snd hX) (snd hY)) as (H1 & H2 & H3 & H4).
  split; [|split].
  - split; [apply masses_nonneg; auto|]. unfold pts, support_points. change (@zero RealA) with 0.
    apply masses_sum_one; auto. apply valid_hist_range; auto.
  - split; [apply masses_nonneg; auto|]. unfold pts, support_points. change (@zero RealA) with 0.
    apply masses_sum_one; auto. apply valid_hist_range; auto.
  - rewrite !masses_length. reflexivity.
Qed.

(** JS: a number in [0, sqrt (ln 2)] for all valid histograms and num_bins >= 2 *)
Lemma js_dist_range : forall (nb : nat) (hX hY : list Z * list R), valid_hist hX -> valid_hist hY -> (2 <= nb)%nat ->
  exists v : R, js_dist (A:=RealA) nb hX hY = Fin v /\ 0 <= v /\ v <= sqrt (ln 2).
Proof.
  intros nb hX hY VX VY Hnb. destruct (masses_valid nb hX hY VX VY Hnb) as ((HP & HsP) & (HQ & HsQ) & HL).
  unfold js_dist. change (num RealA) with R in *.
  assert (H0P : 0 < sumA (A:=RealA) (masses (fst hX) (snd hX) (support_points (snd hX) (snd hY) nb))) by (rewrite HsP; lra).
  assert (H0Q : 0 < sumA (A:=RealA) (masses (fst hY) (snd hY) (support_points (snd hX) (snd hY) nb))) by (rewrite HsQ; lra).
  destruct (js_range _ _ HP HQ HL H0P H0Q) as (v & Hv & Hr).
  exists v. split; [apply js_f_of_fin; exact Hv | exact Hr].
Qed.
Lemma js_dist_self : forall (nb : nat) (h : list Z * list R), valid_hist h -> (2 <= nb)%nat ->
  js_dist (A:=RealA) nb h h = Fin 0.
Proof.
  intros nb h V Hnb. destruct (masses_valid nb h h V V Hnb) as ((HP & HsP) & _).
  unfold js_dist. apply js_f_of_fin. apply js_self; auto. change (num RealA) with R in *. rewrite HsP. lra.
Qed.
(** KL(test || reference): +inf or a non-negative number *)
Lemma kl_dist_nonneg : forall (nb : nat) (hX hY : list Z * list R), valid_hist hX -> valid_hist hY -> (2 <= nb)%nat ->
  kl_dist (A:=RealA) nb hX hY = PInf \/ exists v : R, kl_dist (A:=RealA) nb hX hY = Fin v /\ 0 <= v.
Proof.
  intros nb hX hY VX VY Hnb. destruct (masses_valid nb hX hY VX VY Hnb) as ((HP & HsP) & (HQ & HsQ) & HL).
  unfold kl_dist. apply kl_nonneg; auto. change (num RealA) with R in *. rewrite HsP, HsQ. lra.
Qed.
Lemma kl_dist_self : forall (nb : nat) (h : list Z * list R), valid_hist h -> (2 <= nb)%nat ->
  kl_dist (A:=RealA) nb h h = Fin 0.
Proof.
  intros nb h V Hnb. destruct (masses_valid nb h h V V Hnb) as ((HP & _) & _).
  unfold kl_dist. apply kl_self; auto.
Qed.

(** two constant samples: NumPy's auto histogram of [n] copies of [c] is one bin [c-1/2, c+1/2] *)
Definition const_hist (n : Z) (c : R) : list Z * list R := ([n], [c - 1/2; c + 1/2]).

Lemma const_hist_valid : forall (n : Z) (c : R), (0 < n)%Z -> valid_hist (const_hist n c).
Proof.
  intros n c Hn. unfold valid_hist, const_hist. cbn [fst snd length].
  split; [reflexivity|]. split; [discriminate|]. split.
  - intros i Hi. assert (i = 0%nat) by lia. subst. cbn. lra.
  - split; [constructor; [lia | constructor] | cbn; lia].
Qed.

Lemma n_const_table : forall (n : Z) (c : R), (0 < n)%Z ->
  rvh_cdf_table (A:=RealA) [n] [c - 1/2; c + 1/2] = [0; 1].
Proof.
  intros n c Hn. assert (Hp : 0 < IZR n) by (apply IZR_lt; auto).
  unfold rvh_cdf_table. cbn [diffA map2 map]. unfold sumA. cbn [fold_left].
  cbn [add sub mul div ofZ RealA]. change (@zero RealA) with 0.
  f_equal. f_equal. eqR. field. lra.
Qed.

(** equal constant samples (any sizes): JS = 0 and KL = 0 — the repaired behaviour of F29 *)
Lemma js_kl_const_equal : forall (nb : nat) (n m : Z) (c : R), (0 < n)%Z -> (0 < m)%Z -> (2 <= nb)%nat ->
  js_dist (A:=RealA) nb (const_hist n c) (const_hist m c) = Fin 0 /\
  kl_dist (A:=RealA) nb (const_hist n c) (const_hist m c) = Fin 0.
Proof.
  intros nb n m c Hn Hm Hnb.
  pose proof (js_dist_self nb (const_hist n c) (const_hist_valid n c Hn) Hnb) as HJ.
  pose proof (kl_dist_self nb (const_hist n c) (const_hist_valid n c Hn) Hnb) as HK.
  unfold js_dist, kl_dist, masses, const_hist in *. cbn [fst snd] in *.
  rewrite (n_const_table m c Hm), (n_const_table n c Hn). rewrite (n_const_table n c Hn) in HJ, HK. split; assumption.
Qed.

