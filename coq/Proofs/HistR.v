(** C10 — lemmas about the histogram / transport distance models of [Model/Hist.v]
    over the real-number instance [RealA]. *)
From Coq Require Import ZArith List Bool Reals Lra Lia Permutation Sorted.
From FV Require Import NumSys RealA Sums Hist.
Import ListNotations.
Local Open Scope R_scope.

(** * Part 0 — shared vocabulary *)

Definition nonneg (l : list R) : Prop := Forall (fun x => 0 <= x) l.
(** a proportion vector: non-negative entries summing to one *)
Definition isdist (l : list R) : Prop := nonneg l /\ sumA (A:=RealA) l = 1.

Lemma fold_left_Rplus_acc : forall l a, fold_left Rplus l a = a + fold_left Rplus l 0.
Proof.
  induction l as [|x l IH]; intros a; cbn.
  - lra.
  - rewrite IH. rewrite (IH (0 + x)). lra.
Qed.

Lemma sumA_nil : sumA (A:=RealA) (@nil R) = 0.
Proof. reflexivity. Qed.
Ltac sumA0 := change (sumA (A:=RealA) (@nil R)) with 0 in *; change (sumA (A:=RealA) (@nil (num RealA))) with 0 in *.

Lemma sumA_cons : forall (x : R) (l : list R), sumA (A:=RealA) (x :: l) = x + sumA (A:=RealA) l.
Proof.
  intros x l. unfold sumA, zero. cbn.
  rewrite fold_left_Rplus_acc. lra.
Qed.

Lemma sumA_Rsum : forall l : list R, sumA (A:=RealA) l = Rsum l.
Proof.
  induction l as [|x l IH]; [reflexivity|].
  rewrite sumA_cons, IH. reflexivity.
Qed.

Lemma sumA_app : forall l r : list R, sumA (A:=RealA) (l ++ r) = sumA (A:=RealA) l + sumA (A:=RealA) r.
Proof.
  induction l as [|x l IH]; intros r; cbn [app].
  - sumA0. lra.
  - rewrite !sumA_cons, IH. lra.
Qed.

Lemma sumA_nonneg : forall l, nonneg l -> 0 <= sumA (A:=RealA) l.
Proof.
  induction 1 as [|x l Hx Hl IH]; [sumA0; lra|].
  rewrite sumA_cons. lra.
Qed.

Lemma sumA_map_scal : forall (c : R) (l : list R), sumA (A:=RealA) (map (fun v => v * c) l) = sumA (A:=RealA) l * c.
Proof.
  induction l as [|x l IH]; cbn [map]; [sumA0; lra|].
  rewrite !sumA_cons, IH. lra.
Qed.

(** termwise comparison of sums *)
Lemma sumA_le : forall l r : list R, Forall2 Rle l r -> sumA (A:=RealA) l <= sumA (A:=RealA) r.
Proof.
  induction 1 as [|x y l r Hxy Hlr IH]; [lra|].
  rewrite !sumA_cons. lra.
Qed.

Lemma map2_nil_r : forall {T U V} (f : T -> U -> V) l, map2 f l [] = [].
Proof. destruct l; reflexivity. Qed.

Lemma map2_length : forall {T U V} (f : T -> U -> V) l r, length (map2 f l r) = Nat.min (length l) (length r).
Proof.
  induction l as [|a l IH]; intros [|b r]; cbn; auto.
Qed.

Lemma map2_sym : forall {T V} (f : T -> T -> V) l r, (forall a b, f a b = f b a) -> map2 f l r = map2 f r l.
Proof.
  induction l as [|a l IH]; intros [|b r] H; cbn; auto.
  rewrite H, IH; auto.
Qed.

(** sum over [map2] of the first (second) components is at most the whole sum *)
Lemma sumA_map2_fst_le : forall p q : list R, nonneg p -> sumA (A:=RealA) (map2 (fun x _ : R => x) p q) <= sumA (A:=RealA) p.
Proof.
  induction p as [|x p IH]; intros q Hp.
  - cbn. lra.
  - destruct q as [|y q]; cbn [map2].
    + sumA0. apply sumA_nonneg; auto.
    + inversion Hp; subst. rewrite !sumA_cons. specialize (IH q H2). lra.
Qed.
Lemma sumA_map2_snd_le : forall p q : list R, nonneg q -> sumA (A:=RealA) (map2 (fun _ y : R => y) p q) <= sumA (A:=RealA) q.
Proof.
  induction p as [|x p IH]; intros q Hq.
  - cbn. apply sumA_nonneg; auto.
  - destruct q as [|y q]; cbn [map2].
    + sumA0. lra.
    + inversion Hq; subst. rewrite !sumA_cons. specialize (IH q H2). lra.
Qed.

(** ** min / max of a list *)
Lemma amin_le_acc : forall (l : list R) (a : R), amin (A:=RealA) a l <= a.
Proof.
  induction l as [|y l IH]; intros a; cbn [amin]; [lra|].
  cbn [ltb RealA]. destruct (Rltb_spec y a) as [Hlt|Hge].
  - apply Rle_trans with y; [apply IH | lra].
  - apply IH.
Qed.
Lemma amin_le_in : forall (l : list R) (a x : R), In x l -> amin (A:=RealA) a l <= x.
Proof.
  induction l as [|y l IH]; intros a x Hin; [contradiction|].
  cbn [amin]. cbn [ltb RealA]. destruct Hin as [->|Hin].
  - destruct (Rltb_spec x a) as [Hlt|Hge].
    + apply amin_le_acc.
    + apply Rle_trans with a; [apply amin_le_acc | lra].
  - apply IH; auto.
Qed.
Lemma amin_in : forall (l : list R) (a : R), amin (A:=RealA) a l = a \/ In (amin (A:=RealA) a l) l.
Proof.
  induction l as [|y l IH]; intros a; cbn [amin]; [auto|].
  cbn [ltb RealA]. destruct (Rltb_spec y a).
  - destruct (IH y) as [->|H]; [right; left; auto | right; right; auto].
  - destruct (IH a) as [->|H]; [left; auto | right; right; auto].
Qed.
Lemma amax_ge_acc : forall (l : list R) (a : R), a <= amax (A:=RealA) a l.
Proof.
  induction l as [|y l IH]; intros a; cbn [amax]; [lra|].
  cbn [ltb RealA]. destruct (Rltb_spec a y) as [Hlt|Hge].
  - apply Rle_trans with y; [lra | apply IH].
  - apply IH.
Qed.
Lemma amax_ge_in : forall (l : list R) (a x : R), In x l -> x <= amax (A:=RealA) a l.
Proof.
  induction l as [|y l IH]; intros a x Hin; [contradiction|].
  cbn [amax]. cbn [ltb RealA]. destruct Hin as [->|Hin].
  - destruct (Rltb_spec a x) as [Hlt|Hge].
    + apply amax_ge_acc.
    + apply Rle_trans with a; [lra | apply amax_ge_acc].
  - apply IH; auto.
Qed.
Lemma amax_in : forall (l : list R) (a : R), amax (A:=RealA) a l = a \/ In (amax (A:=RealA) a l) l.
Proof.
  induction l as [|y l IH]; intros a; cbn [amax]; [auto|].
  cbn [ltb RealA]. destruct (Rltb_spec a y).
  - destruct (IH y) as [->|H]; [right; left; auto | right; right; auto].
  - destruct (IH a) as [->|H]; [left; auto | right; right; auto].
Qed.

Lemma lmin_le : forall (l : list R) (x : R), In x l -> lmin (A:=RealA) l <= x.
Proof.
  intros [|a l] x Hin; [contradiction|]. cbn [lmin]. destruct Hin as [->|Hin].
  - apply amin_le_acc.
  - apply amin_le_in; auto.
Qed.
Lemma lmin_in : forall (l : list R), l <> [] -> In (lmin (A:=RealA) l) l.
Proof.
  intros [|a l] H; [congruence|]. cbn [lmin]. destruct (amin_in l a) as [->|Hi]; [left; auto | right; auto].
Qed.
Lemma lmax_ge : forall (l : list R) (x : R), In x l -> x <= lmax (A:=RealA) l.
Proof.
  intros [|a l] x Hin; [contradiction|]. cbn [lmax]. destruct Hin as [->|Hin].
  - apply amax_ge_acc.
  - apply amax_ge_in; auto.
Qed.
Lemma lmax_in : forall (l : list R), l <> [] -> In (lmax (A:=RealA) l) l.
Proof.
  intros [|a l] H; [congruence|]. cbn [lmax]. destruct (amax_in l a) as [->|Hi]; [left; auto | right; auto].
Qed.

(** the minimum is determined by the multiset of values *)
Lemma lmin_perm : forall (l l' : list R), Permutation l l' -> lmin (A:=RealA) l = lmin (A:=RealA) l'.
Proof.
  intros l l' HP. destruct l as [|a l].
  - apply Permutation_nil in HP. subst. reflexivity.
  - assert (Hl' : l' <> []) by (intros ->; apply Permutation_sym, Permutation_nil in HP; discriminate).
    apply Rle_antisym.
    + apply lmin_le. apply (Permutation_in _ (Permutation_sym HP)). apply lmin_in; auto.
    + apply lmin_le. apply (Permutation_in _ HP). apply lmin_in. discriminate.
Qed.
Lemma lmax_perm : forall (l l' : list R), Permutation l l' -> lmax (A:=RealA) l = lmax (A:=RealA) l'.
Proof.
  intros l l' HP. destruct l as [|a l].
  - apply Permutation_nil in HP. subst. reflexivity.
  - assert (Hl' : l' <> []) by (intros ->; apply Permutation_sym, Permutation_nil in HP; discriminate).
    apply Rle_antisym.
    + apply lmax_ge. apply (Permutation_in _ HP). apply lmax_in. discriminate.
    + apply lmax_ge. apply (Permutation_in _ (Permutation_sym HP)). apply lmax_in; auto.
Qed.
Lemma lmin_le_lmax : forall (l : list R), l <> [] -> lmin (A:=RealA) l <= lmax (A:=RealA) l.
Proof. intros l H. apply lmin_le. apply lmax_in; auto. Qed.

(** make an equation / inequality at type [num RealA] one at type [R] (for [field] / [lra]) *)
Ltac eqR := match goal with |- @eq _ ?x ?y => change (@eq R x y) end.

(** ** [linspace] over R: the i-th point is [a + i (b - a) / n] *)
Lemma ofN_INR : forall n, ofN (A:=RealA) n = INR n.
Proof. intros n. unfold ofN. cbn [ofZ RealA]. symmetry. apply INR_IZR_INZ. Qed.

Lemma linspace_length : forall (a b : R) n, length (linspace (A:=RealA) a b n) = n.
Proof.
  intros a b [|[|n]]; cbn [linspace]; auto.
  rewrite app_length, map_length, seq_length. cbn. lia.
Qed.

Lemma linspace_nth : forall (a b : R) n i, (1 <= n)%nat -> (i <= n)%nat ->
  nth i (linspace (A:=RealA) a b (S n)) 0 = a + INR i * (b - a) / INR n.
Proof.
  intros a b n i Hn Hi. destruct n as [|n]; [lia|].
  assert (Hpos : 0 < INR (S n)) by (apply lt_0_INR; lia).
  cbn [linspace].
  set (f := fun i0 : nat => _).
  destruct (Nat.eq_dec i (S n)) as [->|Hne].
  - rewrite app_nth2; rewrite map_length, seq_length; [|lia].
    replace (S n - S n)%nat with 0%nat by lia. cbn [nth].
    eqR. field. lra.
  - rewrite app_nth1 by (rewrite map_length, seq_length; lia).
    rewrite (nth_indep _ 0 (f 0%nat)) by (rewrite map_length, seq_length; lia).
    rewrite map_nth. rewrite seq_nth by lia. cbn [Nat.add]. subst f. cbv beta.
    rewrite !ofN_INR. cbn [add sub mul div eqb RealA num].
    change (@zero RealA) with 0.
    destruct (Reqb _ _); eqR; field; lra.
Qed.

Lemma linspace_first : forall (a b : R) n, (1 <= n)%nat -> hd 0 (linspace (A:=RealA) a b (S n)) = a.
Proof.
  intros a b n Hn.
  pose proof (linspace_nth a b n 0 Hn ltac:(lia)) as H.
  pose proof (linspace_length a b (S n)) as HL.
  destruct (linspace a b (S n)) as [|x l]; [discriminate|].
  cbn in *. rewrite H. unfold Rdiv. rewrite !Rmult_0_l. lra.
Qed.

Lemma linspace_last : forall (a b : R) n, (1 <= n)%nat -> last (linspace (A:=RealA) a b (S n)) 0 = b.
Proof.
  intros a b [|n] Hn; [lia|]. cbn [linspace]. apply last_last.
Qed.

(** ** proportions of integer counts *)
Definition Zsum (l : list Z) : Z := fold_right Z.add 0%Z l.

Lemma proportions_length : forall (c : list Z) n, length (proportions (A:=RealA) c n) = length c.
Proof. intros. unfold proportions. apply map_length. Qed.

Lemma proportions_sum : forall (c : list Z) (n : nat), (0 < n)%nat ->
  sumA (A:=RealA) (proportions (A:=RealA) c n) = IZR (Zsum c) / INR n.
Proof.
  intros c n Hn. assert (Hp : 0 < INR n) by (apply lt_0_INR; lia).
  induction c as [|z c IH].
  - cbn. sumA0. unfold Rdiv. rewrite Rmult_0_l. reflexivity.
  - unfold proportions in *. cbn [map Zsum fold_right].
    rewrite sumA_cons, IH. rewrite plus_IZR. rewrite ofN_INR. cbn [div ofZ RealA].
    fold (Zsum c). eqR. field. lra.
Qed.

Lemma proportions_nonneg : forall (c : list Z) (n : nat), (0 < n)%nat ->
  Forall (fun z => (0 <= z)%Z) c -> nonneg (proportions (A:=RealA) c n).
Proof.
  intros c n Hn Hc. assert (Hp : 0 < INR n) by (apply lt_0_INR; lia).
  unfold proportions, nonneg. apply Forall_map.
  eapply Forall_impl; [|exact Hc]. intros z Hz. cbv beta.
  rewrite ofN_INR. cbn [div ofZ RealA].
  apply Rmult_le_pos; [apply IZR_le; exact Hz | left; apply Rinv_0_lt_compat; exact Hp].
Qed.

Lemma proportions_isdist : forall (c : list Z) (n : nat), (0 < n)%nat ->
  Forall (fun z => (0 <= z)%Z) c -> Zsum c = Z.of_nat n -> isdist (proportions (A:=RealA) c n).
Proof.
  intros c n Hn Hc Hs. split; [apply proportions_nonneg; auto|].
  rewrite proportions_sum by auto. rewrite Hs, <- INR_IZR_INZ.
  assert (Hp : 0 < INR n) by (apply lt_0_INR; lia). eqR. field. lra.
Qed.
