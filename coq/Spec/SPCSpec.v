(* Spec/SPCSpec.v *)
(** C03: the published non-incremental decision rules of DDM, ECDD-WT and EDDM.
    Definitions only. *)
From Coq Require Import ZArith List Bool Reals.
From FV Require Import NumSys RealA Sums Stats SPC.
Import ListNotations.
Local Open Scope R_scope.

(** All lists [rvs] below are NEWEST-FIRST (i.e. [rev] of the stream), so that the recursion peels
    off the latest value; [rev rvs] is the stream so far. *)

Inductive verdict := Normal | Warning | Drift.
Definition verdict_of (drift warning : bool) : verdict := if drift then Drift else if warning then Warning else Normal.

(** running error rate p_t and s_t = sqrt(p_t (1 - p_t) / t) of the stream [rev rvs] *)
Definition p_of (rvs : list R) : R := Rmean (rev rvs).
Definition s_of (rvs : list R) : R := sqrt (p_of rvs * (1 - p_of rvs) / INR (length rvs)).

(** (p_min, s_min): the pair minimising p+s over the prefixes of length >= mn (earliest wins ties) *)
Fixpoint ddm_min (mn : nat) (rvs : list R) : option (R * R) :=
  match rvs with
  | [] => None
  | _ :: older =>
    let prev := ddm_min mn older in
    if (mn <=? length rvs)%nat then
      match prev with
      | None => Some (p_of rvs, s_of rvs)
      | Some (pm, sm) => if Rlt_dec (p_of rvs + s_of rvs) (pm + sm) then Some (p_of rvs, s_of rvs) else prev
      end
    else prev
  end.

Definition ddm_spec (warn drift : R) (mn : nat) (rvs : list R) : verdict :=
  if (length rvs <? mn)%nat then Normal else
  match ddm_min mn rvs with
  | None => Normal
  | Some (pm, sm) =>
    if Rlt_dec (pm + drift * sm) (p_of rvs + s_of rvs) then Drift
    else if Rlt_dec (pm + warn * sm) (p_of rvs + s_of rvs) then Warning else Normal
  end.

(** ECDD-WT: EWMA chart against the Ross et al. control-limit polynomial.  The coefficients are
    typed here from the paper's table, independently of Model/SPC.v *)
Definition ross_limit (arl : Z) (p : R) : R :=
  if (arl =? 100)%Z then 2.76 - 6.23 * p + 18.12 * p^3 - 312.45 * p^5 + 1002.18 * p^7
  else if (arl =? 400)%Z then 3.97 - 6.56 * p + 48.73 * p^3 - 330.13 * p^5 + 848.18 * p^7
  else 1.17 + 7.56 * p - 21.24 * p^3 + 112.12 * p^5 - 987.23 * p^7.
Definition ecdd_Z (lam : R) (rvs : list R) : R := wsum (fun k => lam * (1 - lam) ^ k) (rev rvs).
Definition ecdd_sigma (lam : R) (rvs : list R) : R :=
  sqrt (lam / (2 - lam) * (1 - (1 - lam) ^ (2 * length rvs)) * (p_of rvs * (1 - p_of rvs))).
Definition ecdd_spec (lam : R) (arl : Z) (warn : R) (mn : nat) (rvs : list R) : verdict :=
  if (length rvs <? mn)%nat then Normal else
  let L := ross_limit arl (p_of rvs) in
  if Rlt_dec (p_of rvs + L * ecdd_sigma lam rvs) (ecdd_Z lam rvs) then Drift
  else if Rlt_dec (p_of rvs + warn * L * ecdd_sigma lam rvs) (ecdd_Z lam rvs) then Warning else Normal.

(** EDDM: distances between consecutive errors (an error is a value equal to 1; the first distance is
    measured from position 0).  [gaps rvs] lists the distances, oldest first. *)
Fixpoint gaps_from (vs : list R) (pos last : nat) : list R :=   (* vs oldest-first; returns oldest-first *)
  match vs with
  | [] => []
  | x :: r => if Req_EM_T x 1 then INR (S pos - last) :: gaps_from r (S pos) (S pos) else gaps_from r (S pos) last
  end.
Definition gaps (rvs : list R) : list R := gaps_from (rev rvs) 0 0.   (* oldest-first list of distances *)
(** mean + level * population standard deviation of the distances *)
Definition eddm_thr (level : R) (ds : list R) : R := Rmean ds + level * sqrt (Rssd ds / INR (length ds)).
