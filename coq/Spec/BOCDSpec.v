(** Specification of Bayesian online changepoint detection (Adams-MacKay) with a Gaussian
    unknown-mean model and a constant hazard: the exact run-length posterior, written
    non-incrementally in LINEAR space.  Definitions only. *)
From Coq Require Import ZArith List Bool Reals.
From FV Require Import NumSys RealA Sums BOCD.
Import ListNotations.
Local Open Scope R_scope.

(** conjugate posterior after observing the values [run] (any order): precision and mean *)
Definition post_prec (c : bocd_cfg RealA) (k : nat) : R := 1 / bo_prior_var c + INR k / bo_data_var c.
Definition post_mean (c : bocd_cfg RealA) (run : list R) : R :=
  (bo_prior_mean c / bo_prior_var c + Rsum run / bo_data_var c) / post_prec c (length run).
(** Gaussian density *)
Definition gauss_pdf (x mu var : R) : R := exp (- ((x - mu) * (x - mu)) / (2 * var)) / sqrt (2 * PI * var).
(** predictive density of x under a run consisting of the values [run] *)
Definition pred (c : bocd_cfg RealA) (run : list R) (x : R) : R :=
  gauss_pdf x (post_mean c run) (1 / post_prec c (length run) + bo_data_var c).
(** joint J_t(k) = P(r_t = k, x_1..x_t), k = 0..t, by the Adams-MacKay recursion in linear space;
    [rvs] is the stream NEWEST-FIRST; the run of length k before the newest value x is [firstn k older] *)
Fixpoint joint (c : bocd_cfg RealA) (rvs : list R) : list R :=
  match rvs with
  | [] => [1]
  | x :: older =>
    let prev := joint c older in
    let terms := map (fun kJ : nat * R => snd kJ * pred c (firstn (fst kJ) older) x) (combine (seq 0 (length prev)) prev) in
    (bo_hazard c * Rsum terms) :: map (fun t => t * (1 - bo_hazard c)) terms
  end.
Definition evidence (c : bocd_cfg RealA) (rvs : list R) : R := Rsum (joint c rvs).
(** the run-length posterior P(r_t = k | x_1..x_t) *)
Definition posterior (c : bocd_cfg RealA) (rvs : list R) : list R := map (fun j => j / evidence c rvs) (joint c rvs).
Definition cfg_ok (c : bocd_cfg RealA) : Prop :=
  0 < bo_prior_var c /\ 0 < bo_data_var c /\ 0 < bo_hazard c < 1 /\ bo_ln_sqrt_2pi c = ln (sqrt (2 * PI)).
