(** C09 — MMD is the unbiased estimator for any chunking; streaming MMD = batch on window.

    Model: Model/MMD.v (batch MMD, streaming MMD, rbf_kernel), Model/Queue.v (CircularQueue).
    Reals: Coq's R.  [mmd_u k d X Y] is the estimate of the property statement,
      sum_{i<>j} k(x_i,x_j)/(n(n-1)) + sum_{i<>j} k(y_i,y_j)/(m(m-1)) - 2 sum_{i,j} k(x_i,y_j)/(nm),
    with the off-diagonal sums taken over index pairs i <> j ([offdiag]); [d] is only the
    default of [nth].  The kernel is any point function with k(x,x) = 1 — the hypothesis under
    which the code's "Remove diagonal: subtract n" is correct; RBF satisfies it (C09_rbf_diag).
    Symmetry of the kernel is NOT needed by any theorem below. *)
From Coq Require Import ZArith List Bool Reals Permutation PrimFloat.
From FV Require Import NumSys RealA FloatA Py Sums Queue QueueRef MMD MMDR.
Import ListNotations.

(** [_get_chunks] cuts the sample into consecutive slices whose concatenation is the sample,
    each of 1..chunk_size points, for every chunk_size > 0 (dividing the length or not). *)
Theorem C09_chunks_concat : forall (T : Type) (c : nat) (l : list T), (0 < c)%nat ->
  concat (chunks_nat c l) = l /\ Forall (fun ch => (1 <= length ch <= c)%nat) (chunks_nat c l).
Proof. intros T c l H. split; [apply chunks_concat | apply chunks_sizes]; exact H. Qed.
Print Assumptions C09_chunks_concat.

(** [_compute_kernel] over [itertools.product] of the chunks of X and of Y is the full double
    sum sum_{i,j} k(x_i, y_j), for every pair of chunk sizes and every kernel. *)
Theorem C09_chunked_sum : forall (k : pt RealA -> pt RealA -> R) (cx cy : nat) (X Y : list (pt RealA)),
  (0 < cx)%nat -> (0 < cy)%nat ->
  compute_kernel (A:=RealA) k (list_prod (chunks_nat cx X) (chunks_nat cy Y)) = pairsum k X Y.
Proof. exact chunked_sum. Qed.
Print Assumptions C09_chunked_sum.

(** MMD.fit then MMD.compare, and the stand-alone statistic handed to the permutation test,
    both return the unbiased estimate, for EVERY accepted chunk_size (None or any c > 0),
    every earlier detector state [s], references/test samples of the same shape (1-D, or 2-D
    with >= 1 column) with n, m >= 2. *)
Theorem C09_unbiased_any_chunking : forall (k : pt RealA -> pt RealA -> R),
  (forall x, k x x = 1%R) ->
  forall (chunk : option Z) (s : mb_st RealA) (X Y : arr RealA),
  chunk_ok chunk -> check_fit_dims X = Ok tt -> same_shape X Y ->
  (2 <= arr_len X)%Z -> (2 <= arr_len Y)%Z ->
  exists s', mb_fit k chunk s X = (s', Ok tt) /\
    mb_compare k chunk s' Y = Ok (mmd_u k [] (expand_dims X) (expand_dims Y)) /\
    mb_statistic k chunk X Y = Ok (mmd_u k [] (expand_dims X) (expand_dims Y)).
Proof. exact mmd_any_chunking. Qed.
Print Assumptions C09_unbiased_any_chunking.

(** rbf_kernel has unit diagonal for every bandwidth sigma <> 0 and every dimension
    (so the theorem above applies to it); it is also symmetric (not needed). *)
Theorem C09_rbf_diag : forall (sigma : R) (x : pt RealA), sigma <> 0%R -> rbf (A:=RealA) sigma x x = 1%R.
Proof. exact rbf_diag. Qed.
Print Assumptions C09_rbf_diag.

Theorem C09_rbf_unbiased : forall (sigma : R), sigma <> 0%R ->
  forall (chunk : option Z) (s : mb_st RealA) (X Y : arr RealA),
  chunk_ok chunk -> check_fit_dims X = Ok tt -> same_shape X Y ->
  (2 <= arr_len X)%Z -> (2 <= arr_len Y)%Z ->
  exists s', mb_fit (rbf sigma) chunk s X = (s', Ok tt) /\
    mb_compare (rbf sigma) chunk s' Y = Ok (mmd_u (rbf sigma) [] (expand_dims X) (expand_dims Y)) /\
    mb_statistic (rbf sigma) chunk X Y = Ok (mmd_u (rbf sigma) [] (expand_dims X) (expand_dims Y)).
Proof. intros sigma Hs. apply mmd_any_chunking. intros x. apply rbf_diag. exact Hs. Qed.
Print Assumptions C09_rbf_unbiased.

(** The reference term cached at fit is the term the static path recomputes: in EVERY number
    system (binary64 included) compare-after-fit performs the same operations as the
    stand-alone statistic, so the two agree exactly, whatever the kernel, sizes or chunk_size. *)
Theorem C09_fit_cache : forall (A : Arith) (k : pt A -> pt A -> num A) chunk (s s' : mb_st A) (X Y : arr A),
  mb_fit k chunk s X = (s', Ok tt) -> check_compare_dims X Y = Ok tt ->
  mb_compare k chunk s' Y = mb_statistic k chunk X Y.
Proof. intros A k chunk s s' X Y. exact (mmd_fit_cache k chunk s X Y s'). Qed.
Print Assumptions C09_fit_cache.

(** The estimate does not depend on the order of either sample (any kernel). *)
Theorem C09_perm : forall (k : pt RealA -> pt RealA -> R) d X X' Y Y',
  Permutation X X' -> Permutation Y Y' -> mmd_u k d X Y = mmd_u k d X' Y'.
Proof. intros k d X X' Y Y' HX HY. rewrite (mmd_u_perm_l k d X X' Y HX). apply mmd_u_perm_r. exact HY. Qed.
Print Assumptions C09_perm.

(** A full CircularQueue read slot by slot (what [np.array(queue)] does) is a permutation of
    its FIFO contents. *)
Theorem C09_storage_order : forall (T : Type) (M : Z) (q : cq T) (d : list T),
  cq_rel M q d -> length d = Z.to_nat M -> Permutation (q_slots q) (map Some d).
Proof. intros T. exact full_slots_perm. Qed.
Print Assumptions C09_storage_order.

(** Streaming MMD, any history.  For window_size >= 2, any accepted chunk_size, and ANY
    sequence of fit / reset / update calls whose arrays and values have one shape (1-D
    references with scalar updates, or (n,d) references with d-vector updates; references
    with >= 2 points), every call returns what [spec_run] says: an update before a fit
    (or after a reset) raises MissingFitError; otherwise it returns None while fewer than
    window_size values have been accepted since the last reset, and afterwards exactly the
    unbiased estimate between the reference in force and the last window_size values
    (the ring is read in storage order; reset clears it). *)
Theorem C09_streaming : forall (k : pt RealA -> pt RealA -> R), (forall x, k x x = 1%R) ->
  forall (chunk : option Z) (w : Z), (2 <= w)%Z -> chunk_ok chunk ->
  forall (sh : shape) (h : list (sev RealA)), Forall (ev_good sh) h ->
  exists s0, ms_new w chunk = Ok s0 /\ snd (ms_run k chunk s0 h) = spec_run k w abs0 h.
Proof. exact mmd_streaming. Qed.
Print Assumptions C09_streaming.

(** The plain use: fit once, then updates v_1, v_2, ...: the t-th update returns None for
    t < window_size and otherwise mmd_u(reference, last window_size of v_1..v_t). *)
Theorem C09_streaming_simple : forall (k : pt RealA -> pt RealA -> R), (forall x, k x x = 1%R) ->
  forall (chunk : option Z) (w : Z), (2 <= w)%Z -> chunk_ok chunk ->
  forall (sh : shape) (R : arr RealA) (vs : list (sval RealA)),
  arr_good sh R -> Forall (sval_good sh) vs ->
  exists s0, ms_new w chunk = Ok s0 /\
    snd (ms_run k chunk s0 (SFit R :: map (@SUpd RealA) vs)) =
    OFit (Ok tt) ::
    map (fun t => OUpd (if (zlen (firstn t vs) <? w)%Z then Ok None
                        else Ok (Some (mmd_u k [] (expand_dims R)
                                             (map sval_pt (lastn (Z.to_nat w) (firstn t vs)))))))
        (seq 1 (length vs)).
Proof. exact mmd_streaming_simple. Qed.
Print Assumptions C09_streaming_simple.

(** reset = new instance, exactly.  In EVERY number system (binary64 included), for every
    kernel, every chunk_size and window_size the constructor accepts, and ANY histories [pre],
    [post] (no shape hypothesis; exceptions allowed): the answers to [post] after
    [pre; reset] are the answers a newly constructed detector gives to [post] — same values
    bit for bit, same exceptions.  True of the repaired reset (which clears the ring); with the
    unrepaired one the ring position survived reset and the window reached the batch
    detector in a different storage order. *)
Theorem C09_reset_fresh_exact : forall (A : Arith) (k : pt A -> pt A -> num A) (chunk : option Z) (w : Z)
  (s0 : ms_st A) (pre post : list (sev A)), ms_new w chunk = Ok s0 ->
  skipn (S (length pre)) (snd (ms_run k chunk s0 (pre ++ SReset :: post))) = snd (ms_run k chunk s0 post).
Proof. intros A k chunk. exact (mmd_reset_fresh_exact k chunk). Qed.
Print Assumptions C09_reset_fresh_exact.

(** and the state after reset is [ms_new]'s state field by field (counter, ring, reference,
    window size, batch reference), except the cached reference term, which is dead until the
    next successful fit overwrites it *)
Theorem C09_reset_state : forall (A : Arith) (k : pt A -> pt A -> num A) (chunk : option Z) (w : Z)
  (s0 : ms_st A) (pre : list (sev A)), ms_new w chunk = Ok s0 ->
  let s := ms_reset (fst (ms_run k chunk s0 pre)) in
  ms_n s = ms_n s0 /\ ms_q s = ms_q s0 /\ ms_ref s = ms_ref s0 /\ ms_w s = ms_w s0 /\
  mb_ref (ms_mmd s) = mb_ref (ms_mmd s0).
Proof. intros A k chunk. exact (mmd_reset_state k chunk). Qed.
Print Assumptions C09_reset_state.

(** non-vacuity *)
(** the batch hypotheses hold for a 1-D pair with a chunk_size that does not divide n
    (3 points in chunks of 2: [x0,x1],[x2]) and for the RBF kernel *)
Example C09_batch_nonvacuous :
  let X := Arr1 (A:=RealA) [0%R; 1%R; 3%R] in
  let Y := Arr1 (A:=RealA) [1%R; 2%R] in
  chunk_ok (Some 2%Z) /\ check_fit_dims X = Ok tt /\ same_shape X Y /\
  (2 <= arr_len X)%Z /\ (2 <= arr_len Y)%Z /\
  length (chunks_nat 2 (expand_dims X)) = 2%nat /\
  (forall x, rbf (A:=RealA) 1%R x x = 1%R).
Proof.
  cbn. repeat split; try reflexivity; try Lia.lia.
  intros x. apply rbf_diag. Lra.lra.
Qed.

(** a history with a reset and a refit satisfying the streaming hypotheses (2-vectors) *)
Example C09_streaming_nonvacuous :
  let R1 := Arr2 (A:=RealA) 2 [[0%R; 0%R]; [1%R; 1%R]] in
  let R2 := Arr2 (A:=RealA) 2 [[2%R; 0%R]; [1%R; 3%R]; [0%R; 1%R]] in
  let v (a b : R) := SUpd (VV (A:=RealA) [a; b]) in
  Forall (ev_good (A:=RealA) (Sh2 2))
    [SFit R1; v 0%R 1%R; v 1%R 1%R; v 2%R 2%R; SReset; v 5%R 5%R; SFit R2; v 1%R 0%R; v 0%R 0%R].
Proof.
  cbn. repeat constructor.
Qed.

(** the executable binary64 instance runs: chunked (2 does not divide 3), fitted and static
    paths on a concrete input give the same (non-nan) number *)
Example C09_float_runs :
  let X := Arr2 (A:=FloatA) 1 [[0%float]; [1%float]; [3%float]] in
  let Y := Arr2 (A:=FloatA) 1 [[1%float]; [2%float]] in
  let K := rbf (A:=FloatA) 1%float in
  match mb_fit K (Some 2%Z) mb_new X with
  | (s', Ok _) =>
    match mb_compare K (Some 2%Z) s' Y, mb_statistic K (Some 2%Z) X Y with
    | Ok a, Ok b => PrimFloat.eqb a b (* false on nan *)
    | _, _ => false
    end
  | _ => false
  end = true.
Proof. vm_compute. reflexivity. Qed.
