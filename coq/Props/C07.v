(** C07 — CUSUM, Page-Hinkley and geometric moving average follow their recurrences. *)
From Coq Require Import ZArith List Bool Reals.
From FV Require Import NumSys RealA Py Sums Stats Detector Cusum StatsR CusumR Structural.
Import ListNotations.
Local Open Scope R_scope.

(** After any stream [vs] the statistic equals the property's recurrence [g_spec]
    (defined over the batch running mean m_t = (x_1+...+x_t)/t, g_0 = 0), and drift is
    reported exactly when t >= min_num_instances and g_t > lambda_.  Quantifying over all
    [vs] gives the statement at every step. *)
Theorem C07_recurrence : forall (c : cusum_cfg RealA) (vs : list R),
  cs_sum (crun c vs) = g_spec c (rev vs) /\
  cs_n (crun c vs) = Z.of_nat (length vs) /\
  (vs <> [] -> (cs_drift (crun c vs) = true <->
                (ck_min c <= Z.of_nat (length vs))%Z /\ ck_lambda c < g_spec c (rev vs))).
Proof. exact cusum_recurrence. Qed.
Print Assumptions C07_recurrence.

Theorem C07_shift_invariant : forall (c : cusum_cfg RealA) (k : R) (vs : list R),
  cs_sum (crun c (map (fun x => x + k) vs)) = cs_sum (crun c vs) /\
  cs_drift (crun c (map (fun x => x + k) vs)) = cs_drift (crun c vs).
Proof. exact cusum_shift_invariant. Qed.
Print Assumptions C07_shift_invariant.

Theorem C07_lambda_antitone : forall (c : cusum_cfg RealA) (l l' : R) (vs : list R), l <= l' ->
  cs_sum (crun (with_lambda c l') vs) = cs_sum (crun (with_lambda c l) vs) /\
  (cs_drift (crun (with_lambda c l') vs) = true -> cs_drift (crun (with_lambda c l) vs) = true).
Proof. exact cusum_lambda_antitone. Qed.
Print Assumptions C07_lambda_antitone.

(** [crun] is the Detector-level execution on an update-only history. *)
Theorem C07_crun_is_exec : forall c vs, exec (CusumD RealA) c (map Upd vs) = crun c vs.
Proof. exact crun_exec. Qed.

(** for every number system: silent during warm-up, and the flag is recomputed at every
    step (it is a function of the current statistic only: no latch) *)
Theorem C07_warmup_and_no_latch : forall (A : Arith) (c : cusum_cfg A),
  (forall ops, (updates_since_reset (CusumD A) ops < ck_min c)%Z -> cs_drift (exec (CusumD A) c ops) = false) /\
  (forall s v, cs_drift (cusum_step c s v) =
               ((ck_min c <=? cs_n s + 1)%Z && ltb (ck_lambda c) (cs_sum (cusum_step c s v)))).
Proof. intros A c. split; [intros ops H; apply (cusum_warmup A c ops H) | reflexivity]. Qed.
Print Assumptions C07_warmup_and_no_latch.

(** non-vacuity: a stream on which CUSUM does alarm, exactly from step [min] on *)
Example C07_nonvacuous :
  let c := {| ck_kind := KCusum; ck_min := 3; ck_lambda := 1; ck_delta := 0; ck_alpha := 0 |} : cusum_cfg RealA in
  exists vs, cs_drift (crun c vs) = true.
Proof.
  exists [0; 0; 9]. apply (proj2 (proj2 (cusum_recurrence _ [0;0;9]))); [discriminate|].
  split; [cbn; Lia.lia|]. cbn. unfold Rmean, Rsum; cbn.
  unfold Rmax. repeat (destruct (Rle_dec _ _)); cbn in *; Lra.lra.
Qed.
