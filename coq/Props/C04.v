(** C04 — HDDM-A and HDDM-W report drift (warning) at step t exactly when the mean (resp.
    EWMA) of the values since the running cut point exceeds the one up to it by at least the
    Hoeffding (resp. McDiarmid) bound at confidence alpha_d (alpha_w); two-sided: the mirrored
    test detects decreases.
    Vocabulary (Proofs/HDDMR.v, Proofs/HDDMStep.v):
      [arun c vs] / [wrun c vs]      the detector state after the update-only stream [vs];
      [awin c ops]                   the values fed since the last restart (construction,
                                     reset, or drift step) of the A-test after history [ops];
      [ax c s v], [ay c s v], [az s v]  the cut samples x, y and the total sample z of the
                                     A-test after feeding [v] in state [s] (before the verdict);
      [cut_of m]                     number of values of the Mean [m] (position of the cut);
      [wtrack c ops]                 W-test state + values since the last restart + positions
                                     of the last moves of the increase / decrease cut points;
      [EW lam l], [IBC lam n]        EWMA of [l] (weights lam (1-lam)^age, start 0) and the
                                     independent bound condition after n updates.
    Theorems over [A : Arith] hold for every number system (binary64 included); those over
    [RealA] are about the real-number semantics. *)
From Coq Require Import ZArith List Bool Reals Lra.
From FV Require Import NumSys RealA Py Sums Stats Detector HDDM StatsR Structural HDDMR HDDMStep.
Import ListNotations.
Local Open Scope R_scope.

(** * HDDM-A: what the three samples are *)

(** Every history of updates and resets, every number system: z is the Mean fed exactly the
    values W since the last restart; x (and y when two-sided) is empty only when W is, and
    otherwise the Mean fed a non-empty prefix of W: the values up to the running cut point. *)
Theorem C04_hddma_state_meaning : forall (A : Arith) (c : hddma_cfg A) (ops : list (op (num A))),
  let s := exec (HDDMAD A) c ops in let W := awin c ops in
  hz s = mean_run W /\
  ((W = [] /\ hx s = mean_init) \/
   exists k, (1 <= k <= length W)%nat /\ hx s = mean_run (firstn k W)) /\
  (if ha_two c then
     (W = [] /\ hy s = mean_init) \/
     exists k, (1 <= k <= length W)%nat /\ hy s = mean_run (firstn k W)
   else hy s = mean_init).
Proof. intros A c ops. exact (proj2 (hddma_state_meaning c ops)). Qed.
Print Assumptions C04_hddma_state_meaning.

(** ... where the window W is emptied by a reset or a drift step and otherwise grows by the
    value fed. *)
Theorem C04_awin_spec : forall (A : Arith) (c : hddma_cfg A) (ops : list (op (num A))) (o : op (num A)),
  awin c [] = [] /\
  awin c (ops ++ [o]) =
    match o with
    | Rst => []
    | Upd v => if hdrift (exec (HDDMAD A) c (ops ++ [Upd v])) then [] else awin c ops ++ [v]
    end.
Proof. intros A c ops o. split; [reflexivity | exact (awin_snoc c ops o)]. Qed.

(** Over the reals the Means are batch means: z.n = |W|, z.mean = sum W / |W|; x.n = k,
    x.mean = mean of the first k values of W. *)
Theorem C04_hddma_state_meaning_R : forall (c : hddma_cfg RealA) (ops : list (op R)),
  let s := exec (HDDMAD RealA) c ops in let W := awin c ops in
  m_n (hz s) = Z.of_nat (length W) /\ (W <> [] -> m_mean (hz s) = Rsum W / INR (length W)) /\
  is_prefix_mean W (hx s) /\
  (if ha_two c then is_prefix_mean W (hy s) else hy s = mean_init).
Proof. exact hddma_state_meaning_R. Qed.
Print Assumptions C04_hddma_state_meaning_R.

(** * HDDM-A: the verdict of every step *)

(** Every number system: drift at the step iff t >= min_num_instances and the case analysis
    on the freshly updated samples says drift; warning iff it says warning and not drift. *)
Theorem C04_hddma_verdict : forall (A : Arith) (c : hddma_cfg A) (vs : list (num A)) (v : num A),
  let s := arun c vs in
  (hdrift (arun c (vs ++ [v])) = true <->
   (ha_min c <= Z.of_nat (length (vs ++ [v])))%Z /\ a_drift c (ax c s v) (ay c s v) (az s v) = true) /\
  (hwarning (arun c (vs ++ [v])) = true <->
   (ha_min c <= Z.of_nat (length (vs ++ [v])))%Z /\ a_drift c (ax c s v) (ay c s v) (az s v) = false /\
   a_warn c (ax c s v) (ay c s v) (az s v) = true).
Proof. intros A. exact hddma_verdict. Qed.
Print Assumptions C04_hddma_verdict.

(** the case analysis: the increase side fires iff the cut sample is not the whole sample
    and z.mean - x.mean >= threshold(alpha_d); two-sided: or the mirrored check on y. *)
Theorem C04_a_drift_spec : forall (A : Arith) (c : hddma_cfg A) (x y z : mean_st A),
  a_drift c x y z = true <->
  (m_n x <> m_n z /\ check_incr x z (ha_alpha_d c) = true) \/
  (ha_two c = true /\ m_n y <> m_n z /\ check_decr y z (ha_alpha_d c) = true).
Proof. intros A. exact a_drift_spec. Qed.
Theorem C04_a_warn_spec : forall (A : Arith) (c : hddma_cfg A) (x y z : mean_st A),
  a_warn c x y z = true <->
  (m_n x <> m_n z /\ check_incr x z (ha_alpha_d c) = false /\ check_incr x z (ha_alpha_w c) = true) \/
  (ha_two c = true /\ m_n y <> m_n z /\ check_decr y z (ha_alpha_d c) = false /\
   check_decr y z (ha_alpha_w c) = true).
Proof. intros A. exact a_warn_spec. Qed.

(** the code's threshold test is the two-sample Hoeffding bound of Frias-Blanco et al. on
    the mean up to the cut (n1 values) and the mean ybar of the n2 values after it *)
Theorem C04_hddma_rule : forall (x z : mean_st RealA) (alpha : R),
  (0 < m_n x)%Z -> (m_n x < m_n z)%Z -> 0 < alpha <= 1 ->
  let n1 := IZR (m_n x) in let n := IZR (m_n z) in let n2 := (n - n1)%R in
  let ybar := ((n * m_mean z - n1 * m_mean x) / n2)%R in
  (check_incr x z alpha = true <->
   (sqrt ((1 / n1 + 1 / n2) / 2 * ln (1 / alpha)) <= ybar - m_mean x)%R).
Proof. exact hddma_rule. Qed.
Print Assumptions C04_hddma_rule.
Theorem C04_hddma_rule_decr : forall (y z : mean_st RealA) (alpha : R),
  (0 < m_n y)%Z -> (m_n y < m_n z)%Z -> 0 < alpha <= 1 ->
  let n1 := IZR (m_n y) in let n := IZR (m_n z) in let n2 := (n - n1)%R in
  let rest := ((n * m_mean z - n1 * m_mean y) / n2)%R in
  (check_decr y z alpha = true <->
   (sqrt ((1 / n1 + 1 / n2) / 2 * ln (1 / alpha)) <= m_mean y - rest)%R).
Proof. exact hddma_rule_decr. Qed.

(** One-sided HDDM-A over the reals, 0 < alpha <= 1.  W: the values since the last drift,
    the new one included; k: the running cut point (x is the Mean of the first k values).
    Drift at step t iff t >= min_num_instances, values remain after the cut, and
      mean(values after the cut) - mean(values up to the cut)
        >= sqrt((1/k + 1/(|W|-k))/2 * ln(1/alpha_d));
    warning iff not so, but so with alpha_w. *)
Theorem C04_hddma_drift_hoeffding : forall (c : hddma_cfg RealA) (vs : list R) (v : R),
  ha_two c = false -> 0 < ha_alpha_d c <= 1 -> 0 < ha_alpha_w c <= 1 ->
  let s := arun c vs in let s' := arun c (vs ++ [v]) in
  let W := awin_run c vs ++ [v] in
  let k := cut_of (ax c s v) in
  let t := Z.of_nat (length (vs ++ [v])) in
  (1 <= k <= length W)%nat /\ ax c s v = mean_run (A:=RealA) (firstn k W) /\
  (hdrift s' = true <->
   (ha_min c <= t)%Z /\ (k < length W)%nat /\
   R_sqrt.sqrt ((1 / INR k + 1 / INR (length W - k)) / 2 * Rpower.ln (1 / ha_alpha_d c))
     <= Rmean (skipn k W) - Rmean (firstn k W)) /\
  (hwarning s' = true <->
   (ha_min c <= t)%Z /\ ~ incr_sep (ha_alpha_d c) W k /\ incr_sep (ha_alpha_w c) W k).
Proof. exact hddma_drift_hoeffding. Qed.
Print Assumptions C04_hddma_drift_hoeffding.

(** One- or two-sided, after any history with resets: additionally the decrease side,
    mean(up to the cut ky) - mean(after it) >= the bound for that cut. *)
Theorem C04_hddma_drift_hoeffding_ops : forall (c : hddma_cfg RealA) (ops : list (op R)) (v : R),
  0 < ha_alpha_d c <= 1 -> 0 < ha_alpha_w c <= 1 ->
  let s := exec (HDDMAD RealA) c ops in
  let s' := exec (HDDMAD RealA) c (ops ++ [Upd v]) in
  let W := awin c ops ++ [v] in
  let kx := cut_of (ax c s v) in let ky := cut_of (ay c s v) in
  let t := (updates_since_reset (HDDMAD RealA) ops + 1)%Z in
  ((1 <= kx <= length W)%nat /\ ax c s v = mean_run (A:=RealA) (firstn kx W)) /\
  (ha_two c = true -> (1 <= ky <= length W)%nat /\ ay c s v = mean_run (A:=RealA) (firstn ky W)) /\
  (hdrift s' = true <->
   (ha_min c <= t)%Z /\
   (incr_sep (ha_alpha_d c) W kx \/ (ha_two c = true /\ decr_sep (ha_alpha_d c) W ky))) /\
  (hwarning s' = true <->
   (ha_min c <= t)%Z /\
   ~ (incr_sep (ha_alpha_d c) W kx \/ (ha_two c = true /\ decr_sep (ha_alpha_d c) W ky)) /\
   (incr_sep (ha_alpha_w c) W kx \/ (ha_two c = true /\ decr_sep (ha_alpha_w c) W ky))).
Proof. exact hddma_drift_hoeffding_ops. Qed.
Print Assumptions C04_hddma_drift_hoeffding_ops.

(** [incr_sep] / [decr_sep] are exactly the displayed inequalities *)
Theorem C04_sep_unfold : forall (alpha : R) (W : list R) (k : nat),
  (incr_sep alpha W k <->
   (k < length W)%nat /\
   R_sqrt.sqrt ((1 / INR k + 1 / INR (length W - k)) / 2 * Rpower.ln (1 / alpha))
     <= Rmean (skipn k W) - Rmean (firstn k W)) /\
  (decr_sep alpha W k <->
   (k < length W)%nat /\
   R_sqrt.sqrt ((1 / INR k + 1 / INR (length W - k)) / 2 * Rpower.ln (1 / alpha))
     <= Rmean (firstn k W) - Rmean (skipn k W)).
Proof. intros alpha W k. split; reflexivity. Qed.

(** * HDDM-W *)

(** Every history, every number system.  W: values since the last restart; the total sample
    is the SampleInfo fed W; the increase samples are the SampleInfo fed the first ki values
    (the total at the last move of the increase cut point) and the one fed the values after
    them; likewise the decrease samples with kd when two-sided. *)
Theorem C04_hddmw_state_meaning : forall (A : Arith) (c : hddmw_cfg A) (ops : list (op (num A))),
  let tr := wtrack c ops in let s := exec (HDDMWD A) c ops in
  let W := wt_W tr in let lam := hw_lambda c in
  wt_s tr = s /\
  wtotal s = sirun lam W /\
  ((wt_ki tr <= length W)%nat /\ (W <> [] -> (1 <= wt_ki tr)%nat) /\
   winc1 s = sirun lam (firstn (wt_ki tr) W) /\ winc2 s = sirun lam (skipn (wt_ki tr) W)) /\
  (if hw_two c then
     (wt_kd tr <= length W)%nat /\ (W <> [] -> (1 <= wt_kd tr)%nat) /\
     wdec1 s = sirun lam (firstn (wt_kd tr) W) /\ wdec2 s = sirun lam (skipn (wt_kd tr) W)
   else wdec1 s = si_init /\ wdec2 s = si_init /\ wt_kd tr = 0%nat).
Proof.
  intros A c ops. destruct (hddmw_state_meaning c ops) as (Es & Ht & _ & Hi & Hd).
  cbv zeta. rewrite <- Es. exact (conj eq_refl (conj Ht (conj Hi Hd))).
Qed.
Print Assumptions C04_hddmw_state_meaning.

(** the bookkeeping of [wtrack]: one [wtrack_step] per operation (reset and drift empty the
    window; a cut point that moves is placed after the value just fed) *)
Theorem C04_wtrack_spec : forall (A : Arith) (c : hddmw_cfg A) (ops : list (op (num A))) (o : op (num A)),
  wtrack c [] = wtr_init c /\ wtrack c (ops ++ [o]) = wtrack_step c (wtrack c ops) o.
Proof. intros A c ops o. split; [reflexivity | exact (wtrack_snoc c ops o)]. Qed.

(** Verdict of every step, every number system: drift iff t >= min_num_instances and the
    threshold check fires for alpha_d on the increase samples, or (two-sided) on the decrease
    samples; warning iff no drift and the same with alpha_w. *)
Theorem C04_hddmw_verdict : forall (A : Arith) (c : hddmw_cfg A) (vs : list (num A)) (v : num A),
  let s := wrun c vs in
  let i1 := wi1 c s v in let i2 := wi2 c s v in let d1 := wd1 c s v in let d2 := wd2 c s v in
  let t := Z.of_nat (length (vs ++ [v])) in
  (wdrift (wrun c (vs ++ [v])) = true <->
   (hw_min c <= t)%Z /\
   (mcd_check i1 i2 (hw_alpha_d c) = true \/ (hw_two c = true /\ mcd_check d2 d1 (hw_alpha_d c) = true))) /\
  (wwarning (wrun c (vs ++ [v])) = true <->
   (hw_min c <= t)%Z /\
   ~ (mcd_check i1 i2 (hw_alpha_d c) = true \/ (hw_two c = true /\ mcd_check d2 d1 (hw_alpha_d c) = true)) /\
   (mcd_check i1 i2 (hw_alpha_w c) = true \/ (hw_two c = true /\ mcd_check d2 d1 (hw_alpha_w c) = true))).
Proof. exact hddmw_verdict. Qed.
Print Assumptions C04_hddmw_verdict.

(** the threshold check is McDiarmid's bound *)
Theorem C04_mcd_check_R : forall (s1 s2 : sinfo RealA) (alpha : R),
  mcd_check s1 s2 alpha = true <->
  R_sqrt.sqrt ((si_ibc s1 + si_ibc s2) * Rpower.ln (1 / alpha) / 2) < si_mean s2 - si_mean s1.
Proof. exact mcd_check_R. Qed.

(** closed forms of the two recursions of a SampleInfo *)
Theorem C04_hddmw_ewma_closed : forall (lam : R) (vs : list R),
  si_mean (fold_left (si_update (A:=RealA) lam) vs si_init) = wsum (fun k => lam * (1 - lam) ^ k) vs.
Proof. exact hddmw_ewma_closed. Qed.
Theorem C04_hddmw_ibc_closed : forall (lam : R) (vs : list R),
  si_ibc (fold_left (si_update (A:=RealA) lam) vs si_init) =
  (lam * lam * sum_f_R0' (fun i => ((1 - lam) * (1 - lam)) ^ i) (length vs) + ((1 - lam) * (1 - lam)) ^ (length vs))%R.
Proof. exact hddmw_ibc_closed. Qed.
Print Assumptions C04_hddmw_ibc_closed.

(** Over the reals, with W the values since the last drift (new one included) and ki, kd the
    cut positions: drift iff t >= min and
      EWMA(W after ki) - EWMA(W up to ki) > sqrt((IBC(ki) + IBC(|W|-ki)) ln(1/alpha_d) / 2)
    or, two-sided, EWMA(W up to kd) - EWMA(W after kd) > the bound for kd. *)
Theorem C04_hddmw_drift_mcdiarmid : forall (c : hddmw_cfg RealA) (vs : list R) (v : R),
  let tr := wwin_run c vs in
  let s := wrun c vs in let s' := wrun c (vs ++ [v]) in
  let W := wt_W tr ++ [v] in
  let ki := if inc_moves c s v then length W else wt_ki tr in
  let kd := if dec_moves c s v then length W else wt_kd tr in
  let lam := hw_lambda c in
  let t := Z.of_nat (length (vs ++ [v])) in
  let drift_cond := mcd_sep lam (hw_alpha_d c) (firstn ki W) (skipn ki W) \/
                    (hw_two c = true /\ mcd_sep lam (hw_alpha_d c) (skipn kd W) (firstn kd W)) in
  let warn_cond := mcd_sep lam (hw_alpha_w c) (firstn ki W) (skipn ki W) \/
                   (hw_two c = true /\ mcd_sep lam (hw_alpha_w c) (skipn kd W) (firstn kd W)) in
  (1 <= ki <= length W)%nat /\ (hw_two c = true -> (1 <= kd <= length W)%nat) /\
  (wdrift s' = true <-> (hw_min c <= t)%Z /\ drift_cond) /\
  (wwarning s' = true <-> (hw_min c <= t)%Z /\ ~ drift_cond /\ warn_cond).
Proof. exact hddmw_drift_mcdiarmid. Qed.
Print Assumptions C04_hddmw_drift_mcdiarmid.

Theorem C04_mcd_sep_unfold : forall (lam alpha : R) (L1 L2 : list R),
  mcd_sep lam alpha L1 L2 <->
  R_sqrt.sqrt ((IBC lam (length L1) + IBC lam (length L2)) * Rpower.ln (1 / alpha) / 2) < EW lam L2 - EW lam L1.
Proof. intros. reflexivity. Qed.

(** the runs are the Detector-level executions on update-only histories *)
Theorem C04_runs_are_exec : forall (A : Arith),
  (forall (c : hddma_cfg A) vs, arun c vs = exec (HDDMAD A) c (map Upd vs)) /\
  (forall (c : hddmw_cfg A) vs, wrun c vs = exec (HDDMWD A) c (map Upd vs)).
Proof. intros A. split; [exact arun_exec | exact wrun_exec]. Qed.

(** * two_sided_test = True *)

(** up to the first two-sided alarm, every one-sided alarm is a two-sided alarm
    (every number system) *)
Theorem C04_hddma_two_sided_extends : forall (A : Arith) (c : hddma_cfg A) (vs : list (num A)),
  no_alarm_before_a c vs ->
  hdrift (arun (one_sided_a c) vs) = true -> hdrift (arun (two_sided_a c) vs) = true.
Proof. exact hddma_two_sided_extends. Qed.
Print Assumptions C04_hddma_two_sided_extends.
Theorem C04_hddmw_two_sided_extends : forall (A : Arith) (c : hddmw_cfg A) (vs : list (num A)),
  no_alarm_before_w c vs ->
  wdrift (wrun (one_sided_w c) vs) = true -> wdrift (wrun (two_sided_w c) vs) = true.
Proof. exact hddmw_two_sided_extends. Qed.
Print Assumptions C04_hddmw_two_sided_extends.

(** HDDM-A's two-sided verdicts are unchanged when every value x is replaced by 1-x *)
Theorem C04_hddma_mirror : forall (c : hddma_cfg RealA) (vs : list R), ha_two c = true ->
  hdrift (arun c (map (fun x => 1 - x) vs)) = hdrift (arun c vs) /\
  hwarning (arun c (map (fun x => 1 - x) vs)) = hwarning (arun c vs).
Proof. exact hddma_mirror. Qed.
Print Assumptions C04_hddma_mirror.

(** a sustained drop 1^n 0^k gets, step for step, the verdicts of the rise 0^n 1^k ... *)
Theorem C04_hddma_drop_as_rise : forall (c : hddma_cfg RealA) (n k : nat), ha_two c = true ->
  hdrift (arun c (repeat 1 n ++ repeat 0 k)) = hdrift (arun c (repeat 0 n ++ repeat 1 k)) /\
  hwarning (arun c (repeat 1 n ++ repeat 0 k)) = hwarning (arun c (repeat 0 n ++ repeat 1 k)).
Proof. exact hddma_drop_as_rise. Qed.

(** ... a sustained rise is detected (one- or two-sided) as soon as the Hoeffding bound for
    n zeros against k ones is at most 1 ... *)
Theorem C04_hddma_rise_detected : forall (c : hddma_cfg RealA) (n k : nat),
  0 < ha_alpha_d c <= 1 -> (1 <= n)%nat -> (1 <= k)%nat ->
  (1 / INR n + 1 / INR k) / 2 * ln (1 / ha_alpha_d c) <= 1 ->
  (ha_min c <= Z.of_nat (n + k))%Z ->
  exists j, (j <= n + k)%nat /\ hdrift (arun c (firstn j (repeat 0 n ++ repeat 1 k))) = true.
Proof. exact hddma_rise_detected. Qed.
Print Assumptions C04_hddma_rise_detected.

(** ... and so is, by the two-sided test, the sustained drop, within the same bound. *)
Theorem C04_hddma_drop_detected : forall (c : hddma_cfg RealA) (n k : nat), ha_two c = true ->
  0 < ha_alpha_d c <= 1 -> (1 <= n)%nat -> (1 <= k)%nat ->
  (1 / INR n + 1 / INR k) / 2 * ln (1 / ha_alpha_d c) <= 1 ->
  (ha_min c <= Z.of_nat (n + k))%Z ->
  exists j, (j <= n + k)%nat /\ hdrift (arun c (firstn j (repeat 1 n ++ repeat 0 k))) = true.
Proof. exact hddma_drop_detected. Qed.
Print Assumptions C04_hddma_drop_detected.

(** HDDM-W: the two-sided test is symmetric under x -> -x (NOT under x -> 1-x, see the
    counterexample below: the EWMA starts at 0) *)
Theorem C04_hddmw_mirror_neg_partial : forall (c : hddmw_cfg RealA) (vs : list R), hw_two c = true ->
  wdrift (wrun c (map Ropp vs)) = wdrift (wrun c vs) /\
  wwarning (wrun c (map Ropp vs)) = wwarning (wrun c vs).
Proof. exact hddmw_mirror_neg. Qed.
Print Assumptions C04_hddmw_mirror_neg_partial.
Theorem C04_hddmw_drop_as_rise_partial : forall (c : hddmw_cfg RealA) (n k : nat), hw_two c = true ->
  wdrift (wrun c (repeat 0 n ++ repeat (-1) k)) = wdrift (wrun c (repeat 0 n ++ repeat 1 k)) /\
  wwarning (wrun c (repeat 0 n ++ repeat (-1) k)) = wwarning (wrun c (repeat 0 n ++ repeat 1 k)).
Proof. exact hddmw_drop_as_rise_partial. Qed.
(* FULL (not proved): a delay bound for HDDM-W on 0^n 1^k / 1^n 0^k (analogue of
   C04_hddma_rise_detected / C04_hddma_drop_detected); the x -> 1-x mirror statement for
   HDDM-W is false, see C04_hddmw_no_1mx_mirror. *)

(** * Non-vacuity *)

(** the hypotheses of the drop theorem are satisfiable: alpha_d = 1, stream 1,0 *)
Example C04_drop_detected_instance :
  let c := {| ha_alpha_d := 1; ha_alpha_w := 1; ha_two := true; ha_min := 2 |} : hddma_cfg RealA in
  exists j, (j <= 2)%nat /\ hdrift (arun c (firstn j [1; 0])) = true.
Proof.
  intros c. apply (C04_hddma_drop_detected c 1 1); cbn [ha_two ha_alpha_d ha_min c]; try reflexivity;
    try lra; try apply Nat.le_refl; try (cbn; discriminate).
  change (@ln RealA) with Rpower.ln. change (INR 1) with 1. replace (1 / 1) with 1 by lra. rewrite ln_1. lra.
Qed.

From Coq Require Import PrimFloat.
From FV Require Import FloatA.

(** binary64, default parameters (alpha_d = 0.001, alpha_w = 0.005, min_num_instances = 30),
    stream 1^30 0^30: the two-sided A-test raises drift at step 34 (warning at step 33), by
    its decrease side only; the one-sided test never does. *)
Example C04_hddma_two_sided_drop_nonvacuous :
  let c2 := {| ha_alpha_d := 0x1.0624dd2f1a9fcp-10%float; ha_alpha_w := 0x1.47ae147ae147bp-8%float;
               ha_two := true; ha_min := 30 |} : hddma_cfg FloatA in
  let drop := repeat 1%float 30 ++ repeat 0%float 30 in
  let s := arun c2 (firstn 33 drop) in
  hdrift (arun c2 (firstn 34 drop)) = true /\ hwarning s = true /\ hdrift s = false /\
  fst (side_d c2 (ay c2 s 0%float) (az s 0%float)) = true /\
  fst (side_i c2 (ax c2 s 0%float) (az s 0%float)) = false /\
  forallb (fun j => negb (hdrift (arun (one_sided_a c2) (firstn j drop)))) (seq 0 61) = true.
Proof. vm_compute. repeat split; reflexivity. Qed.

(** binary64, HDDM-W defaults (lambda = 0.05), two-sided: the drop 1^30 0^30 is reported at
    step 55, its mirror image under x -> 1-x (the rise 0^30 1^30) only at step 57: the
    W-test is not symmetric under x -> 1-x. *)
Example C04_hddmw_no_1mx_mirror :
  let c2 := {| hw_alpha_d := 0x1.0624dd2f1a9fcp-10%float; hw_alpha_w := 0x1.47ae147ae147bp-8%float;
               hw_two := true; hw_lambda := 0x1.999999999999ap-5%float; hw_min := 30 |} : hddmw_cfg FloatA in
  let drop := repeat 1%float 30 ++ repeat 0%float 30 in
  let rise := map (fun x => (1 - x)%float) drop in
  wdrift (wrun c2 (firstn 55 drop)) = true /\ wdrift (wrun c2 (firstn 55 rise)) = false /\
  wdrift (wrun c2 (firstn 57 rise)) = true /\
  forallb (fun j => negb (wdrift (wrun c2 (firstn j rise)))) (seq 0 57) = true.
Proof. vm_compute. repeat split; reflexivity. Qed.
