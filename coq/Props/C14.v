(** C14 — Batch detectors: compare is pure, misuse is rejected, reset unfits.
    Property theorems only; the model is Model/Batch.v, the proofs are in Proofs/BatchR.v.

    Everything below holds for ALL 19 classes unless a class predicate restricts it, for EVERY
    state / operation history, and for EVERY behaviour of NumPy/SciPy: the library calls
    (lib_cmp, lib_fit_fails, lib_sort, lib_stack) are universally quantified. *)
From Coq Require Import List Bool Arith Permutation.
From FV Require Import Py Batch BatchR.
Import ListNotations.

Section C14.
  Variables (P Prm V : Type).
  Variable lib_cmp : cfg Prm -> arr P -> option (arr P) -> arr P -> V.
  Variable lib_fit_fails : cfg Prm -> arr P -> bool.
  Variable lib_sort : arr P -> arr P.
  Variable lib_stack : list (arr P) -> option (arr P).
  Local Notation step := (step P Prm V lib_cmp lib_fit_fails lib_sort lib_stack).
  Local Notation exec := (exec P Prm V lib_cmp lib_fit_fails lib_sort lib_stack).
  Local Notation outs := (outs P Prm V lib_cmp lib_fit_fails lib_sort lib_stack).

  (** compare leaves the whole detector state (reference included) as it was, whether it returns or raises. *)
  Theorem C14_compare_pure : forall c s X, fst (step c s (Cmp X)) = s.
  Proof. exact (compare_pure P Prm V lib_cmp lib_fit_fails lib_sort lib_stack). Qed.

  (** ... hence, in any history, deleting all compare calls changes neither the final state nor the
      outcome of any other call. *)
  Theorem C14_compare_erasable : forall c ops s,
    exec c s (filter (not_cmp P) ops) = exec c s ops /\
    outs c s (filter (not_cmp P) ops) = pick_nc P V ops (outs c s ops).
  Proof. exact (compare_erasable P Prm V lib_cmp lib_fit_fails lib_sort lib_stack). Qed.

  (** The outcome of compare is [cmp_of_ref c r X]: a function of the parameters, the stored reference and the
      test sample only -- for every history in which no fit call died inside the library after X_ref had
      already been assigned (only MMD / streaming MMD can do that: see C14_mmd_failed_fit_not_atomic). *)
  Theorem C14_compare_functional : forall c ops r X,
    fit_lib_clean P Prm V lib_cmp lib_fit_fails lib_sort lib_stack c init ops ->
    eff_ref P Prm c (exec c init ops) = Some r ->
    snd (step c (exec c init ops) (Cmp X)) = cmp_of_ref P Prm V lib_cmp c r X.
  Proof. exact (compare_functional P Prm V lib_cmp lib_fit_fails lib_sort lib_stack). Qed.

  (** ... unconditionally for the 17 classes without a kernel precomputation. *)
  Theorem C14_compare_functional_no_kernel : forall c ops r X, uses_kernel (c_cls Prm c) = false ->
    eff_ref P Prm c (exec c init ops) = Some r ->
    snd (step c (exec c init ops) (Cmp X)) = cmp_of_ref P Prm V lib_cmp c r X.
  Proof. exact (compare_functional_no_kernel P Prm V lib_cmp lib_fit_fails lib_sort lib_stack). Qed.

  (** The reference compare works against is the argument of the last fit call that returned (np.sort of it
      for the streaming KS test); compare and update never replace it; reset clears it. *)
  Theorem C14_reference_is_last_fit : forall c s,
    (forall X, snd (step c s (Fit X)) = Ok ONone ->
       eff_ref P Prm c (fst (step c s (Fit X))) =
         Some (match d_family (describe (c_cls Prm c)) with FIKS => lib_sort X | _ => X end)) /\
    (forall o, is_fit P o = false -> o <> Rst -> eff_ref P Prm c (fst (step c s o)) = eff_ref P Prm c s) /\
    eff_ref P Prm c (fst (step c s Rst)) = None.
  Proof.
    intros c s. split; [|split].
    - intros X. exact (fit_sets_reference P Prm V lib_cmp lib_fit_fails lib_sort lib_stack c s X).
    - intros o. exact (reference_changes_only_by_fit_reset P Prm V lib_cmp lib_fit_fails lib_sort lib_stack c s o).
    - exact (reset_clears_reference P Prm V lib_cmp lib_fit_fails lib_sort lib_stack c s).
  Qed.

  (** Repeating a compare call gives the same outcome and state. *)
  Theorem C14_compare_repeatable : forall c s X, step c (fst (step c s (Cmp X))) (Cmp X) = step c s (Cmp X).
  Proof. exact (compare_repeatable P Prm V lib_cmp lib_fit_fails lib_sort lib_stack). Qed.

  (** Any reordering of a block of compare calls gives each call the same outcome and leaves the state alone. *)
  Theorem C14_compare_commute : forall c s cmps cmps',
    Forall (fun o => is_cmp P o = true) cmps -> Permutation cmps cmps' ->
    exec c s cmps = s /\ exec c s cmps' = s /\
    Permutation (combine cmps (outs c s cmps)) (combine cmps' (outs c s cmps')).
  Proof. exact (compare_any_order P Prm V lib_cmp lib_fit_fails lib_sort lib_stack). Qed.

  (** compare / update on an unfitted detector raise MissingFitError and change nothing. *)
  Theorem C14_needs_fit : forall c s X v, unfitted P Prm c s ->
    (has_compare (c_cls Prm c) = true -> step c s (Cmp X) = (s, Raise MissingFitError)) /\
    (has_update (c_cls Prm c) = true -> step c s (Upd v) = (s, Raise MissingFitError)).
  Proof.
    intros c s X v H. split; intros Hc.
    - exact (needs_fit_cmp P Prm V lib_cmp lib_fit_fails lib_sort lib_stack c s X H Hc).
    - exact (needs_fit_upd P Prm V lib_cmp lib_fit_fails lib_sort lib_stack c s v H Hc).
  Qed.

  (** ... and a detector IS unfitted after any history whose fit calls since construction (resp. since the
      last reset) were all rejected by one of the detector's own checks. *)
  Theorem C14_needs_fit_history : forall c ops1 ops2 X v,
    (no_effective_fit P Prm V lib_cmp lib_fit_fails lib_sort lib_stack c init ops2 ->
       let s := exec c init ops2 in
       (has_compare (c_cls Prm c) = true -> step c s (Cmp X) = (s, Raise MissingFitError)) /\
       (has_update (c_cls Prm c) = true -> step c s (Upd v) = (s, Raise MissingFitError))) /\
    (no_effective_fit P Prm V lib_cmp lib_fit_fails lib_sort lib_stack c (fst (step c (exec c init ops1) Rst)) ops2 ->
       let s := exec c init (ops1 ++ Rst :: ops2) in
       (has_compare (c_cls Prm c) = true -> step c s (Cmp X) = (s, Raise MissingFitError)) /\
       (has_update (c_cls Prm c) = true -> step c s (Upd v) = (s, Raise MissingFitError))).
  Proof.
    intros c ops1 ops2 X v. split.
    - exact (needs_fit_fresh P Prm V lib_cmp lib_fit_fails lib_sort lib_stack c ops2 X v).
    - exact (needs_fit_hist P Prm V lib_cmp lib_fit_fails lib_sort lib_stack c ops1 ops2 X v).
  Qed.

  (** A fit call rejected by a check of the detector leaves the state as it was. *)
  Theorem C14_rejected_fit_keeps_state : forall c s X e,
    snd (step c s (Fit X)) = Raise e -> e <> OtherError -> fst (step c s (Fit X)) = s.
  Proof. exact (failed_fit_keeps_state P Prm V lib_cmp lib_fit_fails lib_sort lib_stack). Qed.

  (** reset: the detector is unfitted afterwards (so C14_needs_fit applies) ... *)
  Theorem C14_reset_unfits : forall c s, unfitted P Prm c (fst (step c s Rst)) /\ snd (step c s Rst) = Ok ONone.
  Proof. exact (reset_unfits P Prm V lib_cmp lib_fit_fails lib_sort lib_stack). Qed.

  (** ... and for the 17 classes without kernel state it is, after any history, exactly the state of a new object. *)
  Theorem C14_reset_is_fresh : forall c ops, uses_kernel (c_cls Prm c) = false ->
    fst (step c (exec c init ops) Rst) = init.
  Proof. exact (reset_is_fresh P Prm V lib_cmp lib_fit_fails lib_sort lib_stack). Qed.

  (** ... and for all 19 classes it is the state of a new object in everything but the kernel term
      (MMD._expected_k_xx of the detector, resp. of the wrapped batch MMD), which reset() leaves behind. *)
  Theorem C14_reset_is_fresh_up_to_kernel_term : forall c ops,
    forget_aux P (fst (step c (exec c init ops) Rst)) = init.
  Proof. exact (reset_is_fresh_up_to_kernel_term P Prm V lib_cmp lib_fit_fails lib_sort lib_stack). Qed.
  (* FULL for MMD / streaming MMD: state = init.  Not true of the code (the stale _expected_k_xx stays); it is
     dead until the next successful fit overwrites it, which is not proved as an observational equivalence. *)

  (** Dimension mismatch at compare: EVERY class with a compare method (all 17 batch classes, CVMTest included,
      and the streaming MMD), after ANY history, for ANY number of axes: a test sample exposing .shape whose
      dimensionality (number of axes, extent of every axis but the first) differs from the reference's raises
      MismatchDimensionError and changes nothing. *)
  Theorem C14_dim_mismatch : forall c ops r X, has_compare (c_cls Prm c) = true ->
    let s := exec c init ops in
    eff_ref P Prm c s = Some r -> a_attr P X = true -> same_dims P r X = false ->
    step c s (Cmp X) = (s, Raise MismatchDimensionError).
  Proof. exact (dim_mismatch P Prm V lib_cmp lib_fit_fails lib_sort lib_stack). Qed.

  (** Univariate classes (all but MMD / streaming MMD) reject at fit, with DimensionError and no change of
      state, every input with more than one value per row -- whatever the number of axes. *)
  Theorem C14_univariate_rejects_multicolumn : forall c s X,
    univariate (c_cls Prm c) = true -> a_attr P X = true -> multi_column P X = true ->
    step c s (Fit X) = (s, Raise DimensionError).
  Proof. exact (univariate_rejects_multicolumn P Prm V lib_cmp lib_fit_fails lib_sort lib_stack). Qed.

  (** Every class rejects inputs with more than two axes, and 0-d arrays / NumPy scalars, at fit. *)
  Theorem C14_bad_rank_rejected : forall c s X, a_attr P X = true -> (2 < ndim P X \/ a_shape P X = []) ->
    step c s (Fit X) = (s, Raise DimensionError).
  Proof.
    intros c s X HX [H|H].
    - exact (more_than_two_axes_rejected P Prm V lib_cmp lib_fit_fails lib_sort lib_stack c s X HX H).
    - exact (zero_dim_rejected P Prm V lib_cmp lib_fit_fails lib_sort lib_stack c s X HX H).
  Qed.

  (** Non-array input without a .shape attribute (list, tuple, None, Python number): fit raises (the
      AttributeError of reading X.ndim, not the TypeError of _check_array, which is never reached for such
      input), compare raises MissingFitError or AttributeError; the state is unchanged.  Every class. *)
  Theorem C14_non_array_rejected : forall c s X, a_attr P X = false ->
    step c s (Fit X) = (s, Raise AttributeError) /\
    fst (step c s (Cmp X)) = s /\
    (snd (step c s (Cmp X)) = Raise MissingFitError \/ snd (step c s (Cmp X)) = Raise AttributeError).
  Proof.
    intros c s X H. split.
    - exact (plain_rejected_fit P Prm V lib_cmp lib_fit_fails lib_sort lib_stack c s X H).
    - exact (plain_rejected_cmp P Prm V lib_cmp lib_fit_fails lib_sort lib_stack c s X H).
  Qed.

  (** Any non-ndarray at fit (also one that exposes .shape): rejected with the state unchanged by every class
      that stores X itself, CVMTest included (the streaming KS test stores np.sort(X), see next theorem). *)
  Theorem C14_non_ndarray_rejected_at_fit : forall c s X, a_nd P X = false ->
    c_cls Prm c <> IncrementalKSTest ->
    fst (step c s (Fit X)) = s /\
    exists e, snd (step c s (Fit X)) = Raise e /\ (e = AttributeError \/ e = DimensionError \/ e = TypeError).
  Proof. exact (non_ndarray_rejected_fit P Prm V lib_cmp lib_fit_fails lib_sort lib_stack). Qed.

  (** For all 19 classes and every history: whatever X_ref (and the wrapped MMD's X_ref) holds is an ndarray. *)
  Theorem C14_stored_reference_is_ndarray : forall c ops r,
    (s_ref P (exec c init ops) = Some r \/ s_iref P (exec c init ops) = Some r) -> a_nd P r = true.
  Proof. exact (stored_reference_is_ndarray P Prm V lib_cmp lib_fit_fails lib_sort lib_stack). Qed.

  (* ---------------------------------------------------------------- what the code does NOT guarantee *)
  Variables (p q : P) (prm : Prm).

  (** No class checks the TYPE of the test sample: a non-ndarray exposing .shape (a pandas Series would be one)
      passes compare's checks and reaches the library.  (Observation; lists, tuples, None and scalars are
      rejected: C14_non_array_rejected.) *)
  Theorem C14_non_array_cmp_refuted : forall k, has_compare k = true -> univariate k = true ->
    exists c r X, c_cls Prm c = k /\ a_nd P X = false /\
      snd (step c (exec c init [Fit r]) (Cmp X)) = Ok (OLib (lib_cmp c r None X)).
  Proof.
    intros k H1 H2. exists (mk Prm prm k), (nd P [6] p), (duck P [5] q). split; [reflexivity|].
    exact (non_array_cmp_witness P Prm V p q prm lib_cmp lib_fit_fails lib_sort lib_stack k H1 H2).
  Qed.

  (** MMD.fit assigns X_ref before the kernel computation: if that raises (an empty sample with chunk_size
      None does it), the detector keeps the new reference with the previous _expected_k_xx (here: none). *)
  Theorem C14_mmd_failed_fit_not_atomic : lib_fit_fails (mk Prm prm MMD) (nd P [0; 2] p) = true ->
    let c := mk Prm prm MMD in let X := nd P [0; 2] p in
    snd (step c init (Fit X)) = Raise OtherError /\ s_ref P (fst (step c init (Fit X))) = Some X /\
    s_aux P (fst (step c init (Fit X))) = None.
  Proof. exact (mmd_failed_fit_witness P Prm V p prm lib_cmp lib_fit_fails lib_sort lib_stack). Qed.

  (* ---------------------------------------------------------------- the chains before the repairs *)

  (** F24 (606a948): CVMTest's compare chain was [fitted; samples]: reference (6,), sample (6,2) passed. *)
  Example C14_before_606a948 :
    let r := nd P [6] p in let X := nd P [6; 2] q in
    run_checks P cvm_cmp_old (Some r) X = Ok tt /\
    run_checks P (d_cmp (describe CVMTest)) (Some r) X = Raise MismatchDimensionError.
  Proof. exact (old_cvm_cmp_witness P p q). Qed.

  (** a5ac796: CVMTest's fit chain was [fit dims; samples]: a non-ndarray exposing .shape was stored. *)
  Example C14_before_a5ac796 :
    let X := duck P [6] p in
    run_checks P cvm_fit_old None X = Ok tt /\ run_checks P (d_fit (describe CVMTest)) None X = Raise TypeError.
  Proof. exact (old_cvm_fit_witness P p). Qed.

  (** 7265f6c: _check_compare_dimensions compared axis 1 only: reference (6,1), sample (5,1,2) passed. *)
  Example C14_before_7265f6c :
    let r := nd P [6; 1] p in let X := nd P [5; 1; 2] q in
    chk_cmp_dims_axis1 P r X = Ok tt /\ chk_cmp_dims P (Some r) X = Raise MismatchDimensionError.
  Proof. exact (old_cmp_dims_witness P p q). Qed.

  (** 422d589: _check_fit_dimensions looked at axis 1 only: univariate classes accepted (6,1,2). *)
  Example C14_before_422d589 :
    let X := nd P [6; 1; 2] p in
    chk_fit_dims_axis1 P true X = Ok tt /\ chk_fit_dims P true X = Raise DimensionError.
  Proof. exact (old_fit_dims_witness P p). Qed.
End C14.

Print Assumptions C14_compare_pure.
Print Assumptions C14_compare_erasable.
Print Assumptions C14_compare_functional.
Print Assumptions C14_compare_functional_no_kernel.
Print Assumptions C14_reference_is_last_fit.
Print Assumptions C14_compare_repeatable.
Print Assumptions C14_compare_commute.
Print Assumptions C14_needs_fit.
Print Assumptions C14_needs_fit_history.
Print Assumptions C14_rejected_fit_keeps_state.
Print Assumptions C14_reset_unfits.
Print Assumptions C14_reset_is_fresh.
Print Assumptions C14_reset_is_fresh_up_to_kernel_term.
Print Assumptions C14_dim_mismatch.
Print Assumptions C14_univariate_rejects_multicolumn.
Print Assumptions C14_bad_rank_rejected.
Print Assumptions C14_non_array_rejected.
Print Assumptions C14_non_ndarray_rejected_at_fit.
Print Assumptions C14_stored_reference_is_ndarray.
Print Assumptions C14_non_array_cmp_refuted.
Print Assumptions C14_mmd_failed_fit_not_atomic.
Print Assumptions C14_before_606a948.
Print Assumptions C14_before_a5ac796.
Print Assumptions C14_before_7265f6c.
Print Assumptions C14_before_422d589.

(** Non-vacuity on a concrete instance: payload ids are numbers, the library result is the triple
    (reference id, id of the array the kernel term was computed from, test id). *)
Definition cmpN (c : cfg unit) (r : arr nat) (a : option (arr nat)) (X : arr nat) : nat * option nat * nat :=
  (a_id nat r, option_map (a_id nat) a, a_id nat X).
Definition failsN (c : cfg unit) (X : arr nat) : bool := match a_shape nat X with O :: _ => true | _ => false end.
Definition sortN (X : arr nat) : arr nat := nd nat (a_shape nat X) (100 + a_id nat X).
Definition stackN (l : list (arr nat)) : option (arr nat) := Some (nd nat [length l] 7).
Definition stepN := step nat unit _ cmpN failsN sortN stackN.
Definition execN := exec nat unit _ cmpN failsN sortN stackN.
Definition K (k : cls) : cfg unit := mk unit tt k.

(* a history with a successful MMD fit in which every premise of C14_compare_functional holds and compare
   returns a library value; compare on a mismatching sample raises; compare after reset raises *)
Example C14_nonvacuous :
  let ops := [Cmp (nd nat [5; 2] 1); Fit (nd nat [6; 2] 2); Cmp (nd nat [4; 2] 3); Upd (plain nat 9)] in
  fit_lib_clean nat unit _ cmpN failsN sortN stackN (K MMD) init ops /\
  eff_ref nat unit (K MMD) (execN (K MMD) init ops) = Some (nd nat [6; 2] 2) /\
  snd (stepN (K MMD) (execN (K MMD) init ops) (Cmp (nd nat [4; 2] 3))) = Ok (OLib (2, Some 2, 3)) /\
  snd (stepN (K MMD) (execN (K MMD) init ops) (Cmp (nd nat [4; 3] 3))) = Raise MismatchDimensionError /\
  snd (stepN (K MMD) (execN (K MMD) init (ops ++ [Rst])) (Cmp (nd nat [4; 2] 3))) = Raise MissingFitError /\
  snd (stepN (K KSTest) init (Fit (nd nat [6; 2] 2))) = Raise DimensionError /\
  snd (stepN (K KSTest) init (Fit (nd nat [6; 1; 2] 2))) = Raise DimensionError /\
  snd (stepN (K CVMTest) (execN (K CVMTest) init [Fit (nd nat [6] 2)]) (Cmp (nd nat [6; 2] 3))) = Raise MismatchDimensionError /\
  snd (stepN (K EMD) (execN (K EMD) init [Fit (nd nat [6; 1] 2)]) (Cmp (nd nat [5; 1; 2] 3))) = Raise MismatchDimensionError /\
  snd (stepN (K CVMTest) init (Fit (duck nat [6] 2))) = Raise TypeError /\
  snd (stepN (K KSTest) init (Fit (plain nat 2))) = Raise AttributeError /\
  snd (stepN (K IncrementalKSTest) (execN (K IncrementalKSTest) init [Fit (nd nat [6] 2); Upd (plain nat 1); Upd (plain nat 2)])
         (Upd (plain nat 3))) = Ok (OLib (102, None, 7)).
Proof. vm_compute. repeat split; intros; discriminate. Qed.
