(** C10 — histogram and transport distances equal their formulas and obey distance axioms.

    The model ([Model/Hist.v]) transliterates frouros' distance-based batch detectors together
    with the NumPy / SciPy routines they call: [np.histogram] (explicit-edges path for PSI /
    Hellinger / Bhattacharyya, uniform-bins path with [range] for the histogram intersection),
    [np.linspace], [rv_histogram.cdf] + [np.interp], [jensenshannon], [rel_entr],
    [_cdf_distance].  The theorems below are about that model over the reals, for ALL samples;
    the binary64 run of the same model is compared with the code on every check run.
    [np.histogram(bins="auto")] is an oracle input [(counts, edges)] of the JS / KL model. *)
From Coq Require Import ZArith List Bool Reals Lra Lia Permutation Sorted PrimFloat.
From FV Require Import NumSys RealA FloatA Py Sums Hist HistR.
Import ListNotations.
Local Open Scope R_scope.

(** ** Binning *)

(** Uniform-bins path ([np.histogram(x, bins=nb, range=(lo,hi))], used by the histogram
    intersection): in exact arithmetic the index computed as
    [int((x-lo)/(hi-lo)*nb)], clipped and corrected against the computed edges, is a bin [i]
    with [e_i <= x < e_{i+1}] (the last bin is closed on the right) ... *)
Theorem C10_bin_index_spec : forall (lo hi x : R) (nb : nat), (1 <= nb)%nat -> lo < hi -> lo <= x <= hi ->
  let w := (hi - lo) / INR nb in
  let i := uni_index (A:=RealA) lo hi nb (linspace (A:=RealA) lo hi (S nb)) x in
  (i < nb)%nat /\ lo + INR i * w <= x /\ (x < lo + (INR i + 1) * w \/ (i = nb - 1)%nat /\ x = hi).
Proof. exact uni_index_spec. Qed.
Print Assumptions C10_bin_index_spec.

(** ... and that bin is unique. *)
Theorem C10_bin_index_unique : forall (lo hi x : R) (nb i j : nat), (1 <= nb)%nat -> lo < hi ->
  let w := (hi - lo) / INR nb in
  (i < nb)%nat -> (j < nb)%nat ->
  lo + INR i * w <= x -> (x < lo + (INR i + 1) * w \/ (i = nb - 1)%nat /\ x = hi) ->
  lo + INR j * w <= x -> (x < lo + (INR j + 1) * w \/ (j = nb - 1)%nat /\ x = hi) ->
  i = j.
Proof. exact bin_index_unique. Qed.
Print Assumptions C10_bin_index_unique.

(** Explicit-edges path ([np.histogram(x, bins=edges)], used by PSI / Hellinger / Bhattacharyya):
    for sorted edges the j-th count is the number of values with [e_j <= x < e_{j+1}]
    ([<=] on the right for the last bin) — [in_bin] is that test. *)
Theorem C10_edge_counts_spec : forall (edges xs : list R) (j : nat), Sorted Rle edges -> (S j < length edges)%nat ->
  nth j (edge_counts (A:=RealA) edges xs) 0%Z = Z.of_nat (length (filter (in_bin edges j) xs)).
Proof. exact edge_counts_spec. Qed.
Print Assumptions C10_edge_counts_spec.

(** The pooled edges are [nb+1] equally spaced points [lo + i (hi-lo)/nb] spanning the pooled
    range (widened by 1/2 on each side when it is empty). *)
Theorem C10_edges_equally_spaced : forall (a b : R) (n i : nat), (1 <= n)%nat -> (i <= n)%nat ->
  nth i (linspace (A:=RealA) a b (S n)) 0 = a + INR i * (b - a) / INR n.
Proof. exact linspace_nth. Qed.
Print Assumptions C10_edges_equally_spaced.

(** Every sample value is counted exactly once: the two proportion vectors are probability
    vectors (non-negative, sum 1) of length [num_bins], for both binning paths. *)
Theorem C10_proportions : forall (nb : nat) (X Y : list R), (1 <= nb)%nat -> X <> [] -> Y <> [] ->
  (isdist (fst (bins_values (A:=RealA) X Y nb)) /\ isdist (snd (bins_values (A:=RealA) X Y nb)) /\
   length (fst (bins_values (A:=RealA) X Y nb)) = nb /\ length (snd (bins_values (A:=RealA) X Y nb)) = nb) /\
  (isdist (fst (hi_props (A:=RealA) nb X Y)) /\ isdist (snd (hi_props (A:=RealA) nb X Y))).
Proof. intros nb X Y H HX HY. split; [apply bins_values_dist | apply hi_props_dist]; auto. Qed.
Print Assumptions C10_proportions.

(** ** Hellinger, Bhattacharyya, histogram intersection, PSI: for all non-empty samples and
       [num_bins >= 1]: range, zero on identical samples, symmetry, independence of sample order *)
Theorem C10_hellinger : forall (nb : nat) (X Y : list R), (1 <= nb)%nat -> X <> [] -> Y <> [] ->
  0 <= hellinger_dist (A:=RealA) nb X Y <= 1 /\
  hellinger_dist (A:=RealA) nb X X = 0 /\
  hellinger_dist (A:=RealA) nb X Y = hellinger_dist (A:=RealA) nb Y X /\
  (forall X' Y', Permutation X X' -> Permutation Y Y' ->
     hellinger_dist (A:=RealA) nb X Y = hellinger_dist (A:=RealA) nb X' Y').
Proof.
  intros nb X Y H HX HY. repeat split; try (apply hellinger_dist_range; auto).
  - apply hellinger_dist_self. - apply hellinger_dist_sym. - intros; apply hellinger_dist_perm; auto.
Qed.
Print Assumptions C10_hellinger.

Theorem C10_bhattacharyya : forall (nb : nat) (X Y : list R), (1 <= nb)%nat -> X <> [] -> Y <> [] ->
  0 <= bhattacharyya_dist (A:=RealA) nb X Y <= 1 /\
  bhattacharyya_dist (A:=RealA) nb X X = 0 /\
  bhattacharyya_dist (A:=RealA) nb X Y = bhattacharyya_dist (A:=RealA) nb Y X /\
  (forall X' Y', Permutation X X' -> Permutation Y Y' ->
     bhattacharyya_dist (A:=RealA) nb X Y = bhattacharyya_dist (A:=RealA) nb X' Y').
Proof.
  intros nb X Y H HX HY. repeat split; try (apply bhattacharyya_dist_range; auto).
  - apply bhattacharyya_dist_self; auto. - apply bhattacharyya_dist_sym. - intros; apply bhattacharyya_dist_perm; auto.
Qed.
Print Assumptions C10_bhattacharyya.

Theorem C10_histogram_intersection : forall (nb : nat) (X Y : list R), (1 <= nb)%nat -> X <> [] -> Y <> [] ->
  0 <= hi_dist (A:=RealA) nb X Y <= 1 /\
  hi_dist (A:=RealA) nb X X = 0 /\
  hi_dist (A:=RealA) nb X Y = hi_dist (A:=RealA) nb Y X /\
  (forall X' Y', Permutation X X' -> Permutation Y Y' -> hi_dist (A:=RealA) nb X Y = hi_dist (A:=RealA) nb X' Y').
Proof.
  intros nb X Y H HX HY. repeat split; try (apply hi_dist_range; auto).
  - apply hi_dist_self; auto. - apply hi_dist_sym; auto. - intros; apply hi_dist_perm; auto.
Qed.
Print Assumptions C10_histogram_intersection.

(** PSI with empty bins floored at any [tiny > 0] ([sys.float_info.min] in the code) *)
Theorem C10_psi : forall (tiny : R) (nb : nat) (X Y : list R), 0 < tiny -> (1 <= nb)%nat -> X <> [] -> Y <> [] ->
  0 <= psi_dist (A:=RealA) tiny nb X Y /\
  psi_dist (A:=RealA) tiny nb X X = 0 /\
  psi_dist (A:=RealA) tiny nb X Y = psi_dist (A:=RealA) tiny nb Y X /\
  (forall X' Y', Permutation X X' -> Permutation Y Y' ->
     psi_dist (A:=RealA) tiny nb X Y = psi_dist (A:=RealA) tiny nb X' Y').
Proof.
  intros tiny nb X Y Ht H HX HY. repeat split.
  - apply psi_dist_nonneg; auto. - apply psi_dist_self. - apply psi_dist_sym; auto. - intros; apply psi_dist_perm; auto.
Qed.
Print Assumptions C10_psi.

(** ** Jensen-Shannon and Kullback-Leibler (code after the repair 5e463cd: the [num_bins] points span
       both histogram supports, i.e. the pooled sample range, except that a constant sample [c] has
       the support [c-1/2, c+1/2]).

    (* FULL: for all non-empty samples X, Y, all num_bins >= 2, with hX = np.histogram(X, "auto"),
       hY = np.histogram(Y, "auto"):  JS in [0, sqrt (ln 2)], JS(X,X) = 0, JS symmetric,
       KL(test||reference) in [0, +inf], KL(X,X) = 0. *)
    Proved in full for every pair of histograms satisfying the contract [valid_hist] (as many
    edges as counts plus one, strictly increasing edges, non-negative counts with a positive
    total) — what [np.histogram(bins="auto")] returns for a non-empty finite sample.  "Partial"
    only in that NumPy's auto rule is an oracle input with this contract, not a modelled function
    of the sample (so independence of sample order is the oracle's, checked on the code by the
    harness).  Key steps: the interpolated histogram CDF is monotone, so the masses are >= 0;
    both supports lie inside the discretised range, so each mass vector totals exactly 1; Gibbs'
    inequality [ln x <= x - 1] for the lower bounds, [p ln (p/m) <= p ln 2] for the upper one. *)
Theorem C10_js_partial : forall (nb : nat) (hX hY : list Z * list R), valid_hist hX -> valid_hist hY -> (2 <= nb)%nat ->
  (exists v : R, js_dist (A:=RealA) nb hX hY = Fin v /\ 0 <= v /\ v <= sqrt (ln 2)) /\
  js_dist (A:=RealA) nb hX hX = Fin 0 /\
  js_dist (A:=RealA) nb hX hY = js_dist (A:=RealA) nb hY hX.
Proof.
  intros nb hX hY VX VY Hnb. split; [apply js_dist_range; auto|]. split; [apply js_dist_self; auto | apply js_dist_sym].
Qed.
Print Assumptions C10_js_partial.

(** [kl_dist nb hX hY] = KL(test hY || reference hX) = sum q ln (q/p): never nan, +inf exactly when
    some test mass is positive where the reference mass is 0, otherwise >= 0; 0 on equal histograms *)
Theorem C10_kl_partial : forall (nb : nat) (hX hY : list Z * list R), valid_hist hX -> valid_hist hY -> (2 <= nb)%nat ->
  (kl_dist (A:=RealA) nb hX hY = PInf \/ exists v : R, kl_dist (A:=RealA) nb hX hY = Fin v /\ 0 <= v) /\
  kl_dist (A:=RealA) nb hX hX = Fin 0.
Proof. intros nb hX hY VX VY Hnb. split; [apply kl_dist_nonneg; auto | apply kl_dist_self; auto]. Qed.
Print Assumptions C10_kl_partial.

(** the formulas on arbitrary mass vectors ([jensenshannon] is SciPy's function, [js_f] is js.py's
    wrapper that turns a nan into 0): ranges, Gibbs' bound KL >= total(test) - total(reference),
    characterisation of +inf and of SciPy's nan (a zero total); the wrapper returns SciPy's
    value whenever that is a number and never nan *)
Theorem C10_js_kl_formulas :
  (forall P Q : list R, nonneg P -> nonneg Q -> length P = length Q ->
     0 < sumA (A:=RealA) P -> 0 < sumA (A:=RealA) Q ->
     exists v : R, jensenshannon (A:=RealA) P Q = Fin v /\ 0 <= v /\ v <= sqrt (ln 2)) /\
  (forall P Q : list R, nonneg P -> nonneg Q ->
     (jensenshannon (A:=RealA) P Q = NaN <-> sumA (A:=RealA) P = 0 \/ sumA (A:=RealA) Q = 0)) /\
  (forall Pref Qtest : list R, nonneg Pref -> nonneg Qtest -> length Pref = length Qtest ->
     forall v : R, kl_f (A:=RealA) Pref Qtest = Fin v -> sumA (A:=RealA) Qtest - sumA (A:=RealA) Pref <= v) /\
  (forall Pref Qtest : list R, nonneg Pref -> nonneg Qtest ->
     (kl_f (A:=RealA) Pref Qtest = PInf <->
      exists i : nat, (i < length Pref)%nat /\ (i < length Qtest)%nat /\ 0 < nth i Qtest 0 /\ nth i Pref 0 = 0)) /\
  (forall Pref Qtest : list R, kl_f (A:=RealA) Pref Qtest <> NaN) /\
  (forall (P Q : list R) (v : R), jensenshannon (A:=RealA) P Q = Fin v -> js_f (A:=RealA) P Q = Fin v) /\
  (forall P Q : list R, js_f (A:=RealA) P Q <> NaN).
Proof.
  split; [exact js_range|]. split; [exact js_nan_iff|]. split; [exact kl_lower|].
  split; [exact kl_inf_iff|]. split; [exact kl_not_nan|]. split; [exact js_f_of_fin | exact js_f_not_nan].
Qed.
Print Assumptions C10_js_kl_formulas.

(** each discretised mass vector is a probability vector: this is what the repair guarantees *)
Theorem C10_masses_are_distributions : forall (nb : nat) (hX hY : list Z * list R), valid_hist hX -> valid_hist hY -> (2 <= nb)%nat ->
  let pts := support_points (A:=RealA) (snd hX) (snd hY) nb in
  isdist (masses (A:=RealA) (fst hX) (snd hX) pts) /\ isdist (masses (A:=RealA) (fst hY) (snd hY) pts) /\
  length (masses (A:=RealA) (fst hX) (snd hX) pts) = length (masses (A:=RealA) (fst hY) (snd hY) pts).
Proof. exact masses_valid. Qed.
Print Assumptions C10_masses_are_distributions.

(** two equal constant samples of any sizes [n], [m] (NumPy's histogram: one bin [c-1/2, c+1/2]):
    JS = 0 and KL = 0 (finding F29, repaired) *)
Theorem C10_js_kl_constant_equal : forall (nb : nat) (n m : Z) (c : R), (0 < n)%Z -> (0 < m)%Z -> (2 <= nb)%nat ->
  js_dist (A:=RealA) nb (const_hist n c) (const_hist m c) = Fin 0 /\
  kl_dist (A:=RealA) nb (const_hist n c) (const_hist m c) = Fin 0.
Proof. exact js_kl_const_equal. Qed.
Print Assumptions C10_js_kl_constant_equal.

(** *** the definitions BEFORE the repair ([js_dist_pre], [kl_dist_pre]: points spanning the pooled
        sample range) violate the property — kept as documentation of findings F29 and F31:
        JS is nan (0/0) for EVERY pair of constant equal samples, whatever the histograms ... *)
Example C10_pre_repair_js_nan : forall (nb : nat) (hX hY : list Z * list R) (X Y : list R) (c : R),
  X <> [] -> Y <> [] -> (forall x, In x X -> x = c) -> (forall y, In y Y -> y = c) ->
  js_dist_pre (A:=RealA) nb hX hY X Y = NaN.
Proof. exact js_pre_const_nan. Qed.
(** ... and KL is negative for a constant test sample: reference [0, 1/2], test sample the
    constant 0 (histogram [-1/2, 1/2]), num_bins = 2: test mass inside the pooled range 1/2,
    reference mass 1, KL = (1/2) ln (1/2) < 0 *)
Example C10_pre_repair_kl_negative :
  let X := [0; 1/2] in let hX := ([1%Z; 1%Z], [0; 1/4; 1/2]) in
  let Y := [0] in let hY := ([1%Z], [-1/2; 1/2]) in
  exists v : R, kl_dist_pre (A:=RealA) 2 hX hY X Y = Fin v /\ v < 0.
Proof. exact kl_pre_negative_witness. Qed.

(** ** EMD (1-D Wasserstein-1) and energy distance: the sorted-pooled-values algorithm
       [sum g(F_X(z_i) - F_Y(z_i)) (z_{i+1} - z_i)] over the pooled order statistics.
       For all samples: >= 0, zero on identical samples, symmetric, independent of sample order;
       for non-empty samples [x -> a x + b] scales EMD by |a| and the energy distance by sqrt |a|
       (every real a, including reflections and a = 0). *)
Theorem C10_emd : forall X Y : list R,
  0 <= emd_dist (A:=RealA) X Y /\
  emd_dist (A:=RealA) X X = 0 /\
  emd_dist (A:=RealA) X Y = emd_dist (A:=RealA) Y X /\
  (forall X' Y', Permutation X X' -> Permutation Y Y' -> emd_dist (A:=RealA) X Y = emd_dist (A:=RealA) X' Y').
Proof.
  intros X Y. split; [apply emd_nonneg|]. split; [apply emd_self|]. split; [apply emd_sym|].
  intros; apply emd_perm; auto.
Qed.
Print Assumptions C10_emd.

Theorem C10_energy : forall X Y : list R,
  0 <= energy_dist (A:=RealA) X Y /\
  energy_dist (A:=RealA) X X = 0 /\
  energy_dist (A:=RealA) X Y = energy_dist (A:=RealA) Y X /\
  (forall X' Y', Permutation X X' -> Permutation Y Y' -> energy_dist (A:=RealA) X Y = energy_dist (A:=RealA) X' Y').
Proof.
  intros X Y. split; [apply energy_nonneg|]. split; [apply energy_self|]. split; [apply energy_sym|].
  intros; apply energy_perm; auto.
Qed.
Print Assumptions C10_energy.

Theorem C10_emd_affine : forall (a b : R) (X Y : list R), X <> [] -> Y <> [] ->
  emd_dist (A:=RealA) (map (fun x => a * x + b) X) (map (fun x => a * x + b) Y) = Rabs a * emd_dist (A:=RealA) X Y.
Proof. exact emd_affine. Qed.
Print Assumptions C10_emd_affine.

Theorem C10_energy_affine : forall (a b : R) (X Y : list R), X <> [] -> Y <> [] ->
  energy_dist (A:=RealA) (map (fun x => a * x + b) X) (map (fun x => a * x + b) Y) = sqrt (Rabs a) * energy_dist (A:=RealA) X Y.
Proof. exact energy_affine. Qed.
Print Assumptions C10_energy_affine.

(** ** non-vacuity: the hypotheses are satisfiable and the model is not trivially 0 —
       binary64 evaluation of the same model on small concrete samples *)
Local Open Scope float_scope.
Definition nv_X : list float := [0; 0.25; 0.5; 1].
Definition nv_Y : list float := [0.5; 0.75; 1; 1; 2].

Example C10_nonvacuous_binned :
  let h := hellinger_dist (A:=FloatA) 3 nv_X nv_Y in
  let b := bhattacharyya_dist (A:=FloatA) 3 nv_X nv_Y in
  let i := hi_dist (A:=FloatA) 3 nv_X nv_Y in
  let p := psi_dist (A:=FloatA) 0x1p-1022 3 nv_X nv_Y in
  (PrimFloat.ltb 0.1 h && PrimFloat.ltb h 0.9 && PrimFloat.ltb 0.1 b && PrimFloat.ltb b 0.9 &&
   PrimFloat.ltb 0.1 i && PrimFloat.ltb i 0.9 && PrimFloat.ltb 1 p)%bool = true /\
  edge_counts (A:=FloatA) (pooled_edges (A:=FloatA) nv_X nv_Y 3) nv_X = [3; 1; 0]%Z /\
  uni_counts (A:=FloatA) 0 2 3 nv_Y = [1; 3; 1]%Z.
Proof. vm_compute. repeat split. Qed.

Example C10_nonvacuous_transport :
  let e := emd_dist (A:=FloatA) nv_X nv_Y in
  let e2 := emd_dist (A:=FloatA) (map (fun x => -2 * x + 3) nv_X) (map (fun x => -2 * x + 3) nv_Y) in
  let g := energy_dist (A:=FloatA) nv_X nv_Y in
  (PrimFloat.ltb 0.6124 e && PrimFloat.ltb e 0.6126 && PrimFloat.ltb 1.2249 e2 && PrimFloat.ltb e2 1.2251 &&
   PrimFloat.ltb 0.1 g)%bool = true.
Proof. vm_compute. reflexivity. Qed.

(** F29 and the negative KL on the executable (binary64) model, i.e. on what is compared with
    the code: with the pre-repair points, constant equal samples give NaN and reference [0, 1/2]
    vs constant test 0 gives KL = -0.3465... = (1/2) ln (1/2); with the repaired points both are
    proper values (0 for the equal constant samples; +inf for the second pair with 5 points: the
    test histogram has mass on [-1/2, 0) where the reference has none) *)
Example C10_refuted_on_floats :
  match js_dist_pre (A:=FloatA) 10 ([3%Z], [1; 2]) ([2%Z], [1; 2]) [1.5; 1.5; 1.5] [1.5; 1.5] with
  | NaN => true
  | _ => false
  end = true /\
  match kl_dist_pre (A:=FloatA) 2 ([1%Z; 1%Z], [0; 0.25; 0.5]) ([1%Z], [-0.5; 0.5]) [0; 0.5] [0] with
  | Fin v => PrimFloat.ltb v (-0.34)
  | _ => false
  end = true /\
  match js_dist (A:=FloatA) 10 ([3%Z], [1; 2]) ([2%Z], [1; 2]) with
  | Fin v => PrimFloat.eqb v 0
  | _ => false
  end = true /\
  match kl_dist (A:=FloatA) 5 ([1%Z; 1%Z], [0; 0.25; 0.5]) ([1%Z], [-0.5; 0.5]) with
  | PInf => true
  | _ => false
  end = true.
Proof. repeat split; vm_compute; reflexivity. Qed.

(** the contract [valid_hist] is satisfiable (a 2-bin and a 3-bin histogram) and the distances
    are non-trivial on it *)
Example C10_nonvacuous_valid_hist :
  valid_hist ([3%Z; 1%Z], [0; 1; 2]%R) /\ valid_hist ([1%Z; 0%Z; 2%Z], [1/2; 1; 3/2; 2]%R) /\
  match js_dist (A:=FloatA) 5 ([3%Z; 1%Z], [0; 1; 2]) ([1%Z; 0%Z; 2%Z], [0.5; 1; 1.5; 2]) with
  | Fin v => (PrimFloat.ltb 0.1 v && PrimFloat.ltb v 0.8)%bool
  | _ => false
  end = true.
Proof.
  split; [|split]; [| |vm_compute; reflexivity]; unfold valid_hist; cbn [fst snd length];
    (split; [reflexivity|]); (split; [discriminate|]); (split; [|split; [repeat constructor; lia | cbn; lia]]);
    intros i Hi; repeat (destruct i as [|i]; [cbn; lra|]); lia.
Qed.

(** the mass hypotheses of [C10_js_kl_formulas] are satisfiable: two probability vectors *)
Example C10_nonvacuous_js : exists v : R,
  jensenshannon (A:=RealA) [1/2; 1/2]%R [1/4; 3/4]%R = Fin v /\ (0 <= v)%R /\ (v <= sqrt (ln 2))%R.
Proof.
  apply js_range.
  - repeat constructor; lra.
  - repeat constructor; lra.
  - reflexivity.
  - rewrite !sumA_cons. change (sumA (A:=RealA) []) with 0%R. lra.
  - rewrite !sumA_cons. change (sumA (A:=RealA) []) with 0%R. lra.
Qed.
