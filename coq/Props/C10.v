(** C10 — histogram and transport distances equal their formulas and obey distance axioms.

    The model ([Model/Hist.v]) transliterates frouros' distance-based batch detectors together
    with the NumPy / SciPy routines they call: [np.histogram] (explicit-edges path for PSI /
    Hellinger / Bhattacharyya, uniform-bins path with [range] for the histogram intersection),
    [np.linspace], [rv_histogram.cdf] + [np.interp], [jensenshannon], [rel_entr],
    [_cdf_distance].  The theorems below are about that model over the reals, for ALL samples;
    the binary64 run of the same model is compared with the code on every check run.
    [np.histogram(bins="auto")] is an oracle input [(counts, edges)] of the JS / KL model. *)
From Coq Require Import ZArith List Bool Reals Lra Lia Permutation Sorted PrimFloat.
From FV Require Import NumSys RealA FloatA Py Sums Hist HistR.
Import ListNotations.
Local Open Scope R_scope.

(** ** Binning *)

(** Uniform-bins path ([np.histogram(x, bins=nb, range=(lo,hi))], used by the histogram
    intersection): in exact arithmetic the index computed as
    [int((x-lo)/(hi-lo)*nb)], clipped and corrected against the computed edges, is a bin [i]
    with [e_i <= x < e_{i+1}] (the last bin is closed on the right) ... *)
Theorem C10_bin_index_spec : forall (lo hi x : R) (nb : nat), (1 <= nb)%nat -> lo < hi -> lo <= x <= hi ->
  let w := (hi - lo) / INR nb in
  let i := uni_index (A:=RealA) lo hi nb (linspace (A:=RealA) lo hi (S nb)) x in
  (i < nb)%nat /\ lo + INR i * w <= x /\ (x < lo + (INR i + 1) * w \/ (i = nb - 1)%nat /\ x = hi).
Proof. exact uni_index_spec. Qed.
Print Assumptions C10_bin_index_spec.

(** ... and that bin is unique. *)
Theorem C10_bin_index_unique : forall (lo hi x : R) (nb i j : nat), (1 <= nb)%nat -> lo < hi ->
  let w := (hi - lo) / INR nb in
  (i < nb)%nat -> (j < nb)%nat ->
  lo + INR i * w <= x -> (x < lo + (INR i + 1) * w \/ (i = nb - 1)%nat /\ x = hi) ->
  lo + INR j * w <= x -> (x < lo + (INR j + 1) * w \/ (j = nb - 1)%nat /\ x = hi) ->
  i = j.
Proof. exact bin_index_unique. Qed.
Print Assumptions C10_bin_index_unique.

(** Explicit-edges path ([np.histogram(x, bins=edges)], used by PSI / Hellinger / Bhattacharyya):
    for sorted edges the j-th count is the number of values with [e_j <= x < e_{j+1}]
    ([<=] on the right for the last bin) — [in_bin] is that test. *)
Theorem C10_edge_counts_spec : forall (edges xs : list R) (j : nat), Sorted Rle edges -> (S j < length edges)%nat ->
  nth j (edge_counts (A:=RealA) edges xs) 0%Z = Z.of_nat (length (filter (in_bin edges j) xs)).
Proof. exact edge_counts_spec. Qed.
Print Assumptions C10_edge_counts_spec.

(** The pooled edges are [nb+1] equally spaced points [lo + i (hi-lo)/nb] spanning the pooled
    range (widened by 1/2 on each side when it is empty). *)
Theorem C10_edges_equally_spaced : forall (a b : R) (n i : nat), (1 <= n)%nat -> (i <= n)%nat ->
  nth i (linspace (A:=RealA) a b (S n)) 0 = a + INR i * (b - a) / INR n.
Proof. exact linspace_nth. Qed.
Print Assumptions C10_edges_equally_spaced.

(** Every sample value is counted exactly once: the two proportion vectors are probability
    vectors (non-negative, sum 1) of length [num_bins], for both binning paths. *)
Theorem C10_proportions : forall (nb : nat) (X Y : list R), (1 <= nb)%nat -> X <> [] -> Y <> [] ->
  (isdist (fst (bins_values (A:=RealA) X Y nb)) /\ isdist (snd (bins_values (A:=RealA) X Y nb)) /\
   length (fst (bins_values (A:=RealA) X Y nb)) = nb /\ length (snd (bins_values (A:=RealA) X Y nb)) = nb) /\
  (isdist (fst (hi_props (A:=RealA) nb X Y)) /\ isdist (snd (hi_props (A:=RealA) nb X Y))).
Proof. intros nb X Y H HX HY. split; [apply bins_values_dist | apply hi_props_dist]; auto. Qed.
Print Assumptions C10_proportions.

(** ** Hellinger, Bhattacharyya, histogram intersection, PSI: for all non-empty samples and
       [num_bins >= 1]: range, zero on identical samples, symmetry, independence of sample order *)
Theorem C10_hellinger : forall (nb : nat) (X Y : list R), (1 <= nb)%nat -> X <> [] -> Y <> [] ->
  0 <= hellinger_dist (A:=RealA) nb X Y <= 1 /\
  hellinger_dist (A:=RealA) nb X X = 0 /\
  hellinger_dist (A:=RealA) nb X Y = hellinger_dist (A:=RealA) nb Y X /\
  (forall X' Y', Permutation X X' -> Permutation Y Y' ->
     hellinger_dist (A:=RealA) nb X Y = hellinger_dist (A:=RealA) nb X' Y').
Proof.
  intros nb X Y H HX HY. repeat split; try (apply hellinger_dist_range; auto).
  - apply hellinger_dist_self. - apply hellinger_dist_sym. - intros; apply hellinger_dist_perm; auto.
Qed.
Print Assumptions C10_hellinger.

Theorem C10_bhattacharyya : forall (nb : nat) (X Y : list R), (1 <= nb)%nat -> X <> [] -> Y <> [] ->
  0 <= bhattacharyya_dist (A:=RealA) nb X Y <= 1 /\
  bhattacharyya_dist (A:=RealA) nb X X = 0 /\
  bhattacharyya_dist (A:=RealA) nb X Y = bhattacharyya_dist (A:=RealA) nb Y X /\
  (forall X' Y', Permutation X X' -> Permutation Y Y' ->
     bhattacharyya_dist (A:=RealA) nb X Y = bhattacharyya_dist (A:=RealA) nb X' Y').
Proof.
  intros nb X Y H HX HY. repeat split; try (apply bhattacharyya_dist_range; auto).
  - apply bhattacharyya_dist_self; auto. - apply bhattacharyya_dist_sym. - intros; apply bhattacharyya_dist_perm; auto.
Qed.
Print Assumptions C10_bhattacharyya.

Theorem C10_histogram_intersection : forall (nb : nat) (X Y : list R), (1 <= nb)%nat -> X <> [] -> Y <> [] ->
  0 <= hi_dist (A:=RealA) nb X Y <= 1 /\
  hi_dist (A:=RealA) nb X X = 0 /\
  hi_dist (A:=RealA) nb X Y = hi_dist (A:=RealA) nb Y X /\
  (forall X' Y', Permutation X X' -> Permutation Y Y' -> hi_dist (A:=RealA) nb X Y = hi_dist (A:=RealA) nb X' Y').
Proof.
  intros nb X Y H HX HY. repeat split; try (apply hi_dist_range; auto).
  - apply hi_dist_self; auto. - apply hi_dist_sym; auto. - intros; apply hi_dist_perm; auto.
Qed.
Print Assumptions C10_histogram_intersection.

(** PSI with empty bins floored at any [tiny > 0] ([sys.float_info.min] in the code) *)
Theorem C10_psi : forall (tiny : R) (nb : nat) (X Y : list R), 0 < tiny -> (1 <= nb)%nat -> X <> [] -> Y <> [] ->
  0 <= psi_dist (A:=RealA) tiny nb X Y /\
  psi_dist (A:=RealA) tiny nb X X = 0 /\
  psi_dist (A:=RealA) tiny nb X Y = psi_dist (A:=RealA) tiny nb Y X /\
  (forall X' Y', Permutation X X' -> Permutation Y Y' ->
     psi_dist (A:=RealA) tiny nb X Y = psi_dist (A:=RealA) tiny nb X' Y').
Proof.
  intros tiny nb X Y Ht H HX HY. repeat split.
  - apply psi_dist_nonneg; auto. - apply psi_dist_self. - apply psi_dist_sym; auto. - intros; apply psi_dist_perm; auto.
Qed.
Print Assumptions C10_psi.

(** ** Jensen-Shannon

    (* FULL: for all non-empty samples X, Y with their NumPy auto-histograms hX, hY and all
       num_bins >= 2:  exists v, js_dist nb hX hY X Y = Fin v /\ 0 <= v <= sqrt (ln 2), and
       js_dist nb hX hX X X = Fin 0. *)
    The full statement is FALSE of the code when both samples are constant and equal
    ([C10_js_nan_refuted], finding F29).  Proved: the formula-level statement for any two mass
    vectors that are non-negative with positive totals (which is what the discretised histogram
    CDFs produce when the pooled range is non-empty), symmetry and order independence at sample
    level.  Missing for the sample-level range: the contract of the oracle
    [np.histogram(bins="auto")] (sorted edges spanning [min, max] of the sample, non-negative
    counts) and monotonicity of the interpolated CDF, which give the mass hypotheses. *)
Theorem C10_js_partial :
  (forall P Q : list R, nonneg P -> nonneg Q -> length P = length Q ->
     0 < sumA (A:=RealA) P -> 0 < sumA (A:=RealA) Q ->
     exists v : R, js_f (A:=RealA) P Q = Fin v /\ 0 <= v /\ v <= sqrt (ln 2)) /\
  (forall P : list R, nonneg P -> 0 < sumA (A:=RealA) P -> js_f (A:=RealA) P P = Fin 0) /\
  (forall (nb : nat) (hX hY : list Z * list R) (X Y : list R),
     js_dist (A:=RealA) nb hX hY X Y = js_dist (A:=RealA) nb hY hX Y X) /\
  (forall (nb : nat) (hX hY : list Z * list R) (X X' Y Y' : list R), Permutation X X' -> Permutation Y Y' ->
     js_dist (A:=RealA) nb hX hY X Y = js_dist (A:=RealA) nb hX hY X' Y') /\
  (forall (nb : nat) (hX hY : list Z * list R) (X Y : list R),
     let P := masses (A:=RealA) (fst hX) (snd hX) (pooled_points (A:=RealA) X Y nb) in
     let Q := masses (A:=RealA) (fst hY) (snd hY) (pooled_points (A:=RealA) X Y nb) in
     nonneg P -> nonneg Q -> 0 < sumA (A:=RealA) P -> 0 < sumA (A:=RealA) Q ->
     exists v : R, js_dist (A:=RealA) nb hX hY X Y = Fin v /\ 0 <= v /\ v <= sqrt (ln 2)).
Proof.
  split; [exact js_range|]. split; [exact js_self|]. split; [exact js_dist_sym|].
  split; [exact js_dist_perm | exact js_dist_range].
Qed.
Print Assumptions C10_js_partial.

(** JS is nan exactly when one of the two mass vectors totals 0 ... *)
Theorem C10_js_nan_iff : forall P Q : list R, nonneg P -> nonneg Q ->
  (js_f (A:=RealA) P Q = NaN <-> sumA (A:=RealA) P = 0 \/ sumA (A:=RealA) Q = 0).
Proof. exact js_nan_iff. Qed.
Print Assumptions C10_js_nan_iff.

(** ... which happens for EVERY pair of constant, equal samples, whatever the histograms and
    [num_bins] (F29): the pooled range is empty, all points of the linspace coincide, every
    CDF difference is 0, and [jensenshannon] divides 0 by 0.  In particular d(X,X) is nan,
    not 0, for a constant X. *)
Theorem C10_js_nan_refuted : forall (nb : nat) (hX hY : list Z * list R) (X Y : list R) (c : R),
  X <> [] -> Y <> [] -> (forall x, In x X -> x = c) -> (forall y, In y Y -> y = c) ->
  js_dist (A:=RealA) nb hX hY X Y = NaN.
Proof. exact js_dist_const_nan. Qed.
Print Assumptions C10_js_nan_refuted.

(** ** Kullback-Leibler: [kl = sum rel_entr(test masses, reference masses)] = KL(test || reference),
       +inf exactly when some test mass is positive where the reference mass is 0.

    (* FULL: for all samples, kl_dist nb hX hY X Y is +inf or Fin v with 0 <= v. *)
    FALSE of the code ([C10_kl_nonneg_refuted]): the masses are not normalised and a constant
    test sample keeps only part of its mass inside the pooled range.  Proved: Gibbs' inequality
    in the form  KL >= (total test mass) - (total reference mass)  for all mass vectors, hence
    KL >= 0 whenever the test masses total at least the reference masses (both total 1 for
    non-constant samples); KL(P||P) = 0; the characterisation of +inf; order independence. *)
Theorem C10_kl_partial :
  (forall Pref Qtest : list R, nonneg Pref -> nonneg Qtest -> length Pref = length Qtest ->
     forall v : R, kl_f (A:=RealA) Pref Qtest = Fin v -> sumA (A:=RealA) Qtest - sumA (A:=RealA) Pref <= v) /\
  (forall Pref Qtest : list R, nonneg Pref -> nonneg Qtest -> length Pref = length Qtest ->
     sumA (A:=RealA) Pref <= sumA (A:=RealA) Qtest ->
     kl_f (A:=RealA) Pref Qtest = PInf \/ exists v : R, kl_f (A:=RealA) Pref Qtest = Fin v /\ 0 <= v) /\
  (forall P : list R, nonneg P -> kl_f (A:=RealA) P P = Fin 0) /\
  (forall Pref Qtest : list R, nonneg Pref -> nonneg Qtest ->
     (kl_f (A:=RealA) Pref Qtest = PInf <->
      exists i : nat, (i < length Pref)%nat /\ (i < length Qtest)%nat /\ 0 < nth i Qtest 0 /\ nth i Pref 0 = 0)) /\
  (forall Pref Qtest : list R, kl_f (A:=RealA) Pref Qtest <> NaN) /\
  (forall (nb : nat) (hX hY : list Z * list R) (X X' Y Y' : list R), Permutation X X' -> Permutation Y Y' ->
     kl_dist (A:=RealA) nb hX hY X Y = kl_dist (A:=RealA) nb hX hY X' Y').
Proof.
  split; [exact kl_lower|]. split; [exact kl_nonneg|]. split; [exact kl_self|].
  split; [exact kl_inf_iff|]. split; [exact kl_not_nan | exact kl_dist_perm].
Qed.
Print Assumptions C10_kl_partial.

(** reference [0, 1/2] (any histogram on [0, 1/2]), test sample the constant 0 (NumPy's
    histogram: one bin [-1/2, 1/2]), num_bins = 2: the test mass inside the pooled range
    [0, 1/2] is 1/2, the reference mass is 1, and KL = (1/2) ln (1/2) < 0. *)
Theorem C10_kl_nonneg_refuted :
  let X := [0; 1/2] in let hX := ([1%Z; 1%Z], [0; 1/4; 1/2]) in
  let Y := [0] in let hY := ([1%Z], [-1/2; 1/2]) in
  exists v : R, kl_dist (A:=RealA) 2 hX hY X Y = Fin v /\ v < 0.
Proof. exact kl_negative_witness. Qed.
Print Assumptions C10_kl_nonneg_refuted.

(** ** EMD (1-D Wasserstein-1) and energy distance: the sorted-pooled-values algorithm
       [sum g(F_X(z_i) - F_Y(z_i)) (z_{i+1} - z_i)] over the pooled order statistics.
       For all samples: >= 0, zero on identical samples, symmetric, independent of sample order;
       for non-empty samples [x -> a x + b] scales EMD by |a| and the energy distance by sqrt |a|
       (every real a, including reflections and a = 0). *)
Theorem C10_emd : forall X Y : list R,
  0 <= emd_dist (A:=RealA) X Y /\
  emd_dist (A:=RealA) X X = 0 /\
  emd_dist (A:=RealA) X Y = emd_dist (A:=RealA) Y X /\
  (forall X' Y', Permutation X X' -> Permutation Y Y' -> emd_dist (A:=RealA) X Y = emd_dist (A:=RealA) X' Y').
Proof.
  intros X Y. split; [apply emd_nonneg|]. split; [apply emd_self|]. split; [apply emd_sym|].
  intros; apply emd_perm; auto.
Qed.
Print Assumptions C10_emd.

Theorem C10_energy : forall X Y : list R,
  0 <= energy_dist (A:=RealA) X Y /\
  energy_dist (A:=RealA) X X = 0 /\
  energy_dist (A:=RealA) X Y = energy_dist (A:=RealA) Y X /\
  (forall X' Y', Permutation X X' -> Permutation Y Y' -> energy_dist (A:=RealA) X Y = energy_dist (A:=RealA) X' Y').
Proof.
  intros X Y. split; [apply energy_nonneg|]. split; [apply energy_self|]. split; [apply energy_sym|].
  intros; apply energy_perm; auto.
Qed.
Print Assumptions C10_energy.

Theorem C10_emd_affine : forall (a b : R) (X Y : list R), X <> [] -> Y <> [] ->
  emd_dist (A:=RealA) (map (fun x => a * x + b) X) (map (fun x => a * x + b) Y) = Rabs a * emd_dist (A:=RealA) X Y.
Proof. exact emd_affine. Qed.
Print Assumptions C10_emd_affine.

Theorem C10_energy_affine : forall (a b : R) (X Y : list R), X <> [] -> Y <> [] ->
  energy_dist (A:=RealA) (map (fun x => a * x + b) X) (map (fun x => a * x + b) Y) = sqrt (Rabs a) * energy_dist (A:=RealA) X Y.
Proof. exact energy_affine. Qed.
Print Assumptions C10_energy_affine.

(** ** non-vacuity: the hypotheses are satisfiable and the model is not trivially 0 —
       binary64 evaluation of the same model on small concrete samples *)
Local Open Scope float_scope.
Definition nv_X : list float := [0; 0.25; 0.5; 1].
Definition nv_Y : list float := [0.5; 0.75; 1; 1; 2].

Example C10_nonvacuous_binned :
  let h := hellinger_dist (A:=FloatA) 3 nv_X nv_Y in
  let b := bhattacharyya_dist (A:=FloatA) 3 nv_X nv_Y in
  let i := hi_dist (A:=FloatA) 3 nv_X nv_Y in
  let p := psi_dist (A:=FloatA) 0x1p-1022 3 nv_X nv_Y in
  (PrimFloat.ltb 0.1 h && PrimFloat.ltb h 0.9 && PrimFloat.ltb 0.1 b && PrimFloat.ltb b 0.9 &&
   PrimFloat.ltb 0.1 i && PrimFloat.ltb i 0.9 && PrimFloat.ltb 1 p)%bool = true /\
  edge_counts (A:=FloatA) (pooled_edges (A:=FloatA) nv_X nv_Y 3) nv_X = [3; 1; 0]%Z /\
  uni_counts (A:=FloatA) 0 2 3 nv_Y = [1; 3; 1]%Z.
Proof. vm_compute. repeat split. Qed.

Example C10_nonvacuous_transport :
  let e := emd_dist (A:=FloatA) nv_X nv_Y in
  let e2 := emd_dist (A:=FloatA) (map (fun x => -2 * x + 3) nv_X) (map (fun x => -2 * x + 3) nv_Y) in
  let g := energy_dist (A:=FloatA) nv_X nv_Y in
  (PrimFloat.ltb 0.6124 e && PrimFloat.ltb e 0.6126 && PrimFloat.ltb 1.2249 e2 && PrimFloat.ltb e2 1.2251 &&
   PrimFloat.ltb 0.1 g)%bool = true.
Proof. vm_compute. reflexivity. Qed.

(** F29 and the negative KL on the executable (binary64) model, i.e. on what is compared with
    the code: constant equal samples give NaN; reference [0, 1/2] vs constant test 0 gives
    KL = -0.3465... = (1/2) ln (1/2) *)
Example C10_refuted_on_floats :
  match js_dist (A:=FloatA) 10 ([3%Z], [1; 2]) ([2%Z], [1; 2]) [1.5; 1.5; 1.5] [1.5; 1.5] with
  | NaN => true
  | _ => false
  end = true /\
  match kl_dist (A:=FloatA) 2 ([1%Z; 1%Z], [0; 0.25; 0.5]) ([1%Z], [-0.5; 0.5]) [0; 0.5] [0] with
  | Fin v => PrimFloat.ltb v (-0.34)
  | _ => false
  end = true.
Proof. split; vm_compute; reflexivity. Qed.

(** the mass hypotheses of [C10_js_partial] are satisfiable: two probability vectors *)
Example C10_nonvacuous_js : exists v : R,
  js_f (A:=RealA) [1/2; 1/2]%R [1/4; 3/4]%R = Fin v /\ (0 <= v)%R /\ (v <= sqrt (ln 2))%R.
Proof.
  apply js_range.
  - repeat constructor; lra.
  - repeat constructor; lra.
  - reflexivity.
  - rewrite !sumA_cons. change (sumA (A:=RealA) []) with 0%R. lra.
  - rewrite !sumA_cons. change (sumA (A:=RealA) []) with 0%R. lra.
Qed.
