(** C03 — DDM, EDDM, ECDD-WT and RDDM follow their published error-rate decision rules.
    The specifications ([Spec/SPCSpec.v]) are non-incremental: batch mean, batch standard
    deviation of the distances between errors, closed-form EWMA, the Ross et al. polynomial
    typed from the paper.  All theorems are over R and quantify over every stream (hence
    every step) and every configuration. *)
From Coq Require Import ZArith List Bool Reals.
From FV Require Import NumSys RealA Py Sums Queue Stats Detector SPC StatsR SPCSpec SPCR.
Import ListNotations.
Local Open Scope R_scope.

(** DDM: drift (warning) at step t exactly when p_t + s_t > p_min + drift_level * s_min
    (resp. warning_level), (p_min, s_min) minimising p+s since min_num_instances. *)
Theorem C03_ddm_refines_spec : forall (c : ddm_cfg RealA) (vs : list R), (1 <= dd_min c)%Z ->
  dn (ddm_run c vs) = Z.of_nat (length vs) /\
  dmins (ddm_run c vs) = ddm_min (Z.to_nat (dd_min c)) (rev vs) /\
  verdict_of (ddrift (ddm_run c vs)) (dwarning (ddm_run c vs))
  = ddm_spec (dd_warn c) (dd_drift c) (Z.to_nat (dd_min c)) (rev vs).
Proof. exact ddm_refines_spec. Qed.
Print Assumptions C03_ddm_refines_spec.

(** ECDD-WT: EWMA chart against the control-limit polynomial, warning at warning_level of the limit. *)
Theorem C03_ecdd_refines_spec : forall (c : ecdd_cfg RealA) (vs : list R), (1 <= ec_min c)%Z ->
  verdict_of (cdrift (ecdd_run c vs)) (cwarning (ecdd_run c vs))
  = ecdd_spec (ec_lambda c) (ec_arl c) (ec_warn c) (Z.to_nat (ec_min c)) (rev vs).
Proof. exact ecdd_refines_spec. Qed.
Print Assumptions C03_ecdd_refines_spec.

(** the model's polynomial (coefficients as the code writes them) is the paper's *)
Theorem C03_control_limit_is_ross : forall arl p, control_limit (A:=RealA) arl p = ross_limit arl p.
Proof. exact control_limit_ross. Qed.

(** EDDM: the incremental statistics are the batch mean / sum of squared deviations /
    population standard deviation of the distances between errors ... *)
Theorem C03_eddm_stats_batch : forall (c : eddm_cfg RealA) (vs : list R),
  let s := eddm_run c vs in let ds := gaps (rev vs) in
  en s = Z.of_nat (length vs) /\ enmis s = Z.of_nat (length ds) /\
  (ds <> [] -> emean s = Rmean ds /\ evar s = Rssd ds /\ estd s = sqrt (Rssd ds / INR (length ds))) /\
  0 <= evar s.
Proof. exact eddm_stats_batch. Qed.
Print Assumptions C03_eddm_stats_batch.

(** ... and each step decides by the ratio of mean + level*std to its running maximum
    against beta (drift) and alpha (warning). *)
Theorem C03_eddm_rule : forall (c : eddm_cfg RealA) (vs : list R) (v : R),
  let s := eddm_run c vs in let s' := eddm_run c (vs ++ [v]) in
  (v <> 1 -> edrift s' = false /\ ewarning s' = false /\ emax s' = emax s) /\
  (v = 1 -> let ds := gaps (rev (vs ++ [v])) in let thr := eddm_thr (ed_level c) ds in
            let n' := Z.of_nat (S (length vs)) in
     ((n' < ed_min c)%Z -> emax s' = emax s /\ edrift s' = edrift s /\ ewarning s' = ewarning s) /\
     ((ed_min c <= n')%Z -> gt_opt (A:=RealA) thr (emax s) = true ->
         emax s' = Some thr /\ edrift s' = false /\ ewarning s' = false) /\
     ((ed_min c <= n')%Z -> gt_opt (A:=RealA) thr (emax s) = false -> emax s' = emax s /\
         ((Z.of_nat (length ds) < ed_min c)%Z -> edrift s' = edrift s /\ ewarning s' = ewarning s) /\
         ((ed_min c <= Z.of_nat (length ds))%Z -> forall mx, emax s = Some mx ->
             edrift s' = Rltb (thr / mx) (ed_beta c) /\
             ewarning s' = (negb (Rltb (thr / mx) (ed_beta c)) && Rltb (thr / mx) (ed_alpha c))))).
Proof. exact eddm_rule. Qed.
Print Assumptions C03_eddm_rule.

(** the runs above are the Detector-level executions on update-only histories *)
Theorem C03_runs_are_exec :
  (forall c vs, exec (DDMD RealA) c (map Upd vs) = ddm_run c vs) /\
  (forall c vs, exec (ECDDD RealA) c (map Upd vs) = ecdd_run c vs) /\
  (forall c vs, exec (EDDMD RealA) c (map Upd vs) = eddm_run c vs).
Proof. split; [exact ddm_run_exec | split; [exact ecdd_run_exec | exact eddm_run_exec]]. Qed.

(** * RDDM *)
From FV Require Import RDDMR.

(** RDDM gives exactly DDM's verdicts for the same levels until its first drift, warning-limit
    or max-concept-size event (those are what sets the rebuild flag); at the event step itself
    the only possible difference is the warning limit, where RDDM says drift and DDM warning.
    Holds for EVERY number system, in particular for the binary64 run. *)
Theorem C03_rddm_simulates_ddm : forall (A : Arith) (c : rddm_cfg A) (vs : list (num A)),
  no_event_before c vs ->
  let r := rddm_run c vs in let d := ddm_run' (ddm_of c) vs in
  rn r = dn d /\ rer r = der d /\ rmins r = dmins d /\
  ((rdrift r = ddrift d /\ rwarning r = dwarning d) \/
   (vs <> [] /\ rdrift r = true /\ rwarning r = false /\ ddrift d = false /\ dwarning d = true /\
    (rd_max_warn c <= rnum_warn (rddm_run c (removelast vs)))%Z)).
Proof. exact rddm_simulates_ddm. Qed.
Print Assumptions C03_rddm_simulates_ddm.

(** At all times the error-rate estimate is the running mean of a suffix of the stream that
    grows by one value per update and is cut back, only right after an event, to at most
    min_concept_size + 1 values. *)
Theorem C03_rddm_suffix_mean : forall (c : rddm_cfg RealA) (vs : list R), (1 <= rd_min_concept c)%Z ->
  exists k : nat, (k <= length vs)%nat /\
    rer (rddm_run c vs) = mean_run (A:=RealA) (lastn k vs) /\
    (vs <> [] ->
       let prev := rddm_run c (removelast vs) in
       exists k' : nat, rer prev = mean_run (A:=RealA) (lastn k' (removelast vs)) /\ (k' <= length (removelast vs))%nat /\
         ((rflag prev = false -> k = S k') /\
          (rflag prev = true -> (Z.of_nat k <= rd_min_concept c + 1)%Z))).
Proof. exact rddm_suffix_mean. Qed.
Print Assumptions C03_rddm_suffix_mean.

(** non-vacuity: a run in which a rebuild really happens (max_concept_size event at step 3,
    stored predictions replayed at step 4: num_instances rewinds from 3 to 2) *)
From Coq Require Import PrimFloat.
From FV Require Import FloatA.
Example C03_rddm_nonvacuous :
  let c := {| rd_warn := 1%float; rd_drift := 2%float; rd_min := 1; rd_max_concept := 3;
              rd_min_concept := 2; rd_max_warn := 5 |} : rddm_cfg FloatA in
  map (fun s => (rn s, rflag s)) (trace (RDDMD FloatA) c [Upd 0%float; Upd 0%float; Upd 0%float; Upd 0%float])
  = [(1%Z, false); (2%Z, false); (3%Z, true); (2%Z, false)].
Proof. vm_compute. reflexivity. Qed.
