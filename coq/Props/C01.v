(** C01 — No alarm without evidence: warm-up, constant streams, exclusive flags, status.
    Property theorems only.  The 13 detector classes are covered by 11 models: [CusumD]
    is CUSUM / Page-Hinkley / geometric moving average (field [ck_kind]); [HDDMAD] and
    [HDDMWD] cover one- and two-sided modes (fields [ha_two], [hw_two]).
    All statements quantify over every configuration and every finite history of
    updates and resets; those of this file's first part hold for EVERY number system
    [A], in particular for the binary64 run that is compared with the code. *)
From Coq Require Import ZArith List Bool String.
From FV Require Import NumSys Py Queue Stats Detector Cusum SPC HDDM KS Window ADWIN BOCD Structural.
Import ListNotations.
Local Open Scope Z_scope.

Definition WarmupSilent (D : Detector) (warm : d_cfg D -> Z) : Prop :=
  forall c ops, updates_since_reset D ops < warm c ->
    d_drift D (exec D c ops) = false /\ d_warning D (exec D c ops) = false.
Definition Exclusive (D : Detector) : Prop :=
  forall c ops, d_drift D (exec D c ops) && d_warning D (exec D c ops) = false.

(** No drift or warning during the first [min_num_instances - 1] updates after
    construction or reset (STEPD: 2*min - 1; ADWIN: even the first min updates). *)
Theorem C01_warmup_silent : forall A : Arith,
  WarmupSilent (CusumD A) ck_min /\ WarmupSilent (DDMD A) dd_min /\
  WarmupSilent (RDDMD A) rd_min /\ WarmupSilent (ECDDD A) ec_min /\
  WarmupSilent (HDDMAD A) ha_min /\ WarmupSilent (HDDMWD A) hw_min /\
  WarmupSilent (KSWIND A) kw_min /\ WarmupSilent (STEPDD A) (fun c => 2 * sp_min c) /\
  WarmupSilent (ADWIND A) (fun c => ad_min c + 1) /\ WarmupSilent (BOCDD A) bo_min.
Proof.
  intro A. unfold WarmupSilent.
  repeat match goal with |- _ /\ _ => split end; intros c ops H;
  first [ apply cusum_warmup | apply ddm_warmup | apply rddm_warmup | apply ecdd_warmup
        | apply hddma_warmup | apply hddmw_warmup | apply kswin_warmup | apply stepd_warmup
        | apply adwin_warmup | apply bocd_warmup ]; auto; Lia.lia.
Qed.
Print Assumptions C01_warmup_silent.

(** EDDM: silent before [min_num_misclassified_instances] errors since the last reset. *)
Theorem C01_warmup_silent_eddm : forall (A : Arith) (c : eddm_cfg A) ops,
  errors_since_reset ops 0 < ed_min c ->
  edrift (exec (EDDMD A) c ops) = false /\ ewarning (exec (EDDMD A) c ops) = false.
Proof. exact eddm_warmup. Qed.
Print Assumptions C01_warmup_silent_eddm.

(** drift and warning are never reported together. *)
Theorem C01_flags_exclusive : forall A : Arith,
  Exclusive (CusumD A) /\ Exclusive (DDMD A) /\ Exclusive (RDDMD A) /\ Exclusive (EDDMD A) /\
  Exclusive (ECDDD A) /\ Exclusive (HDDMAD A) /\ Exclusive (HDDMWD A) /\ Exclusive (KSWIND A) /\
  Exclusive (STEPDD A) /\ Exclusive (ADWIND A) /\ Exclusive (BOCDD A).
Proof.
  intro A. unfold Exclusive.
  repeat match goal with |- _ /\ _ => split end; intros c ops;
  first [ apply cusum_exclusive | apply ddm_exclusive | apply rddm_exclusive | apply eddm_exclusive
        | apply ecdd_exclusive | apply hddma_exclusive | apply hddmw_exclusive | apply kswin_exclusive
        | apply stepd_exclusive | apply adwin_exclusive | apply bocd_exclusive ].
Qed.
Print Assumptions C01_flags_exclusive.

(** [status] is, by construction of the model, the dictionary of the flag attributes; that the
    code's [status] property is this dictionary is checked on every implementation trace. *)
Theorem C01_status_mirrors : forall (D : Detector) (s : d_st D),
  status D s = ("drift"%string, d_drift D s) ::
               (if d_has_warning_status D then [("warning"%string, d_warning D s)] else []).
Proof. reflexivity. Qed.
Print Assumptions C01_status_mirrors.

(** num_instances counts the updates since the last reset (all models but RDDM, which rewinds it). *)
Theorem C01_ninst_counts : forall A : Arith,
  (forall c ops, d_ninst (DDMD A) (exec (DDMD A) c ops) = updates_since_reset (DDMD A) ops) /\
  (forall c ops, d_ninst (CusumD A) (exec (CusumD A) c ops) = updates_since_reset (CusumD A) ops) /\
  (forall c ops, d_ninst (ADWIND A) (exec (ADWIND A) c ops) = updates_since_reset (ADWIND A) ops).
Proof. intro A. repeat match goal with |- _ /\ _ => split end; intros; first [apply ddm_ninst | apply cusum_ninst | apply adwin_ninst]. Qed.

(** * Constant streams (over R): no detector other than BOCD alarms on a stream whose values
    are all identical, whatever resets are interleaved.  Domains: 0/1 for the error-stream
    detectors, any real for CUSUM/PH/GMA, HDDM-A and KSWIN, non-negative for ADWIN; the
    configuration hypotheses are the documented domains.  HDDM-W is proved for the constant
    0 only: for c > 0 the property is violated by the algorithm's own initialisation
    (EWMA statistics start at 0) — known finding F05, witness below. *)
From Coq Require Import Reals.
From FV Require Import RealA ConstantR.
Local Open Scope R_scope.

Theorem C01_constant_cusum : forall (c : cusum_cfg RealA) (k : R) ops,
  0 <= ck_delta c -> 0 <= ck_lambda c -> 0 <= ck_alpha c <= 1 -> const_ops k ops ->
  cs_drift (exec (CusumD RealA) c ops) = false.
Proof. exact cusum_constant. Qed.
Theorem C01_constant_ddm : forall (c : ddm_cfg RealA) (k : R) ops,
  (k = 0 \/ k = 1) -> 0 < dd_warn c -> 0 < dd_drift c -> const_ops k ops ->
  ddrift (exec (DDMD RealA) c ops) = false /\ dwarning (exec (DDMD RealA) c ops) = false.
Proof. exact ddm_constant. Qed.
Theorem C01_constant_rddm : forall (c : rddm_cfg RealA) (k : R) ops,
  (k = 0 \/ k = 1) -> 0 < rd_warn c -> 0 < rd_drift c -> (1 <= rd_min_concept c)%Z -> const_ops k ops ->
  rdrift (exec (RDDMD RealA) c ops) = false /\ rwarning (exec (RDDMD RealA) c ops) = false.
Proof. exact rddm_constant. Qed.
Theorem C01_constant_eddm : forall (c : eddm_cfg RealA) (k : R) ops,
  (k = 0 \/ k = 1) -> 0 < ed_beta c -> ed_beta c < ed_alpha c -> ed_alpha c <= 1 -> 0 < ed_level c ->
  const_ops k ops ->
  edrift (exec (EDDMD RealA) c ops) = false /\ ewarning (exec (EDDMD RealA) c ops) = false.
Proof. exact eddm_constant. Qed.
Theorem C01_constant_ecdd : forall (c : ecdd_cfg RealA) (k : R) ops,
  (k = 0 \/ k = 1) -> 0 <= ec_lambda c <= 1 -> 0 < ec_warn c -> const_ops k ops ->
  cdrift (exec (ECDDD RealA) c ops) = false /\ cwarning (exec (ECDDD RealA) c ops) = false.
Proof. exact ecdd_constant. Qed.
Theorem C01_constant_stepd : forall (c : stepd_cfg RealA) (k : R) ops,
  (k = 0 \/ k = 1) -> (1 <= sp_min c)%Z -> const_ops k ops ->
  sdrift (exec (STEPDD RealA) c ops) = false /\ swarning (exec (STEPDD RealA) c ops) = false.
Proof. exact stepd_constant. Qed.
Theorem C01_constant_hddma : forall (c : hddma_cfg RealA) (k : R) ops,
  0 < ha_alpha_d c <= 1 -> 0 < ha_alpha_w c <= 1 -> const_ops k ops ->
  hdrift (exec (HDDMAD RealA) c ops) = false /\ hwarning (exec (HDDMAD RealA) c ops) = false.
Proof. exact hddma_constant. Qed.
Theorem C01_constant_hddmw_partial : forall (c : hddmw_cfg RealA) ops,
  0 < hw_alpha_d c <= 1 -> 0 < hw_alpha_w c <= 1 -> 0 <= hw_lambda c <= 1 -> const_ops 0 ops ->
  wdrift (exec (HDDMWD RealA) c ops) = false /\ wwarning (exec (HDDMWD RealA) c ops) = false.
Proof. exact hddmw_constant_zero. Qed.
(** KSWIN: whatever sample of the (constant) older part the generator draws *)
Theorem C01_constant_kswin : forall (c : kswin_cfg) (k : R) (ops : list (op (R * list R))),
  (0 < kw_alpha_num c)%Z -> (kw_alpha_num c < kw_alpha_den c)%Z -> (1 <= kw_test c)%Z ->
  Forall (fun o => o = Rst \/ exists sample, o = Upd (k, sample) /\
            (sample = [] \/ (List.length sample = Z.to_nat (kw_test c) /\ Forall (fun x => x = k) sample))) ops ->
  kdrift (exec (KSWIND RealA) c ops) = false.
Proof. exact kswin_constant. Qed.
Theorem C01_constant_adwin : forall (c : adwin_cfg RealA) (k : R) ops,
  0 <= k -> 0 < ad_delta c < 1 -> (1 <= ad_m c)%Z -> (1 <= ad_mws c)%Z -> (1 <= ad_clock c)%Z ->
  const_ops k ops -> adrift (exec (ADWIND RealA) c ops) = false.
Proof. exact adwin_constant. Qed.
Print Assumptions C01_constant_adwin.
Print Assumptions C01_constant_kswin.
Print Assumptions C01_constant_rddm.

(** F05 (known finding): the full statement is FALSE for HDDM-W and a constant c > 0 —
    witnessed on the binary64 instance: alpha_d = 0.1, alpha_w = 1, lambda_ = 0.05,
    min_num_instances = 3, stream 1,1,1 ends in a warning. *)
From Coq Require Import PrimFloat.
From FV Require Import FloatA.
Theorem C01_constant_hddmw_refuted :
  exists (c : hddmw_cfg FloatA) (ops : list (op float)),
    Forall (fun o => o = Upd 1%float) ops /\
    (wdrift (exec (HDDMWD FloatA) c ops) || wwarning (exec (HDDMWD FloatA) c ops)) = true.
Proof.
  exists {| hw_alpha_d := 0x1.999999999999ap-4%float; hw_alpha_w := 1%float; hw_two := true;
            hw_lambda := 0x1.999999999999ap-5%float; hw_min := 3 |}.
  exists [Upd 1%float; Upd 1%float; Upd 1%float].
  split; [ apply Forall_cons; [reflexivity|]; apply Forall_cons; [reflexivity|]; apply Forall_cons; [reflexivity|]; apply Forall_nil | vm_compute; reflexivity].
Qed.

(** non-vacuity: after the warm-up DDM does alarm (drift exactly at step [min] is impossible for
    DDM since the first eligible step sets the minimum; here drift at step 4 with min = 2) *)
Example C01_nonvacuous_ddm :
  let c := {| dd_warn := 0x1p-1%float; dd_drift := 1%float; dd_min := 2 |} : ddm_cfg FloatA in
  map (fun s => (ddrift s, dwarning s)) (trace (DDMD FloatA) c [Upd 0%float; Upd 0%float; Upd 0%float; Upd 1%float; Upd 1%float])
  = [(false,false); (false,false); (false,false); (true,false); (true,false)].
Proof. vm_compute. reflexivity. Qed.
