(** C01 — No alarm without evidence: warm-up, constant streams, exclusive flags, status.
    Property theorems only.  The 13 detector classes are covered by 11 models: [CusumD]
    is CUSUM / Page-Hinkley / geometric moving average (field [ck_kind]); [HDDMAD] and
    [HDDMWD] cover one- and two-sided modes (fields [ha_two], [hw_two]).
    All statements quantify over every configuration and every finite history of
    updates and resets; those of this file's first part hold for EVERY number system
    [A], in particular for the binary64 run that is compared with the code. *)
From Coq Require Import ZArith List Bool String.
From FV Require Import NumSys Py Queue Stats Detector Cusum SPC HDDM KS Window ADWIN BOCD Structural.
Import ListNotations.
Local Open Scope Z_scope.

Definition WarmupSilent (D : Detector) (warm : d_cfg D -> Z) : Prop :=
  forall c ops, updates_since_reset D ops < warm c ->
    d_drift D (exec D c ops) = false /\ d_warning D (exec D c ops) = false.
Definition Exclusive (D : Detector) : Prop :=
  forall c ops, d_drift D (exec D c ops) && d_warning D (exec D c ops) = false.

(** No drift or warning during the first [min_num_instances - 1] updates after
    construction or reset (STEPD: 2*min - 1; ADWIN: even the first min updates). *)
Theorem C01_warmup_silent : forall A : Arith,
  WarmupSilent (CusumD A) ck_min /\ WarmupSilent (DDMD A) dd_min /\
  WarmupSilent (RDDMD A) rd_min /\ WarmupSilent (ECDDD A) ec_min /\
  WarmupSilent (HDDMAD A) ha_min /\ WarmupSilent (HDDMWD A) hw_min /\
  WarmupSilent (KSWIND A) kw_min /\ WarmupSilent (STEPDD A) (fun c => 2 * sp_min c) /\
  WarmupSilent (ADWIND A) (fun c => ad_min c + 1) /\ WarmupSilent (BOCDD A) bo_min.
Proof.
  intro A. unfold WarmupSilent.
  repeat match goal with |- _ /\ _ => split end; intros c ops H;
  first [ apply cusum_warmup | apply ddm_warmup | apply rddm_warmup | apply ecdd_warmup
        | apply hddma_warmup | apply hddmw_warmup | apply kswin_warmup | apply stepd_warmup
        | apply adwin_warmup | apply bocd_warmup ]; auto; Lia.lia.
Qed.
Print Assumptions C01_warmup_silent.

(** EDDM: silent before [min_num_misclassified_instances] errors since the last reset. *)
Theorem C01_warmup_silent_eddm : forall (A : Arith) (c : eddm_cfg A) ops,
  errors_since_reset ops 0 < ed_min c ->
  edrift (exec (EDDMD A) c ops) = false /\ ewarning (exec (EDDMD A) c ops) = false.
Proof. exact eddm_warmup. Qed.
Print Assumptions C01_warmup_silent_eddm.

(** drift and warning are never reported together. *)
Theorem C01_flags_exclusive : forall A : Arith,
  Exclusive (CusumD A) /\ Exclusive (DDMD A) /\ Exclusive (RDDMD A) /\ Exclusive (EDDMD A) /\
  Exclusive (ECDDD A) /\ Exclusive (HDDMAD A) /\ Exclusive (HDDMWD A) /\ Exclusive (KSWIND A) /\
  Exclusive (STEPDD A) /\ Exclusive (ADWIND A) /\ Exclusive (BOCDD A).
Proof.
  intro A. unfold Exclusive.
  repeat match goal with |- _ /\ _ => split end; intros c ops;
  first [ apply cusum_exclusive | apply ddm_exclusive | apply rddm_exclusive | apply eddm_exclusive
        | apply ecdd_exclusive | apply hddma_exclusive | apply hddmw_exclusive | apply kswin_exclusive
        | apply stepd_exclusive | apply adwin_exclusive | apply bocd_exclusive ].
Qed.
Print Assumptions C01_flags_exclusive.

(** [status] is, by construction of the model, the dictionary of the flag attributes; that the
    code's [status] property is this dictionary is checked on every implementation trace. *)
Theorem C01_status_mirrors : forall (D : Detector) (s : d_st D),
  status D s = ("drift"%string, d_drift D s) ::
               (if d_has_warning_status D then [("warning"%string, d_warning D s)] else []).
Proof. reflexivity. Qed.
Print Assumptions C01_status_mirrors.

(** num_instances counts the updates since the last reset (all models but RDDM, which rewinds it). *)
Theorem C01_ninst_counts : forall A : Arith,
  (forall c ops, d_ninst (DDMD A) (exec (DDMD A) c ops) = updates_since_reset (DDMD A) ops) /\
  (forall c ops, d_ninst (CusumD A) (exec (CusumD A) c ops) = updates_since_reset (CusumD A) ops) /\
  (forall c ops, d_ninst (ADWIND A) (exec (ADWIND A) c ops) = updates_since_reset (ADWIND A) ops).
Proof. intro A. repeat match goal with |- _ /\ _ => split end; intros; first [apply ddm_ninst | apply cusum_ninst | apply adwin_ninst]. Qed.
