(** C08 — BOCD maintains the exact Bayesian run-length posterior.
    Model: Model/BOCD.v (log-space recursion of bocd.py: Gaussian unknown-mean model, constant
    hazard, scipy logsumexp / norm.logpdf, argmax verdict; prediction as repaired by F16).
    Spec:  Spec/BOCDSpec.v (Adams-MacKay recursion in LINEAR space: post_prec, post_mean,
    gauss_pdf, pred, joint, evidence, posterior).
    Proofs: Proofs/BOCDR.v.  [brun c vs] runs the model over the stream [vs] (oldest first);
    the spec takes the stream newest-first, i.e. [rev vs]; t = [length vs].
    [cfg_ok c]: prior_var > 0, data_var > 0, 0 < hazard < 1 and the constant handed to the
    model is ln (sqrt (2 pi)). *)
From Coq Require Import ZArith List Bool Lra Lia.
From FV Require Import NumSys RealA Sums Detector BOCD BOCDSpec BOCDR.
From Coq Require Import Reals.
Import ListNotations.
Local Open Scope R_scope.

(** Non-vacuity: the library's default configuration (prior N(0,1), data variance 1,
    hazard 0.01, min_num_instances 30) satisfies [cfg_ok]. *)
Example C08_cfg_ok_inhabited : cfg_ok cfg_default.
Proof. exact cfg_default_ok. Qed.

(** 1. Conjugate tables.  After t updates the model holds t+1 (mean, precision) pairs; entry k
    (k = 0..t; entry 0 is the prior) is the conjugate posterior given the k NEWEST values:
    precision 1/v0 + k/s2 and mean (m0/v0 + sum of those k values / s2) / precision. *)
Theorem C08_params : forall (c : bocd_cfg RealA) (vs : list R), cfg_ok c ->
  bmeans (brun c vs) = map (fun k => post_mean c (firstn k (rev vs))) (seq 0 (S (length vs))) /\
  bprecs (brun c vs) = map (post_prec c) (seq 0 (S (length vs))).
Proof. exact bocd_params. Qed.
Print Assumptions C08_params.

(** Key lemma: the model's max-shifted logsumexp of the logs of a non-empty list of positive
    reals is the log of their sum. *)
Theorem C08_logsumexp : forall l : list R, l <> [] -> Forall (fun x => 0 < x) l ->
  @logsumexp RealA (map ln l) = ln (Rsum l).
Proof. exact logsumexp_ln. Qed.
Print Assumptions C08_logsumexp.

(** Key lemma: scipy's norm(mu, sqrt va).logpdf(x), as transliterated, is the log of the
    Gaussian density with variance va > 0. *)
Theorem C08_logpdf : forall (c : bocd_cfg RealA) (x mu va : R),
  bo_ln_sqrt_2pi c = ln (sqrt (2 * PI)) -> 0 < va ->
  norm_logpdf c x mu (sqrt va) = ln (gauss_pdf x mu va).
Proof. exact norm_logpdf_ln. Qed.
Print Assumptions C08_logpdf.

(** 2. The message (log_message, kept UNNORMALISED by the code) is exactly the log of the
    joint J_t(k) = P(r_t = k, x_1..x_t), k = 0..t; every joint entry is strictly positive, so
    each logarithm is taken inside its domain. *)
Theorem C08_msg_is_ln_joint : forall (c : bocd_cfg RealA) (vs : list R), cfg_ok c ->
  bmsg (brun c vs) = map ln (joint c (rev vs)) /\ Forall (fun j => 0 < j) (joint c (rev vs)).
Proof. exact bocd_msg_is_ln_joint. Qed.
Print Assumptions C08_msg_is_ln_joint.

(** 3. The row log_r[t] is the log of the run-length posterior (all entries positive) ... *)
Theorem C08_row_is_ln_posterior : forall (c : bocd_cfg RealA) (vs : list R), cfg_ok c ->
  brow (brun c vs) = map ln (posterior c (rev vs)) /\ Forall (fun p => 0 < p) (posterior c (rev vs)).
Proof. exact bocd_row_is_ln_posterior. Qed.
Print Assumptions C08_row_is_ln_posterior.

(** ... hence exp of the row IS the exact posterior P(r_t = k | x_1..x_t) = J_t(k) / E_t,
    for every t >= 0 (at t = 0 the row is [0] = [ln 1]). *)
Theorem C08_row_is_posterior : forall (c : bocd_cfg RealA) (vs : list R), cfg_ok c ->
  map exp (brow (brun c vs)) = posterior c (rev vs).
Proof. exact bocd_row_is_posterior. Qed.
Print Assumptions C08_row_is_posterior.

(** 4. Every row sums to one. *)
Theorem C08_row_normalised : forall (c : bocd_cfg RealA) (vs : list R), cfg_ok c ->
  Rsum (map exp (brow (brun c vs))) = 1.
Proof. exact bocd_row_normalised. Qed.
Print Assumptions C08_row_normalised.

(** 5. After at least one update the predicted mean / variance are the mixtures
    sum_k P_t(k) * mu_k and sum_k P_t(k) * (1/prec_k + s2), with the weights of item 3 and
    the (post-update) parameters of item 1.  (Before any update both are None.) *)
Theorem C08_prediction : forall (c : bocd_cfg RealA) (vs : list R), cfg_ok c -> vs <> [] ->
  bpmean (brun c vs) =
    Some (Rsum (map (fun k => nth k (posterior c (rev vs)) 0 * post_mean c (firstn k (rev vs)))
                    (seq 0 (S (length vs))))) /\
  bpvar (brun c vs) =
    Some (Rsum (map (fun k => nth k (posterior c (rev vs)) 0 * (1 / post_prec c k + bo_data_var c))
                    (seq 0 (S (length vs))))).
Proof. exact bocd_prediction. Qed.
Print Assumptions C08_prediction.

(** 6. Verdict.  [argmaxR] (Proofs/BOCDR.v) is the position of the first maximum of a list
    of reals, defined independently of the model's scan; this theorem pins it down. *)
Theorem C08_argmaxR_is_first_max : forall l : list R, l <> [] ->
  let k := argmaxR l in
  (k < length l)%nat /\
  (forall j, (j < length l)%nat -> nth j l 0 <= nth k l 0) /\
  (forall j, (j < k)%nat -> nth j l 0 < nth k l 0).
Proof. exact argmaxR_spec. Qed.

(** numpy's argmax on the log row (the model's [argmax]) is the first maximum of the
    posterior itself (exp is strictly increasing). *)
Theorem C08_argmax_row : forall (c : bocd_cfg RealA) (vs : list R), cfg_ok c ->
  @argmax RealA (brow (brun c vs)) = Z.of_nat (argmaxR (posterior c (rev vs))).
Proof. exact bocd_argmax_row. Qed.
Print Assumptions C08_argmax_row.

(** From min_num_instances on, drift is reported exactly when the most probable run length
    is not t ... *)
Theorem C08_verdict : forall (c : bocd_cfg RealA) (vs : list R), cfg_ok c ->
  (bo_min c <= Z.of_nat (length vs))%Z ->
  (bdrift (brun c vs) = true <-> argmaxR (posterior c (rev vs)) <> length vs).
Proof. exact bocd_verdict. Qed.
Print Assumptions C08_verdict.

(** ... equivalently (run lengths range over 0..t): NO drift exactly when run length t is
    strictly more probable than every shorter run length ... *)
Theorem C08_verdict_explicit : forall (c : bocd_cfg RealA) (vs : list R), cfg_ok c ->
  (bo_min c <= Z.of_nat (length vs))%Z ->
  (bdrift (brun c vs) = false <->
   forall k, (k < length vs)%nat ->
     nth k (posterior c (rev vs)) 0 < nth (length vs) (posterior c (rev vs)) 0).
Proof. exact bocd_verdict_explicit. Qed.
Print Assumptions C08_verdict_explicit.

(** ... and before min_num_instances no drift is ever reported. *)
Theorem C08_no_drift_before_min : forall (c : bocd_cfg RealA) (vs : list R), cfg_ok c ->
  (Z.of_nat (length vs) < bo_min c)%Z -> bdrift (brun c vs) = false.
Proof. exact bocd_no_drift_before_min. Qed.
Print Assumptions C08_no_drift_before_min.

(** 7. An exact identity used by the long-run part of the check: with a constant hazard H the
    posterior mass of "a new run starts now" is exactly H after every update (J_t(0) = H * evidence_t),
    so exp(log_r[t][0]) = hazard for every t >= 1, whatever the data. *)
From FV Require Import BOCDExtra.
Theorem C08_changepoint_mass_is_hazard : forall (c : bocd_cfg RealA) (vs : list R) (v : R), cfg_ok c ->
  hd 0 (map exp (brow (brun c (vs ++ [v])))) = bo_hazard c.
Proof. exact bocd_row_head. Qed.
Print Assumptions C08_changepoint_mass_is_hazard.
