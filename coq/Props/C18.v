(** C18 — Incremental statistics, circular queues, prequential error match definitions.
    Property theorems only; proofs are in Proofs/StatsR.v and Proofs/QueueRef.v. *)
From Coq Require Import ZArith List Reals Bool.
From FV Require Import NumSys RealA Py Sums Queue Stats QueueRef StatsR AQueue AQueueR.
Import ListNotations.

(** Mean = arithmetic mean of all values (over R, any non-empty stream). *)
Theorem C18_mean_closed : forall vs : list R, vs <> [] ->
  m_mean (mean_run (A:=RealA) vs) = Rmean vs /\ m_n (mean_run (A:=RealA) vs) = Z.of_nat (length vs).
Proof. exact mean_closed. Qed.
Print Assumptions C18_mean_closed.

(** EWMA(alpha) = sum_i alpha (1-alpha)^(t-i) x_i. *)
Theorem C18_ewma_closed : forall (alpha : R) (vs : list R),
  e_mean (ewma_run (A:=RealA) alpha vs) = wsum (fun k => alpha * (1 - alpha) ^ k)%R vs.
Proof. exact ewma_closed. Qed.
Print Assumptions C18_ewma_closed.

(** CircularMean(size) = mean of the last [size] values; its counter is min(t, size). *)
Theorem C18_circular_mean_closed : forall (size : Z) (vs : list R), (1 <= size)%Z -> vs <> [] ->
  exists s, cmean_run (A:=RealA) (cmean_init size) vs = Ok s /\
    c_mean s = Rmean (lastn (Z.to_nat size) vs) /\
    c_n s = Z.of_nat (Nat.min (length vs) (Z.to_nat size)).
Proof. exact circular_mean_closed. Qed.
Print Assumptions C18_circular_mean_closed.

(** PrequentialError(alpha) = sum alpha^(t-i) e_i / sum alpha^(t-i); the denominator is positive. *)
Theorem C18_prequential_closed : forall (alpha : R) (es : list R), (0 < alpha <= 1)%R -> es <> [] ->
  (0 < wsum (fun k => alpha ^ k) (map (fun _ => 1) es))%R /\
  snd (preq_run alpha es) = (wsum (fun k => alpha ^ k) es / wsum (fun k => alpha ^ k) (map (fun _ => 1) es))%R.
Proof. exact prequential_closed. Qed.
Print Assumptions C18_prequential_closed.

(** The ring buffer refines a bounded deque for EVERY operation sequence and capacity >= 1:
    same outputs (evicted / dequeued elements, EmptyQueueError), same contents, same
    length / emptiness / fullness. *)
Theorem C18_queue_refines_deque : forall (T : Type) (max_len : Z) (ops : list (qop T)), (1 <= max_len)%Z ->
  forall q outs d outs',
  cq_run (cq_init max_len) ops = (q, outs) -> dq_run max_len [] ops = (d, outs') ->
  outs = outs' /\ cq_abs q = map Some d /\ cq_inv q /\
  cq_len q = Z.of_nat (length d) /\
  cq_is_empty q = (match d with [] => true | _ => false end) /\
  cq_is_full q = (Z.of_nat (length d) =? max_len)%Z.
Proof. intros T. exact (@queue_refines_deque T). Qed.
Print Assumptions C18_queue_refines_deque.

(** A queue that was only enqueued to exposes exactly the last [max_len] items. *)
Theorem C18_full_exposes_last : forall (T : Type) (max_len : Z) (vs : list T), (1 <= max_len)%Z ->
  fst (dq_run max_len [] (map (@Enq T) vs)) = lastn (Z.to_nat max_len) vs.
Proof. intros T. exact (@full_exposes_last T). Qed.
Print Assumptions C18_full_exposes_last.

(** AccuracyQueue: contents are the last [max_len] booleans and the counters count them. *)
Theorem C18_accuracy_counts : forall (max_len : Z) (vs : list bool), (1 <= max_len)%Z ->
  exists a, aq_run (aq_init max_len) vs = Ok a /\
    cq_abs (a_q a) = map Some (lastn (Z.to_nat max_len) vs) /\
    aq_num_true a = Z.of_nat (count_occ bool_dec (lastn (Z.to_nat max_len) vs) true) /\
    aq_num_false a = Z.of_nat (count_occ bool_dec (lastn (Z.to_nat max_len) vs) false).
Proof. exact accuracy_counts. Qed.
Print Assumptions C18_accuracy_counts.

(** ... and under ALL its operations: after ANY sequence of enqueue / dequeue / clear / keep-last calls (keep-last as
    repaired, finding F48) the queue holds a bounded deque's contents and the two counters count them. *)
Theorem C18_accuracy_counts_all_ops : forall (max_len : Z) (ops : list (qop bool)), (1 <= max_len)%Z ->
  let a := fst (aq_ops aq_keep (aq_init max_len) ops) in
  let d := fst (dq_run max_len [] ops) in
  cq_abs (a_q a) = map Some d /\
  aq_num_true a = Z.of_nat (count_occ bool_dec d true) /\
  aq_num_false a = Z.of_nat (count_occ bool_dec d false) /\
  aq_size a = Z.of_nat (length d).
Proof. exact accuracy_counts_all_ops. Qed.
Print Assumptions C18_accuracy_counts_all_ops.

(** The clause was FALSE of the code before the repair: enqueue True, False, True, keep-last leaves one element with
    num_true = 2 and num_false = -1 (the inherited method did not touch the counter). *)
Theorem C18_accuracy_counts_before_repair_refuted :
  let a := fst (aq_ops aq_keep_pre (aq_init 3) [Enq true; Enq false; Enq true; Keep]) in
  aq_size a = 1%Z /\ aq_num_true a = 2%Z /\ aq_num_false a = (-1)%Z.
Proof. exact accuracy_counts_pre_refuted. Qed.

(** Non-vacuity: a wrapped queue of capacity 2 after 3 enqueues, a dequeue and a keep-last. *)
Example C18_nonvacuous :
  snd (cq_run (cq_init 2) [Enq 1%Z; Enq 2%Z; Enq 3%Z; Deq; Keep; Deq; Deq]) =
   [OEl None; OEl None; OEl (Some 1%Z); OEl (Some 2%Z); OUnit; OEl (Some 3%Z); OErr EmptyQueueError].
Proof. vm_compute. reflexivity. Qed.
