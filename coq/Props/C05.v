(** C05 — ADWIN keeps an exact suffix window and shrinks it only on a significant cut.
    Model: Model/ADWIN.v (rows of buckets, compress cascade, delete, eps_cut scan, shrink loop).
    Proofs: Proofs/ADWINR.v. *)
From Coq Require Import ZArith List Bool Reals.
From FV Require Import NumSys RealA Py Sums Detector ADWIN Structural ADWINR.
Import ListNotations.

(** After every update the window is exactly a suffix of the stream: there is k such that the
    bucket list (oldest first, sizes 2^i) partitions the last k values into consecutive
    segments, each bucket storing the sum and the sum of squared deviations of its segment, and
    width / total / variance are the count / sum / SSD of those k values.  [AWin] and [Rep] are
    defined in Proofs/ADWINR.v. *)
Theorem C05_window_is_suffix : forall (c : adwin_cfg RealA) (vs : list R), (1 <= ad_m c)%Z ->
  exists k, (k <= length vs)%nat /\ AWin (arun c vs) (lastn k vs).
Proof. exact adwin_window_is_suffix. Qed.
Print Assumptions C05_window_is_suffix.

(** what [AWin] says, spelled out *)
Theorem C05_AWin_unfold : forall (s : adwin_st RealA) (w : list R), AWin s w <->
  Rep (flat s) w /\ awidth s = Z.of_nat (length w) /\ atotal s = Rsum w /\ avar s = Rssd w.
Proof. intros; reflexivity. Qed.

(** The window shrinks only at a check (every clock-th update once width > min_num_instances):
    for every number system. *)
Theorem C05_shrinks_only_at_checks : forall (A : Arith) (c : adwin_cfg A) (s : adwin_st A) (v : num A),
  (awidth (adwin_step c s v) < awidth s + 1)%Z -> is_check c (an s + 1) (awidth s + 1) = true.
Proof. exact adwin_shrinks_only_at_checks. Qed.
Print Assumptions C05_shrinks_only_at_checks.

(** drift is reported exactly at the updates where data was dropped: for every number system,
    in every reachable state ([AShape] is an invariant of all reachable states). *)
Theorem C05_drift_iff_dropped : forall (A : Arith) (c : adwin_cfg A) ops (v : num A), (1 <= ad_m c)%Z ->
  let s := exec (ADWIND A) c ops in
  (adrift (adwin_step c s v) = true <-> (awidth (adwin_step c s v) < awidth s + 1)%Z).
Proof. intros A c ops v Hm s. apply adwin_drift_iff_dropped. apply adwin_shape_reachable. exact Hm. Qed.
Print Assumptions C05_drift_iff_dropped.

(** A bucket is dropped only when some split of the window (before that drop) into an older
    part W0 = the first j buckets and a newer part W1, both larger than min_window_size,
    has sub-window means differing by more than eps_cut ([split_exceeds]) ... *)
Theorem C05_shrink_justified : forall (c : adwin_cfg RealA) (fuel : nat) (s : adwin_st RealA),
  snd (shrink c fuel s) = true ->
  exists j, (1 <= j <= length (flat s))%nat /\
     let '(w0, w1, t0, t1) := split_at s j in split_exceeds c s w0 w1 t0 t1 = true.
Proof. intros c fuel s H. apply found_cut_iff. exact (shrink_justified c fuel s H). Qed.
Print Assumptions C05_shrink_justified.

(** ... where the split's counts and totals ARE those of a contiguous older / newer part of
    the window ... *)
Theorem C05_split_meaning : forall (s : adwin_st RealA) (w : list R) (j : nat), AWin s w ->
  exists wa wb, w = wa ++ wb /\ Rep (firstn j (flat s)) wa /\ Rep (skipn j (flat s)) wb /\
    split_at s j = (Z.of_nat (length wa), Z.of_nat (length wb), Rsum wa, Rsum wb).
Proof. exact split_at_meaning. Qed.

(** ... and after a check no bucket-boundary split of the final window exceeds eps_cut. *)
Theorem C05_after_check_quiet : forall (c : adwin_cfg RealA) (s : adwin_st RealA), AShape s ->
  let s' := fst (shrink c (S (length (flat s))) s) in
  forall j, (1 <= j <= length (flat s'))%nat ->
     let '(w0, w1, t0, t1) := split_at s' j in split_exceeds c s' w0 w1 t0 t1 = false.
Proof.
  intros c s HS s' j Hj.
  pose proof (shrink_quiet c s HS) as Hq. fold s' in Hq.
  destruct (split_at s' j) as [[[w0 w1] t0] t1] eqn:E.
  destruct (split_exceeds c s' w0 w1 t0 t1) eqn:Ex; [|reflexivity].
  exfalso. assert (found_cut c s' = true) as Hf.
  { apply found_cut_iff. exists j. split; [exact Hj|]. rewrite E. exact Ex. }
  congruence.
Qed.
Print Assumptions C05_after_check_quiet.

(** silent during warm-up (every number system) and on constant non-negative streams (R):
    see Props/C01.v *)

(** non-vacuity: a binary64 run in which the window really shrinks (drift at the 8th update) *)
From Coq Require Import PrimFloat.
From FV Require Import FloatA.
Example C05_nonvacuous :
  let c := {| ad_clock := 1; ad_delta := 0x1.ccccccccccccdp-1%float; ad_m := 2; ad_mws := 1; ad_min := 3 |} : adwin_cfg FloatA in
  map (fun s => (awidth s, adrift s))
      (trace (ADWIND FloatA) c (map Upd [0;0;0;0;0;0;0;0;9;9;9;9;9]%float)) =
  [(1,false);(2,false);(3,false);(4,false);(5,false);(6,false);(7,false);(8,false);(9,false);(10,false);(11,false);(4,true);(5,false)]%Z.
Proof. vm_compute. reflexivity. Qed.
