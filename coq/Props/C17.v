(** C17 — History callback records faithfully, never interferes; reset fires iff p <= alpha.
    Model: Model/Callbacks.v (HistoryConceptDrift attached to ANY streaming detector model,
    the constructor-level registration chain, ResetStatisticalTest with the batch compare wiring).
    Proofs: Proofs/CallbacksR.v.  All theorems are for every detector model [D], every
    configuration, every history of updates and resets, every set of tracked variables. *)
From Coq Require Import ZArith String List Bool.
From FV Require Import NumSys FloatA Py Detector SPC Callbacks CallbacksR.
Import ListNotations.

(** The registration chain (each constructor level re-registers the detector's variable names)
    yields every registered name exactly once. *)
Theorem C17_registered_once : forall levels,
  NoDup (register levels) /\ (forall x, In x (register levels) <-> exists l, In l levels /\ In x l).
Proof. intro levels. split; [apply register_nodup|intro x; apply register_complete]. Qed.
Print Assumptions C17_registered_once.

(** Exactly one entry per update for every tracked variable: the history of variable k is the
    list of its values in the detector states right after each update since the last reset;
    likewise "value" is the list of inputs, "num_instances" and "drift" the counter and the flag
    after each update.  (The logs returned by update ARE this history: [logs] is the callback's
    history record itself.) *)
Theorem C17_history_faithful : forall (D : Detector) (V : Type) (vars : d_st D -> string -> V)
    (c : d_cfg D) (tracked : list string) (ops : list (op (d_in D))), NoDup tracked ->
  let h := logs D V (sys_exec D V vars c tracked ops) in
  let sts := states_since_reset D c ops in
  h_value D V h = snd (base_and_tail D c ops) /\
  h_ninst D V h = map (d_ninst D) sts /\
  h_drift D V h = map (d_drift D) sts /\
  (forall k, In k tracked -> lookup V k (h_vars D V h) = Some (map (fun s => vars s k) sts)) /\
  Z.of_nat (length sts) = updates_since_reset D ops.
Proof.
  intros D V vars c tracked ops Hnd h sts.
  destruct (history_contents D V vars c tracked ops) as (Hv & Hn & Hd & _).
  repeat split; try assumption.
  - apply history_one_per_update; assumption.
  - apply history_length.
Qed.
Print Assumptions C17_history_faithful.

(** What a duplicated registration does (the defect repaired by the fix for F26): a variable
    listed j times gets j entries per update. *)
Theorem C17_duplicates_multiply : forall (D : Detector) (V : Type) (vars : d_st D -> string -> V)
    (c : d_cfg D) (tracked : list string) (ops : list (op (d_in D))) k, In k tracked ->
  exists l, lookup V k (h_vars D V (logs D V (sys_exec D V vars c tracked ops))) = Some l /\
            length l = (count_occ string_dec tracked k * length (states_since_reset D c ops))%nat.
Proof.
  intros D V vars c tracked ops k Hk.
  destruct (history_contents D V vars c tracked ops) as (_ & _ & _ & H).
  eexists. split; [apply H; exact Hk|apply col_length].
Qed.

(** Attaching the callback never changes a verdict: the detector state (hence drift, warning,
    every statistic) after any history equals that of the detector run without it. *)
Theorem C17_noninterference : forall (D : Detector) (V : Type) (vars : d_st D -> string -> V)
    (c : d_cfg D) (tracked : list string) (ops : list (op (d_in D))),
  fst (sys_exec D V vars c tracked ops) = exec D c ops.
Proof. exact history_noninterfering. Qed.
Print Assumptions C17_noninterference.

(** reset empties the history (and keeps the keys). *)
Theorem C17_reset_empties : forall (D : Detector) (V : Type) (vars : d_st D -> string -> V)
    (c : d_cfg D) (tracked : list string) (ops : list (op (d_in D))),
  let h := logs D V (sys_exec D V vars c tracked (ops ++ [Rst])) in
  h_value D V h = [] /\ h_ninst D V h = [] /\ h_drift D V h = [] /\
  forall k, In k tracked -> lookup V k (h_vars D V h) = Some [].
Proof. exact reset_empties. Qed.
Print Assumptions C17_reset_empties.

(** ResetStatisticalTest: the detector is reset exactly when the returned p-value <= alpha
    (in the number system's own comparison: a NaN p-value does not reset), and the result
    handed to the caller is the one computed with the reference in place. *)
Theorem C17_reset_iff : forall (A : Arith) (Ref X Res : Type) (test : Ref -> X -> Res) (pval : Res -> num A)
    (alpha : num A) (r : Ref) (x : X),
  exists s', compare_cb Ref X Res test pval alpha (Some r) x = Ok (s', test r x) /\
             (s' = None <-> leb (pval (test r x)) alpha = true) /\
             (s' = Some r <-> leb (pval (test r x)) alpha = false).
Proof. intros. apply reset_iff. Qed.
Print Assumptions C17_reset_iff.

(** ... over any sequence of fit / compare / reset calls. *)
Theorem C17_reset_histories : forall (A : Arith) (Ref X Res : Type) (test : Ref -> X -> Res) (pval : Res -> num A)
    (alpha : num A) (ops : list (bop Ref X)) (s : bstate Ref),
  snd (brun Ref X Res test pval alpha s ops) = expected Ref X Res test pval alpha s ops.
Proof. intros. apply brun_outputs. Qed.
Print Assumptions C17_reset_histories.

(** Non-vacuity: DDM's three constructor levels register "warning" twice; it is tracked once,
    and on the stream 0,1,1,reset,1 the history holds exactly one entry (after the reset). *)
Example C17_register_ddm :
  register [["warning"]; ["error_rate"; "min_error_rate"; "min_std"; "warning"]]%string
  = ["warning"; "error_rate"; "min_error_rate"; "min_std"]%string.
Proof. reflexivity. Qed.
Example C17_register_dup_ddm :
  count_occ string_dec (register_dup [["warning"]; ["error_rate"; "min_error_rate"; "min_std"; "warning"]]%string) "warning"%string = 2%nat.
Proof. reflexivity. Qed.
