(** C15 — save / load at any point yields an indistinguishable detector.

    What is proved is about the model of frouros/utils/persistence.py (Model/Persist.v) and
    about EVERY [Detector] record (so about all 11 detector models, and about each of them
    paired with the history callback, [HistD]).  pickle is not modelled: its contract
    [PickleContract] (a picklable graph written with protocol 0..5 is read back equal; a
    file that was only opened cannot be read) is a HYPOTHESIS of the theorems that need it
    — it is the trusted part, exercised on the real pickle by harness/c15.py at every
    save point. *)
From Coq Require Import ZArith String List Bool PrimFloat.
From FV Require Import NumSys FloatA Py Detector SPC Persist PersistR.
Import ListNotations.
Local Open Scope Z_scope.

(** Rejection clause.  If the object is not an instance of BaseDetector / BaseCallback, or
    the protocol is not in range(HIGHEST_PROTOCOL+1) as Python's [in] decides it, save raises
    (TypeError resp. ValueError; the type is checked first) and the file system is the SAME
    function as before: the code validates before it opens the file (whichever way the pickle
    is then written, [w]).  No assumption on pickle. *)
Theorem C15_rejects_before_write :
  forall (obj : Type) (kind_of : obj -> kind) (picklable : obj -> bool) (bytes : Type) (empty_file : bytes)
         (dumps dump_partial : obj -> Z -> bytes) (dir_exists : string -> bool)
         (w : write_order) (o : obj) (path : string) (pr : pyproto) (f : fs bytes),
  is_savable (kind_of o) = false \/ proto_in_range pr = false ->
  exists e, save obj kind_of picklable bytes empty_file dumps dump_partial dir_exists w o path pr f = (f, Raise e)
            /\ (e = TypeError \/ e = ValueError).
Proof. exact rejects_before_write. Qed.
Print Assumptions C15_rejects_before_write.

(** ... hence after a rejected save every path loads exactly what it loaded before (in
    particular a path that did not exist still raises FileNotFoundError). *)
Theorem C15_rejected_load_unchanged :
  forall (obj : Type) (kind_of : obj -> kind) (picklable : obj -> bool) (bytes : Type) (empty_file : bytes)
         (dumps dump_partial : obj -> Z -> bytes) (loads : bytes -> res obj) (dir_exists : string -> bool)
         (w : write_order) (o : obj) (path : string) (pr : pyproto) (f : fs bytes) (q : string),
  is_savable (kind_of o) = false \/ proto_in_range pr = false ->
  load obj bytes loads q (fst (save obj kind_of picklable bytes empty_file dumps dump_partial dir_exists w o path pr f))
  = load obj bytes loads q f.
Proof. exact rejected_load_unchanged. Qed.
Print Assumptions C15_rejected_load_unchanged.

(** The stronger reading "whatever is not an int in 0..5 is rejected with the file system
    unchanged" is FALSE of the code as found (write order DumpIntoOpenFile): the float 2.0 satisfies [2.0 in range(6)], so the file
    is opened (created, or truncated: the previous content [old] is lost) and only then
    pickle.dump raises TypeError.  What is left is an empty file, which load cannot read —
    so no USABLE file is written, which is all the property asks.  (Observation O-C15-1.) *)
Theorem C15_nonint_protocol_unchanged_refuted :
  forall (obj : Type) (kind_of : obj -> kind) (picklable : obj -> bool) (bytes : Type) (empty_file : bytes)
         (dumps dump_partial : obj -> Z -> bytes) (loads : bytes -> res obj) (dir_exists : string -> bool),
  PickleContract obj picklable bytes empty_file dumps loads ->
  forall (o : obj) (path : string) (f : fs bytes) (old : bytes),
  is_savable (kind_of o) = true -> dir_exists path = true -> f path = Some old ->
  exists pr, proto_index pr = None /\
    snd (save obj kind_of picklable bytes empty_file dumps dump_partial dir_exists DumpIntoOpenFile o path pr f) = Raise TypeError /\
    fst (save obj kind_of picklable bytes empty_file dumps dump_partial dir_exists DumpIntoOpenFile o path pr f) path = Some empty_file /\
    load obj bytes loads path (fst (save obj kind_of picklable bytes empty_file dumps dump_partial dir_exists DumpIntoOpenFile o path pr f))
      = Raise OtherError.
Proof.
  intros obj kind_of picklable bytes empty_file dumps dump_partial loads dir_exists C o path f old Hk Hd Ho.
  exists (PFloat 2 true).
  exact (float_protocol_truncates obj kind_of picklable bytes empty_file dumps dump_partial loads dir_exists C o path f old Hk Hd Ho).
Qed.
Print Assumptions C15_nonint_protocol_unchanged_refuted.

(** Round trip for any savable object (detector OR callback), under the pickle contract. *)
Theorem C15_save_then_load :
  forall (obj : Type) (kind_of : obj -> kind) (picklable : obj -> bool) (bytes : Type) (empty_file : bytes)
         (dumps dump_partial : obj -> Z -> bytes) (loads : bytes -> res obj) (dir_exists : string -> bool),
  PickleContract obj picklable bytes empty_file dumps loads ->
  forall (w : write_order) (o : obj) (path : string) (p : Z) (f : fs bytes),
  is_savable (kind_of o) = true -> 0 <= p <= HIGHEST_PROTOCOL -> dir_exists path = true -> picklable o = true ->
  snd (save obj kind_of picklable bytes empty_file dumps dump_partial dir_exists w o path (PInt p) f) = Ok tt /\
  load obj bytes loads path (fst (save obj kind_of picklable bytes empty_file dumps dump_partial dir_exists w o path (PInt p) f)) = Ok o.
Proof. exact save_then_load. Qed.
Print Assumptions C15_save_then_load.

(** Resume equivalence, for EVERY detector model D, configuration, history [pre] (the save
    point is after it: any prefix of any history), continuation [post], protocol 0..5 and
    target path: the save succeeds; the loaded (config, state) EQUALS the original's; the
    states the loaded detector goes through on [post] are those of the original continued,
    and are exactly the last |post| states of the run of [pre ++ post] in which nothing was
    ever saved.  Every observable (drift, warning, status, num_instances, statistics) is a
    function of the state, so all outputs coincide.  Rests on the pickle contract only. *)
Theorem C15_resume_equiv :
  forall (D : Detector) (picklable : dobj D -> bool) (bytes : Type) (empty_file : bytes)
         (dumps dump_partial : dobj D -> Z -> bytes) (loads : bytes -> res (dobj D)) (dir_exists : string -> bool) (w : write_order),
  PickleContract (dobj D) picklable bytes empty_file dumps loads ->
  forall (c : d_cfg D) (pre post : list (op (d_in D))) (path : string) (p : Z) (f : fs bytes),
  0 <= p <= HIGHEST_PROTOCOL -> dir_exists path = true -> picklable (c, exec D c pre) = true ->
  snd (dsave D picklable bytes empty_file dumps dump_partial dir_exists w (c, exec D c pre) path (PInt p) f) = Ok tt /\
  exists c' s',
    dload D bytes loads path
      (fst (dsave D picklable bytes empty_file dumps dump_partial dir_exists w (c, exec D c pre) path (PInt p) f)) = Ok (c', s') /\
    c' = c /\ s' = exec D c pre /\
    trace_from D c' s' post = trace_from D c (exec D c pre) post /\
    trace_from D c' s' post = skipn (length pre) (trace D c (pre ++ post)) /\
    exec_from D c' s' post = exec D c (pre ++ post).
Proof. exact resume_equiv. Qed.
Print Assumptions C15_resume_equiv.

(** The same with a HistoryConceptDrift callback attached (its lists are part of the state). *)
Theorem C15_resume_equiv_with_history_callback :
  forall (D : Detector) (picklable : dobj (HistD D) -> bool) (bytes : Type) (empty_file : bytes)
         (dumps dump_partial : dobj (HistD D) -> Z -> bytes) (loads : bytes -> res (dobj (HistD D)))
         (dir_exists : string -> bool) (w : write_order),
  PickleContract (dobj (HistD D)) picklable bytes empty_file dumps loads ->
  forall (c : d_cfg D) (pre post : list (op (d_in D))) (path : string) (p : Z) (f : fs bytes),
  0 <= p <= HIGHEST_PROTOCOL -> dir_exists path = true -> picklable (c, exec (HistD D) c pre) = true ->
  exists c' s',
    dload (HistD D) bytes loads path
      (fst (dsave (HistD D) picklable bytes empty_file dumps dump_partial dir_exists w (c, exec (HistD D) c pre) path (PInt p) f))
      = Ok (c', s') /\
    trace_from (HistD D) c' s' post = skipn (length pre) (trace (HistD D) c (pre ++ post)).
Proof.
  intros D pk bytes e du dp lo de w C c pre post path p f Hp Hd Hk.
  destruct (resume_equiv (HistD D) pk bytes e du dp lo de w C c pre post path p f Hp Hd Hk)
    as (_ & c' & s' & Hl & _ & _ & _ & Ht & _).
  exists c', s'. split; assumption.
Qed.
Print Assumptions C15_resume_equiv_with_history_callback.

(** Saving twice along one history (save, load, continue, save again, load, continue). *)
Theorem C15_resume_twice :
  forall (D : Detector) (picklable : dobj D -> bool) (bytes : Type) (empty_file : bytes)
         (dumps dump_partial : dobj D -> Z -> bytes) (loads : bytes -> res (dobj D)) (dir_exists : string -> bool) (w : write_order),
  PickleContract (dobj D) picklable bytes empty_file dumps loads ->
  forall (c : d_cfg D) (pre mid post : list (op (d_in D))) (path : string) (p q : Z) (f : fs bytes),
  0 <= p <= HIGHEST_PROTOCOL -> 0 <= q <= HIGHEST_PROTOCOL -> dir_exists path = true ->
  picklable (c, exec D c pre) = true -> picklable (c, exec D c (pre ++ mid)) = true ->
  exists c1 s1 c2 s2,
    dload D bytes loads path (fst (dsave D picklable bytes empty_file dumps dump_partial dir_exists w (c, exec D c pre) path (PInt p) f)) = Ok (c1, s1) /\
    dload D bytes loads path (fst (dsave D picklable bytes empty_file dumps dump_partial dir_exists w (c1, exec_from D c1 s1 mid) path (PInt q) f)) = Ok (c2, s2) /\
    trace_from D c2 s2 post = skipn (length (pre ++ mid)) (trace D c ((pre ++ mid) ++ post)).
Proof. exact resume_twice. Qed.
Print Assumptions C15_resume_twice.

(** Every one of the 35 classes can be pickled after any history (its object graph never
    holds a callable that pickle cannot reach by qualified name) — in every revision of the
    code in which BaseECDDConfig does not store the class-body lambda (the key is stored, or
    the polynomials are module-level functions).  Which revision is in force is determined
    on the real object graphs by harness/c15.py at every run. *)
Theorem C15_all_picklable : forall r c, r <> StoresLambda -> picklable_cls r c = true.
Proof. exact all_picklable. Qed.
Print Assumptions C15_all_picklable.

Theorem C15_all_graphs_picklable : forall r cs, r <> StoresLambda -> picklable_graph r cs = true.
Proof. exact graph_picklable_fixed. Qed.
Print Assumptions C15_all_graphs_picklable.

(* FULL (for the code as found): forall c : cls, picklable_cls StoresLambda c = true.
   FALSE (F25): see the _refuted theorem; proved for the other 34 classes. *)
Theorem C15_all_picklable_partial : forall c : cls, c <> C_ECDDWT -> picklable_cls StoresLambda c = true.
Proof. exact all_picklable_but_ecddwt. Qed.
Print Assumptions C15_all_picklable_partial.

(** F25: ECDDWT's config stores [average_run_length_map[arl]], a lambda written in the body
    of class BaseECDDConfig (qualified name BaseECDDConfig.<lambda>, not an attribute of the
    class): pickle raises PicklingError for every protocol.  Witness replayed on the code by
    harness/c15.py (clause "picklable") whenever the code is in that revision. *)
Theorem C15_all_picklable_refuted :
  exists c, In c all_classes /\ cls_kind c = KDetector /\ picklable_cls StoresLambda c = false /\
            In ("._config.control_limit_func"%string, ClassBodyLambda) (callable_fields StoresLambda c).
Proof. exact ecddwt_not_picklable. Qed.
Print Assumptions C15_all_picklable_refuted.

(** ... from either end: any graph containing an ECDDWT (e.g. a HistoryConceptDrift attached
    to it) is unpicklable, every graph without one is picklable; and an unpicklable graph
    makes save raise PicklingError AFTER the target was opened for writing. *)
Theorem C15_graph_picklable_iff_no_ecddwt : forall cs : list cls,
  (In C_ECDDWT cs -> picklable_graph StoresLambda cs = false) /\
  (~ In C_ECDDWT cs -> picklable_graph StoresLambda cs = true).
Proof. intros cs. split; [apply graph_with_ecddwt | apply graph_without_ecddwt]. Qed.
Print Assumptions C15_graph_picklable_iff_no_ecddwt.

Theorem C15_unpicklable_raises_after_open :
  forall (obj : Type) (kind_of : obj -> kind) (picklable : obj -> bool) (bytes : Type) (empty_file : bytes)
         (dumps dump_partial : obj -> Z -> bytes) (dir_exists : string -> bool)
         (o : obj) (path : string) (p : Z) (f : fs bytes),
  is_savable (kind_of o) = true -> 0 <= p <= HIGHEST_PROTOCOL -> dir_exists path = true -> picklable o = false ->
  save obj kind_of picklable bytes empty_file dumps dump_partial dir_exists DumpIntoOpenFile o path (PInt p) f
  = (upd bytes f path (dump_partial o p), Raise PicklingError).
Proof. exact save_unpicklable. Qed.
Print Assumptions C15_unpicklable_raises_after_open.

(** In the revision of save() that pickles to memory first (pickle.dumps, then open + write),
    NO save that fails changes the file system: neither an unpicklable graph nor a float
    protocol can destroy a previous good save. *)
Theorem C15_failed_save_leaves_fs_when_dumps_first :
  forall (obj : Type) (kind_of : obj -> kind) (picklable : obj -> bool) (bytes : Type) (empty_file : bytes)
         (dumps dump_partial : obj -> Z -> bytes) (dir_exists : string -> bool)
         (o : obj) (path : string) (pr : pyproto) (f : fs bytes),
  snd (save obj kind_of picklable bytes empty_file dumps dump_partial dir_exists DumpsThenWrite o path pr f) <> Ok tt ->
  fst (save obj kind_of picklable bytes empty_file dumps dump_partial dir_exists DumpsThenWrite o path pr f) = f.
Proof. exact failed_save_leaves_fs. Qed.
Print Assumptions C15_failed_save_leaves_fs_when_dumps_first.

(* ---------------------------------------------------------------------- non-vacuity *)

Open Scope float_scope.
Definition nv_D : Detector := HistD (DDMD FloatA).
Definition nv_c : d_cfg nv_D := {| dd_warn := 0.5; dd_drift := 1; dd_min := 2 |}.
Definition nv_pre : list (op (d_in nv_D)) := [Upd 0; Upd 0; Upd 0; Upd 0].
Definition nv_post : list (op (d_in nv_D)) := [Upd 1; Upd 1; Rst; Upd 1; Upd 0].
Definition nv_loads (b : option (dobj nv_D)) : res (dobj nv_D) :=
  match b with Some o => Ok o | None => Raise OtherError end.

(** The hypotheses are satisfiable (the identity pickle meets the contract) and the
    conclusion is not trivial: DDM with a history callback, saved after four updates with
    protocol 3 into an empty file system; the loaded detector then reports drift twice, is
    reset (history cleared), and ends in the warning zone with two history entries. *)
Example C15_nonvacuous :
  PickleContract (dobj nv_D) (fun _ => true) (option (dobj nv_D)) None (fun o _ => Some o) nv_loads /\
  exists c' s',
    dload nv_D _ nv_loads "det.pkl"
      (fst (dsave nv_D (fun _ => true) _ None (fun o _ => Some o) (fun o _ => Some o) (fun _ => true) DumpIntoOpenFile
              (nv_c, exec nv_D nv_c nv_pre) "det.pkl" (PInt 3) (fun _ => None))) = Ok (c', s') /\
    map (fun s => (d_drift nv_D s, d_warning nv_D s, d_ninst nv_D s, length (snd s))) (trace_from nv_D c' s' nv_post)
    = [(true, false, 5%Z, 5%nat); (true, false, 6%Z, 6%nat); (false, false, 0%Z, 0%nat);
       (false, false, 1%Z, 1%nat); (false, true, 2%Z, 2%nat)].
Proof.
  split; [apply contract_satisfiable|].
  (* obtained FROM the theorem, instantiated with the identity pickle *)
  destruct (resume_equiv nv_D (fun _ => true) (option (dobj nv_D)) None (fun o _ => Some o) (fun o _ => Some o)
              nv_loads (fun _ => true) DumpIntoOpenFile (contract_satisfiable _ _) nv_c nv_pre nv_post "det.pkl" 3 (fun _ => None))
    as (_ & c' & s' & Hl & -> & -> & _ & _ & _).
  - unfold HIGHEST_PROTOCOL. split; discriminate.
  - reflexivity.
  - reflexivity.
  - exists nv_c, (exec nv_D nv_c nv_pre). split; [exact Hl|]. vm_compute. reflexivity.
Qed.

Example C15_rejection_nonvacuous :
  (* an int object, a detector class: KOther; protocols -1, 6, 2.5, None are out of range; True and 2.0 are in *)
  is_savable KOther = false /\
  map proto_in_range [PInt (-1); PInt 6; PFloat 2 false; PNonNumeric; PInt 0; PInt 5; PBool true; PFloat 2 true]
  = [false; false; false; false; true; true; true; true].
Proof. split; reflexivity. Qed.
