(** C20 — Synthetic generators follow their concept; dataset download falls through mirrors.
    Property theorems only; proofs are in Proofs/DatasetsR.v, the model (a transliteration of
    frouros/datasets/{synthetic,base,real}.py) in Model/Datasets.v.

    Oracles.  NumPy's global generator, the network and the ARFF parser are inputs of the
    model: [rng i] is what the generator returned while sample [i] was produced, a [mirror] is
    the script of what HEAD / GET answer for one URL, [parse] is the parser as a function of
    the file content.  Every theorem quantifies over ALL such oracles; where NumPy's contract is
    needed it is a visible premise ([0 <= random()], features in [0,10)). *)
From Coq Require Import ZArith List Reals Bool.
From FV Require Import NumSys RealA Py Datasets DatasetsR.
Import ListNotations.

(* ---------------------------------------------------------------------- generators *)

(** SEA at noise 0 (any argument that the noise check maps to 0: [0], [0.0], [False]): for
    every block value the code accepts, every sample count and every draw sequence, sample i
    has the three uniform draws as features and label 1 iff x0 + x1 <= threshold(block)
    (8, 9, 7, 9.5), label 0 iff x0 + x1 > threshold.  The comparison is [<=], not [<]. *)
Theorem C20_sea_labels : forall (block noise ns : pyval RealA) (rng : nat -> sea_draw RealA) l,
  (forall i, 0 <= d_u (rng i))%R ->
  noise_check noise = Ok 0%R ->
  sea_dataset block noise ns rng = Ok l ->
  exists k thr, pyreal block = Some (IZR k) /\ sea_threshold k = Some thr /\
  forall i, (i < length l)%nat ->
    exists y, nth_error l i = Some ([d_x0 (rng i); d_x1 (rng i); d_x2 (rng i)], y) /\
      (y = 1%Z <-> (d_x0 (rng i) + d_x1 (rng i) <= thr)%R) /\
      (y = 0%Z <-> (thr < d_x0 (rng i) + d_x1 (rng i))%R).
Proof. exact sea_labels_lemma. Qed.
Print Assumptions C20_sea_labels.

(** ... and at noise 1 every label is the [randint(2)] draw (the concept is ignored). *)
Theorem C20_sea_noise_one : forall (block noise ns : pyval RealA) (rng : nat -> sea_draw RealA) l,
  (forall i, d_u (rng i) < 1)%R ->
  noise_check noise = Ok 1%R ->
  sea_dataset block noise ns rng = Ok l ->
  forall i, (i < length l)%nat ->
    nth_error l i = Some ([d_x0 (rng i); d_x1 (rng i); d_x2 (rng i)], d_bit (rng i)).
Proof. exact sea_noise_one_lemma. Qed.
Print Assumptions C20_sea_noise_one.

(** Dummy: label = class_ iff x0 + x1 < 10 (strict), the other class iff x0 + x1 >= 10. *)
Theorem C20_dummy_labels : forall (cls ns : pyval RealA) (rng : nat -> dummy_draw RealA) l,
  dummy_dataset cls ns rng = Ok l ->
  exists c, pyreal cls = Some (IZR c) /\ (c = 0 \/ c = 1)%Z /\
  forall i, (i < length l)%nat ->
    exists y, nth_error l i = Some ([e_x0 (rng i); e_x1 (rng i)], y) /\
      (y = c <-> (e_x0 (rng i) + e_x1 (rng i) < 10)%R) /\
      (y = (1 - c)%Z <-> (10 <= e_x0 (rng i) + e_x1 (rng i))%R).
Proof. exact dummy_labels_lemma. Qed.
Print Assumptions C20_dummy_labels.

(** Exactly [num_samples] samples (an int / bool >= 1), in every number system; the iterator is
    lazy: [k] calls of [next] yield the first [k] samples and it stops after the n-th. *)
Theorem C20_gen_count : forall (A : Arith),
  (forall (block noise ns : pyval A) rng l, sea_dataset block noise ns rng = Ok l ->
     exists n, n_range ns = Ok n /\ (1 <= n)%Z /\ Z.of_nat (length l) = n) /\
  (forall (cls ns : pyval A) rng l, dummy_dataset cls ns rng = Ok l ->
     exists n, n_range ns = Ok n /\ (1 <= n)%Z /\ Z.of_nat (length l) = n) /\
  (forall (block noise ns : pyval A) rng g k, sea_generate block noise ns = Ok g ->
     sea_drain k g rng = firstn k (sea_drain (S (Z.to_nat (g_n g))) g rng)) /\
  (forall (g : sea_gen A) d, (g_n g <= Z.of_nat (g_pos g))%Z -> sea_next g d = None).
Proof.
  intros A. split; [exact sea_count|]. split; [exact dummy_count|].
  split; [exact sea_prefix|exact sea_stop].
Qed.
Print Assumptions C20_gen_count.

(** The data set is a function of the arguments and of the draws consumed by its own samples:
    two runs seeing the same draws (equal seeds, nothing else touching the global generator)
    return the same list. *)
Theorem C20_gen_deterministic : forall (A : Arith),
  (forall (block noise ns : pyval A) rng rng' l, sea_dataset block noise ns rng = Ok l ->
     (forall i, (i < length l)%nat -> rng i = rng' i) -> sea_dataset block noise ns rng' = Ok l) /\
  (forall (cls ns : pyval A) rng rng' l, dummy_dataset cls ns rng = Ok l ->
     (forall i, (i < length l)%nat -> rng i = rng' i) -> dummy_dataset cls ns rng' = Ok l).
Proof. intros A. split; [exact sea_deterministic|exact dummy_deterministic]. Qed.
Print Assumptions C20_gen_deterministic.

(** The features are the uniform draws, untouched: they lie in [0,10) whenever NumPy's do. *)
Theorem C20_features_in_range : forall (block noise ns : pyval RealA) rng l,
  (forall i, 0 <= d_x0 (rng i) < 10 /\ 0 <= d_x1 (rng i) < 10 /\ 0 <= d_x2 (rng i) < 10)%R ->
  sea_dataset block noise ns rng = Ok l ->
  forall X y x, In (X, y) l -> In x X -> (0 <= x < 10)%R.
Proof. exact sea_features_range. Qed.
Print Assumptions C20_features_in_range.

(** gen_rejects, as an equivalence over all argument values (ints, bools, floats, NaN, None,
    str, list): a generator is returned iff block == 1..4, 0 <= noise <= 1 and num_samples is an
    int >= 1 (Dummy: class_ == 0 or 1); everything else raises InvalidBlockError, ValueError or
    TypeError.  Values EQUAL to a valid one (True, 1.0) are valid, as in Python. *)
Theorem C20_gen_rejects :
  (forall block noise ns : pyval RealA,
     (exists g, sea_generate block noise ns = Ok g) <-> (valid_block block /\ valid_noise noise /\ valid_n ns)) /\
  (forall block noise ns : pyval RealA, ~ (valid_block block /\ valid_noise noise /\ valid_n ns) ->
     exists e, sea_generate block noise ns = Raise e /\ (e = InvalidBlockError \/ e = ValueError \/ e = TypeError)) /\
  (forall cls ns : pyval RealA,
     (exists g, dummy_generate cls ns = Ok g) <-> (valid_class cls /\ valid_n ns)) /\
  (forall cls ns : pyval RealA, ~ (valid_class cls /\ valid_n ns) ->
     exists e, dummy_generate cls ns = Raise e /\ (e = ValueError \/ e = TypeError)).
Proof.
  split; [exact sea_accepts_iff|]. split; [exact sea_rejects|].
  split; [exact dummy_accepts_iff|exact dummy_rejects].
Qed.
Print Assumptions C20_gen_rejects.

(* ---------------------------------------------------------------------- download *)

(** For EVERY list of mirror scripts and ANY prior state of the target (missing, empty, or with
    content): if mirror i is reachable with body b (HEAD ok, GET ok, body read) and every earlier
    mirror fails with something the loop catches (any RequestException: connection error, timeout,
    non-OK HEAD, GET error status, body read error), then [download] returns normally, the target
    file holds EXACTLY b (it is opened with mode "wb"), and the transport saw exactly mirrors
    0..i, each once, in order, HEAD before GET; later mirrors are never contacted. *)
Theorem C20_download_first_reachable : forall ms st i m b,
  dl_path st = true ->
  nth_error ms i = Some m -> classify m = Reach b ->
  (forall j mj, (j < i)%nat -> nth_error ms j = Some mj -> classify mj = Fail) ->
  download ms st = (DOk tt, {| dl_path := true; dl_file := Some b |},
                    calls_seq 0 (firstn (S i) ms)).
Proof.
  intros ms st i m b Hp Hn Hc Hf. unfold download.
  rewrite (download_from_first ms 0 st i m b Hn Hc Hf). unfold write_file. rewrite Hp. reflexivity.
Qed.
Print Assumptions C20_download_first_reachable.

(** In particular on the fresh temporary file of the constructor, and when download() is
    called again on the same object (idempotent on the file). *)
Theorem C20_download_fresh_exact : forall ms i m b,
  nth_error ms i = Some m -> classify m = Reach b ->
  (forall j mj, (j < i)%nat -> nth_error ms j = Some mj -> classify mj = Fail) ->
  dl_file (snd (fst (download ms dl_fresh))) = Some b /\
  download ms (snd (fst (download ms dl_fresh))) = download ms dl_fresh.
Proof.
  intros ms i m b Hn Hc Hf.
  rewrite (C20_download_first_reachable ms dl_fresh i m b eq_refl Hn Hc Hf). cbn [fst snd dl_file].
  split; [reflexivity|].
  apply (C20_download_first_reachable ms {| dl_path := true; dl_file := Some b |} i m b eq_refl Hn Hc Hf).
Qed.
Print Assumptions C20_download_fresh_exact.

(** Pre-repair behaviour (mode "ab", before /repo commit be88f64), under the explicit variant
    [write_file_append]: a second write leaves b ++ b, whereas [write_file] leaves b.  This is
    what the monitor clause download_exact_bytes reports if the repair is reverted. *)
Example C20_pre_repair_append_documented :
  let b := [65; 66]%Z in
  write_file_append {| dl_path := true; dl_file := Some b |} b = DOk {| dl_path := true; dl_file := Some (b ++ b) |} /\
  write_file {| dl_path := true; dl_file := Some b |} b = DOk {| dl_path := true; dl_file := Some b |}.
Proof. split; reflexivity. Qed.

(** DownloadError is raised iff EVERY mirror fails with a caught error (vacuously for an empty
    list); then the file is untouched and every mirror was tried once, in order. *)
Theorem C20_download_all_fail : forall ms st,
  ((forall m, In m ms -> classify m = Fail) <-> fst (fst (download ms st)) = DRaise ExDownloadError) /\
  ((forall m, In m ms -> classify m = Fail) -> download ms st = (DRaise ExDownloadError, st, calls_seq 0 ms)).
Proof.
  intros ms st. split; [split|].
  - intros H. unfold download. rewrite download_from_all_fail by exact H. reflexivity.
  - exact (download_from_error_all_fail ms 0 st).
  - exact (download_from_all_fail ms 0 st).
Qed.
Print Assumptions C20_download_all_fail.

(** An exception that is not a RequestException leaves [download] at once: later mirrors are
    not tried even if reachable (nothing is written). *)
Theorem C20_download_abort : forall ms st i m,
  nth_error ms i = Some m -> classify m = Abort ->
  (forall j mj, (j < i)%nat -> nth_error ms j = Some mj -> classify mj = Fail) ->
  download ms st = (DRaise ExPropagated, st, calls_seq 0 (firstn (S i) ms)).
Proof. intros ms st. exact (download_from_abort ms 0 st). Qed.
Print Assumptions C20_download_abort.

(** Mirrors are tried in list order, without skipping or retrying, whatever happens; the file
    changes only when the call returns normally, and then holds one mirror's body. *)
Theorem C20_download_in_order : forall ms st,
  (exists n, (n <= length ms)%nat /\ snd (download ms st) = calls_seq 0 (firstn n ms)) /\
  (forall i m, snd (attempt_mirror i m) = [CHead i] \/ snd (attempt_mirror i m) = [CHead i; CGet i]) /\
  match fst (fst (download ms st)) with
  | DOk _ => exists b, snd (fst (download ms st)) = {| dl_path := true; dl_file := Some b |}
  | DRaise _ => snd (fst (download ms st)) = st
  end.
Proof.
  intros ms st. split; [exact (download_from_trace_prefix ms 0 st)|].
  split; [exact calls_of_shape|exact (download_from_state ms 0 st)].
Qed.
Print Assumptions C20_download_in_order.

(** [load]: returns the parser's value on the file content and then the file is gone and
    [file_path] is None — exactly when the parser returns; if it raises, nothing is removed
    (IndexError is re-raised as ReadFileError). *)
Theorem C20_load_removes_tempfile : forall D (parse : bytes -> parse_out D) st,
  (forall c d, dl_path st = true -> dl_file st = Some c -> parse c = PData d ->
     load parse st = (DOk d, {| dl_path := false; dl_file := None |})) /\
  (forall d st', load parse st = (DOk d, st') ->
     exists c, dl_path st = true /\ dl_file st = Some c /\ parse c = PData d /\
               st' = {| dl_path := false; dl_file := None |}) /\
  (forall e st', load parse st = (DRaise e, st') -> st' = st).
Proof.
  intros D parse st. split; [intros c d; exact (load_ok D parse st c d)|].
  split; [exact (load_ok_inv D parse st)|exact (load_fail_keeps D parse st)].
Qed.
Print Assumptions C20_load_removes_tempfile.

(** End to end on a fresh object: download then load returns the parse of exactly the first
    reachable mirror's bytes and leaves no file behind. *)
Theorem C20_download_then_load : forall D (parse : bytes -> parse_out D) ms i m b d,
  nth_error ms i = Some m -> classify m = Reach b ->
  (forall j mj, (j < i)%nat -> nth_error ms j = Some mj -> classify mj = Fail) ->
  parse b = PData d ->
  load parse (snd (fst (download ms dl_fresh))) = (DOk d, {| dl_path := false; dl_file := None |}).
Proof.
  intros D parse ms i m b d Hn Hc Hf Hd.
  rewrite (C20_download_first_reachable ms dl_fresh i m b eq_refl Hn Hc Hf).
  apply (load_ok D parse _ b d); auto.
Qed.
Print Assumptions C20_download_then_load.

(* ---------------------------------------------------------------------- non-vacuity *)

(** SEA block 4, noise 0, three samples around the 9.5 threshold (one exactly on it): the
    premises of [C20_sea_labels] hold, so it labels them 1, 0, 1. *)
Example C20_nonvacuous_sea :
  let rng := sea_tape (A:=RealA)
    [ {| d_x0 := 4; d_x1 := 5.5; d_x2 := 1; d_u := 0.5; d_bit := 0 |};
      {| d_x0 := 4; d_x1 := 5.75; d_x2 := 2; d_u := 0; d_bit := 0 |};
      {| d_x0 := 1; d_x1 := 2; d_x2 := 3; d_u := 0.25; d_bit := 0 |} ]%R in
  (forall i, 0 <= d_u (rng i))%R /\ noise_check (A:=RealA) (PFloat 0%R) = Ok 0%R /\
  exists l, sea_dataset (PInt 4) (PFloat 0%R) (PInt 3) rng = Ok l /\ length l = 3%nat.
Proof.
  assert (H : (Rleb 0 0 && Rleb 0 1)%bool = true).
  { apply andb_true_intro; split; apply Rleb_true; Lra.lra. }
  cbv zeta. split; [|split].
  - intros i. unfold sea_tape. do 3 (destruct i as [|i]; [cbn; Lra.lra|]). destruct i; cbn; Lra.lra.
  - cbn [noise_check leb ofZ RealA]. rewrite H. reflexivity.
  - eexists. split.
    + unfold sea_dataset, sea_generate, bind. cbn [block_lookup block_key bind block_map n_lt1 Z.ltb Z.compare
        noise_check n_range leb ofZ RealA]. rewrite H. reflexivity.
    + rewrite sea_drain_closed, map_length, seq_length. reflexivity.
Qed.

(** every argument check can fail: one rejected call per clause *)
Example C20_nonvacuous_rejects :
  sea_generate (A:=RealA) (PInt 5) (PFloat 0%R) (PInt 3) = Raise InvalidBlockError /\
  sea_generate (A:=RealA) (PInt 1) (PInt 2) (PInt 3) = Raise ValueError /\
  sea_generate (A:=RealA) (PInt 1) (PInt 0) (PInt 0) = Raise ValueError /\
  sea_generate (A:=RealA) PList (PInt 0) (PInt 3) = Raise TypeError /\
  dummy_generate (A:=RealA) (PInt 2) (PInt 3) = Raise ValueError.
Proof. repeat split; reflexivity. Qed.

(** fall-through over three mirrors: connection error, GET 503, then success; and total failure *)
Example C20_nonvacuous_download :
  download [OConnErr; OGetBadStatus 503; OSuccess [1; 2; 3]; OSuccess [9]]%Z dl_fresh =
    (DOk tt, {| dl_path := true; dl_file := Some [1; 2; 3]%Z |},
     [CHead 0; CHead 1; CGet 1; CHead 2; CGet 2]) /\
  download [OHeadNotOk 404; OTimeout; OBodyErr]%Z dl_fresh =
    (DRaise ExDownloadError, dl_fresh, [CHead 0; CHead 1; CHead 2; CGet 2]) /\
  classify OConnErr = Fail /\ classify (OSuccess [7%Z]) = Reach [7%Z] /\
  classify {| m_head := HRaise NonReq; m_get := GRaise NonReq |} = Abort.
Proof. vm_compute. repeat split; reflexivity. Qed.
