(** C19 — Configurations: out-of-domain values rejected, every accepted one is operable.
    Model: Model/Config.v (every validator, in the order its setters run).  Proofs: Proofs/ConfigR.v.
    "Documented domain" = the domain the validator's own error messages state.  Float parameters
    are reals here; the same definitions run in binary64 against the code (where NaN is an
    extra value: see the known findings for the setters whose `value <= 0` test lets NaN through). *)
From Coq Require Import ZArith List Bool Reals Lra Lia.
From FV Require Import NumSys RealA Py Config ConfigR.
Import ListNotations.
Local Open Scope R_scope.

(** DDMConfig / BaseSPCConfig (min_num_instances, warning_level, drift_level): accepted exactly on the documented domain *)
Theorem C19_spc_accepts_iff : forall (w d : R) (n : Z),
  acc_spc (A:=RealA) w d n = Ok tt <-> (1 <= n)%Z /\ 0 < w /\ 0 < d /\ w < d.
Proof. exact spc_accepts_iff. Qed.
Print Assumptions C19_spc_accepts_iff.

(** RDDMConfig (SPC + min_concept_size; max_concept_size and max_num_instances_warning are unconstrained): accepted exactly on the documented domain *)
Theorem C19_rddm_accepts_iff : forall (w d : R) (n maxc minc maxw : Z),
  acc_rddm (A:=RealA) w d n maxc minc maxw = Ok tt <-> ((1 <= n)%Z /\ 0 < w /\ 0 < d /\ w < d) /\ (1 <= minc)%Z.
Proof. exact rddm_accepts_iff. Qed.
Print Assumptions C19_rddm_accepts_iff.

(** ECDDWTConfig (average_run_length in {100,400,1000} else InvalidAverageRunLengthError): accepted exactly on the documented domain *)
Theorem C19_ecdd_accepts_iff : forall (l w : R) (arl n : Z),
  acc_ecdd (A:=RealA) l w arl n = Ok tt <->
  (1 <= n)%Z /\ (arl = 100 \/ arl = 400 \/ arl = 1000)%Z /\ (0 <= l <= 1) /\ (0 < w < 1).
Proof. exact ecdd_accepts_iff. Qed.
Print Assumptions C19_ecdd_accepts_iff.

(** EDDMConfig (alpha itself is unconstrained; beta in (0, alpha)): accepted exactly on the documented domain *)
Theorem C19_eddm_accepts_iff : forall (a b l : R) (nmis : Z),
  acc_eddm (A:=RealA) a b l nmis = Ok tt <-> 0 < b /\ b < a /\ 0 < l /\ (0 <= nmis)%Z.
Proof. exact eddm_accepts_iff. Qed.
Print Assumptions C19_eddm_accepts_iff.

(** HDDMAConfig: accepted exactly on the documented domain *)
Theorem C19_hddma_accepts_iff : forall (ad aw : R) (tb : bool) (n : Z),
  acc_hddma (A:=RealA) ad aw tb n = Ok tt <->
  (1 <= n)%Z /\ (0 < ad <= 1) /\ (0 < aw <= 1) /\ ad < aw /\ tb = true.
Proof. exact hddma_accepts_iff. Qed.
Print Assumptions C19_hddma_accepts_iff.

(** HDDMWConfig (lambda_ in (0,1]): accepted exactly on the documented domain *)
Theorem C19_hddmw_accepts_iff : forall (ad aw : R) (tb : bool) (l : R) (n : Z),
  acc_hddmw (A:=RealA) ad aw tb l n = Ok tt <->
  ((1 <= n)%Z /\ (0 < ad <= 1) /\ (0 < aw <= 1) /\ ad < aw /\ tb = true) /\ (0 < l <= 1).
Proof. exact hddmw_accepts_iff. Qed.
Print Assumptions C19_hddmw_accepts_iff.

(** CUSUMConfig: accepted exactly on the documented domain *)
Theorem C19_cusum_accepts_iff : forall (delta lam : R) (n : Z),
  acc_cusum (A:=RealA) delta lam n = Ok tt <-> (1 <= n)%Z /\ 0 <= lam /\ (0 <= delta <= 1).
Proof. exact cusum_accepts_iff. Qed.
Print Assumptions C19_cusum_accepts_iff.

(** PageHinkleyConfig: accepted exactly on the documented domain *)
Theorem C19_ph_accepts_iff : forall (delta lam alpha : R) (n : Z),
  acc_ph (A:=RealA) delta lam alpha n = Ok tt <->
  ((1 <= n)%Z /\ 0 <= lam /\ (0 <= delta <= 1)) /\ (0 <= alpha <= 1).
Proof. exact ph_accepts_iff. Qed.
Print Assumptions C19_ph_accepts_iff.

(** GeometricMovingAverageConfig: accepted exactly on the documented domain *)
Theorem C19_gma_accepts_iff : forall (alpha lam : R) (n : Z),
  acc_gma (A:=RealA) alpha lam n = Ok tt <-> (1 <= n)%Z /\ 0 <= lam /\ (0 <= alpha <= 1).
Proof. exact gma_accepts_iff. Qed.
Print Assumptions C19_gma_accepts_iff.

(** ADWINConfig: accepted exactly on the documented domain *)
Theorem C19_adwin_accepts_iff : forall (clock : Z) (delta : R) (m mws n : Z),
  acc_adwin (A:=RealA) clock delta m mws n = Ok tt <->
  (1 <= n)%Z /\ (1 <= clock)%Z /\ (0 < delta < 1) /\ (1 <= m)%Z /\ (1 <= mws)%Z.
Proof. exact adwin_accepts_iff. Qed.
Print Assumptions C19_adwin_accepts_iff.

(** KSWINConfig (num_test_instances <= min_num_instances // 2): accepted exactly on the documented domain *)
Theorem C19_kswin_accepts_iff : forall (alpha : R) (seed : option Z) (n nt : Z),
  acc_kswin (A:=RealA) alpha seed n nt = Ok tt <->
  seed_ok seed = true /\ (1 <= n)%Z /\ 0 < alpha /\ (1 <= nt)%Z /\ (2 * nt <= n)%Z.
Proof. exact kswin_accepts_iff. Qed.
Print Assumptions C19_kswin_accepts_iff.

(** STEPDConfig: accepted exactly on the documented domain *)
Theorem C19_stepd_accepts_iff : forall (ad aw : R) (n : Z),
  acc_stepd (A:=RealA) ad aw n = Ok tt <-> (1 <= n)%Z /\ 0 < ad /\ 0 < aw /\ ad < aw.
Proof. exact stepd_accepts_iff. Qed.
Print Assumptions C19_stepd_accepts_iff.

(** BOCDConfig: accepted exactly on the documented domain *)
Theorem C19_bocd_accepts_iff : forall (mok : bool) (n : Z),
  acc_bocd mok n = Ok tt <-> (1 <= n)%Z /\ mok = true.
Proof. exact bocd_accepts_iff. Qed.
Print Assumptions C19_bocd_accepts_iff.

(** GaussianUnknownMean.data_var: accepted exactly on the documented domain *)
Theorem C19_gum_accepts_iff : forall dv : R, acc_gum (A:=RealA) dv = Ok tt <-> 0 < dv.
Proof. exact gum_accepts_iff. Qed.
Print Assumptions C19_gum_accepts_iff.

(** ResetStatisticalTest.alpha: accepted exactly on the documented domain *)
Theorem C19_reset_accepts_iff : forall alpha : R, acc_reset (A:=RealA) alpha = Ok tt <-> 0 < alpha.
Proof. exact reset_accepts_iff. Qed.
Print Assumptions C19_reset_accepts_iff.

(** PrequentialError.alpha: accepted exactly on the documented domain *)
Theorem C19_preq_accepts_iff : forall (isn : bool) (alpha : R),
  acc_preq (A:=RealA) isn alpha = Ok tt <-> isn = true /\ (0 < alpha <= 1).
Proof. exact preq_accepts_iff. Qed.
Print Assumptions C19_preq_accepts_iff.

(** PermutationTestDistanceBased: accepted exactly on the documented domain *)
Theorem C19_perm_accepts_iff : forall (np : Z) (total : option Z) (jobs : Z) (mok vb : bool),
  acc_perm np total jobs mok vb = Ok tt <->
  (1 <= np <= MAX_NUM_PERM)%Z /\
  match total with None => True | Some t => (1 <= t <= MAX_NUM_PERM)%Z end /\
  (jobs = -1 \/ 1 <= jobs)%Z /\ mok = true /\ vb = true.
Proof. exact perm_accepts_iff. Qed.
Print Assumptions C19_perm_accepts_iff.

(** MMD.chunk_size: accepted exactly on the documented domain *)
Theorem C19_chunk_accepts_iff : forall c,
  acc_chunk c = Ok tt <-> match c with ChunkNone => True | ChunkInt z => (0 < z)%Z | ChunkOther => False end.
Proof. exact chunk_accepts_iff. Qed.
Print Assumptions C19_chunk_accepts_iff.

(** num_bins / window_size: accepted exactly on the documented domain *)
Theorem C19_ge1_accepts_iff : forall v, acc_ge1 v = Ok tt <-> (1 <= v)%Z.
Proof. exact ge1_accepts_iff. Qed.
Print Assumptions C19_ge1_accepts_iff.

(** each violated ordering constraint (warning below drift level, beta below alpha, alpha_d below alpha_w, num_test_instances against min_num_instances) is rejected whatever the other parameters *)
Theorem C19_ordering_enforced :
  (forall (w d : R) n, d <= w -> acc_spc (A:=RealA) w d n <> Ok tt) /\
  (forall (a b l : R) nmis, a <= b -> acc_eddm (A:=RealA) a b l nmis <> Ok tt) /\
  (forall (ad aw : R) tb n, aw <= ad -> acc_hddma (A:=RealA) ad aw tb n <> Ok tt) /\
  (forall (ad aw : R) n, aw <= ad -> acc_stepd (A:=RealA) ad aw n <> Ok tt) /\
  (forall (alpha : R) seed n nt, (n < 2 * nt)%Z -> acc_kswin (A:=RealA) alpha seed n nt <> Ok tt).
Proof. exact ordering_enforced. Qed.
Print Assumptions C19_ordering_enforced.

(** accepted ADWIN configuration: `num_instances % clock` cannot raise *)
Theorem C19_adwin_operable : forall (clock : Z) (delta : R) m mws n,
  acc_adwin (A:=RealA) clock delta m mws n = Ok tt -> adwin_update_raises clock = None.
Proof. exact adwin_operable. Qed.
Print Assumptions C19_adwin_operable.

(** accepted KSWIN configuration: the draw without replacement from the older part of the window cannot raise, for any window length *)
Theorem C19_kswin_operable : forall (alpha : R) seed n nt,
  acc_kswin (A:=RealA) alpha seed n nt = Ok tt -> forall wl, kswin_update_raises n nt wl = None.
Proof. exact kswin_operable. Qed.
Print Assumptions C19_kswin_operable.

(** accepted RDDM configuration: the prediction queue has capacity >= 1 *)
Theorem C19_rddm_operable : forall (w d : R) n maxc minc maxw,
  acc_rddm (A:=RealA) w d n maxc minc maxw = Ok tt -> rddm_update_raises minc = None.
Proof. exact rddm_operable. Qed.
Print Assumptions C19_rddm_operable.

(** accepted HDDM-W configuration: log(1 / lambda_) cannot divide by zero *)
Theorem C19_hddmw_operable : forall (ad aw : R) tb l n,
  acc_hddmw (A:=RealA) ad aw tb l n = Ok tt -> hddmw_update_raises (A:=RealA) l = None.
Proof. exact hddmw_operable. Qed.
Print Assumptions C19_hddmw_operable.

(** Non-vacuity: the default configurations are accepted, and a boundary one is rejected. *)
Example C19_defaults_accepted :
  acc_spc (A:=RealA) 2 3 30 = Ok tt /\ acc_adwin (A:=RealA) 32 (2/1000) 5 5 10 = Ok tt /\
  acc_kswin (A:=RealA) (1/10000) None 100 30 = Ok tt.
Proof.
  split; [apply spc_accepts_iff; repeat split; try lra; try lia|].
  split; [apply adwin_accepts_iff; repeat split; try lra; try lia|].
  apply kswin_accepts_iff; repeat split; try lra; try lia.
Qed.
Example C19_boundary_rejected : acc_adwin (A:=RealA) 0 (2/1000) 5 5 10 <> Ok tt.
Proof. intro H. apply adwin_accepts_iff in H. lia. Qed.
(** the raise sites are real: outside the accepted domain they fire *)
Example C19_sites_fire :
  adwin_update_raises 0 = Some ZeroDivisionError /\
  kswin_update_raises 10 6 10 = Some ValueError /\
  rddm_update_raises 0 = Some EmptyQueueError.
Proof. exact unrepaired_sites_fire. Qed.
