(** C12 — Two-sample test detectors return the named test's valid result for every option.
    Property theorems only; proofs are in Proofs/TestsR.v, definitions in Model/Tests.v.

    Partial by nature: SciPy's numerics are NOT modelled.  What is proved is what the wrappers
    themselves add (keyword forwarding, argument order, the chi-square table, Kuiper's own
    p-value code) and the invariances of exact models of the rank / order / count statistics.
    (* FULL: for every detector, sample pair and accepted option, the returned pair equals
       (statistic, p-value) of the named test, p in [0,1] and not NaN.  NOT proved here: the
       p-values of the six SciPy-backed detectors and the Anderson-Darling / BWS statistics are
       only checked by the monitor of harness/c12.py against direct SciPy calls. *) *)
From Coq Require Import ZArith List Bool String Permutation Reals PrimFloat.
From FV Require Import NumSys RealA FloatA Py KS Tests TestsR.
Import ListNotations.
Local Open Scope Z_scope.

(* ---------------------------------------------------------------- forwarding *)

(** Anderson-Darling, BWS, Cramer-von Mises, Kuiper, chi-square: for EVERY keyword dictionary
    over the option names the test accepts, compare(X=test, **kw) reaches the SciPy function of
    the named test, never raises TypeError, passes (reference, test) in that order, and every
    option parameter has the user's value if given, else the default. *)
Theorem C12_forwarding_ok : forall w kw, sound_wrapper w = true -> kw_ok w kw ->
  exists c, compare_call w kw = Ok c /\ forwarded w kw c.
Proof. exact forwarding_ok. Qed.
Print Assumptions C12_forwarding_ok.

(** (* FULL: the same for Mann-Whitney and Welch. *)  FALSE of the code (finding F19):
    `alternative` (and, for Mann-Whitney, `nan_policy`) is passed both explicitly and through
    **kwargs, so compare(X, alternative="less") raises TypeError. *)
Theorem C12_forwarding_refuted : forall w, sound_wrapper w = false ->
  exists kw, kw_ok w kw /\ compare_call w kw = Raise TypeError.
Proof. exact forwarding_refuted. Qed.
Print Assumptions C12_forwarding_refuted.

(** what does hold for these two: TypeError exactly when one of the doubly-passed names is
    given; every other accepted dictionary is forwarded correctly *)
Theorem C12_forwarding_partial : forall w kw, sound_wrapper w = false -> kw_ok w kw ->
  ((exists k, In k (twice w) /\ In k (keys kw)) -> compare_call w kw = Raise TypeError) /\
  ((forall k, In k (twice w) -> ~ In k (keys kw)) -> exists c, compare_call w kw = Ok c /\ forwarded w kw c).
Proof. exact forwarding_twice. Qed.
Print Assumptions C12_forwarding_partial.

Example C12_forwarding_nonvacuous :
  kw_ok CVM [(Kmethod, VStr "exact")] /\
  compare_call CVM [(Kmethod, VStr "exact")] =
    Ok {| c_fn := cramervonmises_2samp;
          c_args := [(Kx, VSample Ref); (Ky, VSample Test); (Kmethod, VStr "exact"); (Kaxis, VInt 0);
                     (Knan_policy, VStr "propagate"); (Kkeepdims, VBool false)] |} /\
  compare_call MWU [(Kmethod, VStr "exact")] <> Raise TypeError /\
  twice MWU = [Kalternative; Knan_policy] /\ twice Welch = [Kalternative].
Proof.
  split; [split; [repeat constructor; intros []| intros k [<-|[]]; cbn; tauto]|].
  split; [reflexivity|]. split; [vm_compute; discriminate|]. split; reflexivity.
Qed.

(* ---------------------------------------------------------------- ranks *)

(** midranks (scipy.stats.rankdata 'average', doubled) are unchanged by a strictly increasing
    transform of the data, permuted when the sample is reordered, and sum to N(N+1)/2 *)
Theorem C12_ranks_monotone : forall f, strictly_increasing f -> forall Z : list R,
  midranks2 Rltb (map f Z) = midranks2 Rltb Z.
Proof. intros f Hf. exact (ranks_monotone Rltb Rltb f (increasing_reflects f Hf)). Qed.
Print Assumptions C12_ranks_monotone.

Theorem C12_ranks_perm_sum : forall Z Z' : list R,
  (Permutation Z Z' -> Permutation (midranks2 Rltb Z) (midranks2 Rltb Z')) /\
  zsum (midranks2 Rltb Z) = zlen Z * (zlen Z + 1).
Proof. intros. split; [apply midranks_perm | apply (midranks_sum Rltb Rltb_asym)]. Qed.
Print Assumptions C12_ranks_perm_sum.

(** Mann-Whitney U of the first sample as SciPy computes it (rank sum; [mwu_U2] = 2U):
    equals the textbook pair count, U(X,Y) + U(Y,X) = n m, invariant under strictly increasing
    transforms and under reordering of either sample — for ALL real samples, ties included *)
Theorem C12_mwu : forall X Y : list R,
  mwu_U2 Rltb X Y = pairs2 Rltb X Y /\
  mwu_U2 Rltb X Y + mwu_U2 Rltb Y X = 2 * (zlen X * zlen Y) /\
  (forall f, strictly_increasing f -> mwu_U2 Rltb (map f X) (map f Y) = mwu_U2 Rltb X Y) /\
  (forall X' Y', Permutation X X' -> Permutation Y Y' -> mwu_U2 Rltb X Y = mwu_U2 Rltb X' Y').
Proof.
  intros X Y. split; [apply (mwu_U2_pairs Rltb Rltb_asym)|]. split; [apply (mwu_sum Rltb Rltb_asym)|]. split.
  - intros f Hf. exact (mwu_monotone Rltb Rltb f (increasing_reflects f Hf) X Y).
  - intros. apply mwu_perm; assumption.
Qed.
Print Assumptions C12_mwu.

(** Cramer-von Mises T as SciPy computes it (exact fraction): symmetric under swapping the
    samples, invariant under strictly increasing transforms and under reordering *)
Theorem C12_cvm : forall X Y : list R,
  cvm_T_frac Rltb X Y = cvm_T_frac Rltb Y X /\
  (forall f, strictly_increasing f -> cvm_T_frac Rltb (map f X) (map f Y) = cvm_T_frac Rltb X Y) /\
  (forall X' Y', Permutation X X' -> Permutation Y Y' -> cvm_T_frac Rltb X Y = cvm_T_frac Rltb X' Y').
Proof.
  intros X Y. split; [apply cvm_T_swap|]. split.
  - intros f Hf. apply cvm_T_of_u4; [apply zlen_map | apply zlen_map |].
    exact (cvm_monotone Rltb Rltb f (increasing_reflects f Hf) X Y).
  - intros X' Y' HX HY. apply cvm_T_of_u4; [apply zlen_perm, HX | apply zlen_perm, HY |].
    exact (cvm_perm Rltb Rltb_irrefl Rltb_trans Rltb_total X X' Y Y' HX HY).
Qed.
Print Assumptions C12_cvm.

Example C12_ranks_nonvacuous :
  midranks2 Z.ltb [3; 1; 3; 2] = [7; 2; 7; 4] /\           (* midranks 3.5 1 3.5 2 *)
  mwu_U2 Z.ltb [1; 3; 3] [2; 3; 5] = 6 /\ mwu_U2 Z.ltb [2; 3; 5] [1; 3; 3] = 12 /\   (* U = 3, 6; n m = 9 *)
  cvm_T_frac Z.ltb [1; 3; 3] [2; 3] = cvm_T_frac Z.ltb [2; 3] [3; 1; 3] /\
  strictly_increasing (fun x => 2 * x + 1)%R /\ strictly_increasing exp.
Proof.
  repeat split; try reflexivity.
  - intros a b H. Lra.lra.
  - exact exp_increasing.
Qed.

(* ---------------------------------------------------------------- Welch *)

(** Welch t (means, ddof=1 variances, sqrt(va/n + vb/m)) over R: t(X,Y) = -t(Y,X) and t does
    not depend on the order of either sample.  (Hence |t| and the two-sided p-value, a function
    of |t| and the swap-symmetric degrees of freedom, are unchanged by a swap.) *)
Theorem C12_welch : forall X Y : list R,
  welch_t (A:=RealA) X Y = (- welch_t (A:=RealA) Y X)%R /\
  (forall X' Y', Permutation X X' -> Permutation Y Y' -> welch_t (A:=RealA) X Y = welch_t (A:=RealA) X' Y').
Proof. intros X Y. split; [apply welch_t_swap | intros; apply welch_t_perm; assumption]. Qed.
Print Assumptions C12_welch.

Example C12_welch_nonvacuous :
  (welch_t (A:=RealA) [0; 2] [4; 8] = -5 / R_sqrt.sqrt 5)%R.
Proof.
  unfold welch_t, meanA, var1A, lenA, sumA, zlen, sqr, zero; cbn.
  match goal with |- (?a / R_sqrt.sqrt ?b = _)%R => replace a with (-5)%R by Lra.lra; replace b with 5%R by Lra.lra end.
  reflexivity.
Qed.

(* ---------------------------------------------------------------- chi-square *)

(** The table built by _calculate_frequencies, for whatever iteration order [pv] Python's set
    gives (contract: each category present in either sample exactly once): absent categories
    are zero-filled, the rows sum to the sample sizes. *)
Theorem C12_chi2_table : forall {C} (ceq : C -> C -> bool) (ceq_spec : forall a b, ceq a b = true <-> a = b)
  (pv Xref X : list C), set_contract pv Xref X ->
  chi_table ceq pv Xref X = map (fun v => (countc ceq v X, countc ceq v Xref)) pv /\
  zsum (map fst (chi_table ceq pv Xref X)) = zlen X /\ zsum (map snd (chi_table ceq pv Xref X)) = zlen Xref /\
  (forall c, ~ In c X -> countc ceq c X = 0) /\ (forall c, In c X -> 0 < countc ceq c X).
Proof.
  intros C ceq Hs pv Xref X Hc. split; [apply chi_table_map|].
  destruct (table_rows ceq Hs pv Xref X Hc) as [H1 H2]. split; [exact H1|]. split; [exact H2|].
  split; intros c; [apply (countc_absent ceq Hs) | apply (countc_present ceq Hs)].
Qed.
Print Assumptions C12_chi2_table.

(** The chi-square statistic (SciPy's expected frequencies, Yates correction on 2x2 when
    [correction], any power-divergence term [cellf]) over R does not depend on: the iteration
    order of the set, the order of the observations in either sample, which sample is the first
    row, or an injective relabelling of the categories. *)
Theorem C12_chi2_invariant : forall {C C'} (ceq : C -> C -> bool) (ceq' : C' -> C' -> bool)
  (ceq_spec : forall a b, ceq a b = true <-> a = b) (ceq'_spec : forall a b, ceq' a b = true <-> a = b)
  (cellf : R -> R -> R) corr (pv Xref X : list C), set_contract pv Xref X ->
  (forall pv', set_contract pv' Xref X ->
     chi2_stat (A:=RealA) cellf corr (chi_table ceq pv' Xref X) = chi2_stat (A:=RealA) cellf corr (chi_table ceq pv Xref X)) /\
  (forall Xref' X', Permutation Xref Xref' -> Permutation X X' ->
     chi_table ceq pv Xref' X' = chi_table ceq pv Xref X) /\
  chi2_stat (A:=RealA) cellf corr (map swap2 (chi_table ceq pv Xref X)) = chi2_stat (A:=RealA) cellf corr (chi_table ceq pv Xref X) /\
  (forall (f : C -> C') pv', (forall a b, f a = f b -> a = b) -> set_contract pv' (map f Xref) (map f X) ->
     chi2_stat (A:=RealA) cellf corr (chi_table ceq' pv' (map f Xref) (map f X)) =
     chi2_stat (A:=RealA) cellf corr (chi_table ceq pv Xref X)).
Proof.
  intros C C' ceq ceq' Hs Hs' cellf corr pv Xref X Hc. split; [|split; [|split]].
  - intros pv' Hc'. apply chi2_order_irrelevant; assumption.
  - intros Xref' X' H1 H2. symmetry. apply chi2_table_sample_order; assumption.
  - apply chi2_row_swap.
  - intros f pv' Hinj Hc'. apply (chi2_relabel_invariant ceq ceq' Hs Hs' f Hinj); assumption.
Qed.
Print Assumptions C12_chi2_invariant.

Example C12_chi2_nonvacuous :
  set_contract [2; 0; 1] [0; 0; 1; 0] [1; 2; 2] /\
  chi_table Z.eqb [2; 0; 1] [0; 0; 1; 0] [1; 2; 2] = [(2, 0); (0, 3); (1, 1)] /\
  match chi2_stat (A:=FloatA) pearson true [(2, 0); (0, 3); (1, 1)] with                            (* 119/24 = 4.9583.. *)
  | Ok v => (PrimFloat.ltb 0x1.3d55555555550p+2 v && PrimFloat.ltb v 0x1.3d5555555555ap+2)%float
  | Raise _ => false end = true /\
  chi2_stat (A:=FloatA) pearson true [(3, 1); (1, 3)] = Ok 0x1p-1%float.                           (* Yates: 0.5 *)
Proof.
  split; [split; [repeat constructor; cbn; intuition discriminate|]|].
  - intros c; cbn; split; intros H; intuition (subst; auto; try discriminate).
  - split; [reflexivity|]. split; vm_compute; reflexivity.
Qed.

(* ---------------------------------------------------------------- Kuiper *)

(** (* FULL: for all samples of size >= 2 the Kuiper p-value is in [0,1] and not NaN. *)
    FALSE of the code (finding F20): the binary64 run of the transliterated
    _false_positive_probability gives NaN on ([1,2,3],[1.5,2.5,3.5]) (negative base to the
    power N-1 = 0.5), 1.5 on ([1,3,5,7],[2,4,6,8]) and -0.0047 on ([1..5],[6..13]) (D = 1). *)
Theorem C12_kuiper_pvalue_refuted : exists X Y : list float,
  2 <= zlen X /\ 2 <= zlen Y /\ p_valid (A:=FloatA) (kuiper_p (A:=FloatA) X Y) = false.
Proof. exact kuiper_pvalue_refuted. Qed.
Print Assumptions C12_kuiper_pvalue_refuted.

Theorem C12_kuiper_pvalue_witnesses :
  (PrimFloat.is_nan (kuiper_p (A:=FloatA) [1; 2; 3] [0x1.8p+0; 0x1.4p+1; 0x1.cp+1])%float = true /\
  PrimFloat.ltb 1 (kuiper_p (A:=FloatA) [1; 3; 5; 7] [2; 4; 6; 8])%float = true /\
  PrimFloat.ltb (kuiper_p (A:=FloatA) [1; 2; 3; 4; 5] [6; 7; 8; 9; 10; 11; 12; 13]) 0 = true)%float.
Proof. split; [exact (proj1 kuiper_p_nan) | split; [exact (proj1 kuiper_p_above_one) | exact (proj1 kuiper_p_below_zero)]]. Qed.
Print Assumptions C12_kuiper_pvalue_witnesses.

(** The statistic KuiperTest reports is ks_2samp's D = max(D+, D-); Kuiper's statistic is
    V = D+ + D-.  On ([1,4],[2,3]): n m D = 2, n m V = 4. *)
Theorem C12_kuiper_statistic_refuted : exists X Y : list float,
  ks_H (A:=FloatA) X Y = ks_DH PrimFloat.ltb X Y /\ ks_H (A:=FloatA) X Y <> kuiper_VH PrimFloat.ltb X Y.
Proof. exact kuiper_stat_is_not_V. Qed.
Print Assumptions C12_kuiper_statistic_refuted.
