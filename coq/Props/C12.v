(** C12 — Two-sample test detectors return the named test's valid result for every option.
    Property theorems only; proofs are in Proofs/TestsR.v, definitions in Model/Tests.v.

    Partial by nature: SciPy's numerics are NOT modelled.  What is proved is what the wrappers
    themselves add (keyword forwarding, argument order, the chi-square table, Kuiper's own
    p-value guard and clip) and the invariances of exact models of the rank / order / count
    statistics.
    (* FULL: for every detector, sample pair and accepted option, the returned pair equals
       (statistic, p-value) of the named test, p in [0,1] and not NaN.  NOT proved here: the
       p-values of the six SciPy-backed detectors and the Anderson-Darling / BWS statistics are
       only checked by the monitor of harness/c12.py against direct SciPy calls.  Known
       findings: KuiperTest reports the KS D instead of Kuiper's V (O2, refuted below);
       chi2_contingency gives NaN for lambda_ < 0 with an empty cell (SciPy numerics). *) *)
From Coq Require Import ZArith List Bool String Permutation Reals PrimFloat.
From FV Require Import NumSys RealA FloatA Py KS Tests TestsR.
Import ListNotations.
Local Open Scope Z_scope.

(* ---------------------------------------------------------------- forwarding *)

(** All seven detectors: for EVERY keyword dictionary over the option names the test accepts,
    compare(X=test, **kw) reaches the SciPy function of the named test, never raises TypeError,
    passes (reference, test) in that order, and every option parameter has the user's value if
    given, else the default (Mann-Whitney: nan_policy="raise"; Welch: equal_var=False fixed).
    Mann-Whitney and Welch merge their defaults into the ** dictionary
    ({"alternative": "two-sided", ..., **kwargs}) since /repo 081bdd5; before that the same
    names were also passed explicitly and every such dictionary raised TypeError (F19). *)
Theorem C12_forwarding_ok : forall w kw, kw_ok w kw ->
  exists c, compare_call w kw = Ok c /\ forwarded w kw c.
Proof. exact forwarding_ok. Qed.
Print Assumptions C12_forwarding_ok.

Example C12_forwarding_nonvacuous :
  kw_ok MWU [(Kalternative, VStr "less"); (Kmethod, VStr "exact")] /\
  compare_call MWU [(Kalternative, VStr "less"); (Kmethod, VStr "exact")] =
    Ok {| c_fn := mannwhitneyu;
          c_args := [(Kx, VSample Ref); (Ky, VSample Test); (Kuse_continuity, VBool true); (Kalternative, VStr "less");
                     (Kaxis, VInt 0); (Kmethod, VStr "exact"); (Knan_policy, VStr "raise"); (Kkeepdims, VBool false)] |} /\
  compare_call Welch [(Kalternative, VStr "greater")] <> Raise TypeError /\
  (* names outside the accepted set are still refused *)
  compare_call Welch [(Kequal_var, VBool true)] = Raise TypeError /\
  compare_call Kuiper [(Kalternative, VStr "less")] = Raise TypeError.
Proof.
  split; [split; [repeat constructor; cbn; intuition discriminate| intros k [<-|[<-|[]]]; cbn; tauto]|].
  split; [reflexivity|]. split; [vm_compute; discriminate|]. split; reflexivity.
Qed.

(* ---------------------------------------------------------------- ranks *)

(** midranks (scipy.stats.rankdata 'average', doubled) are unchanged by a strictly increasing
    transform of the data, permuted when the sample is reordered, and sum to N(N+1)/2 *)
Theorem C12_ranks_monotone : forall f, strictly_increasing f -> forall Z : list R,
  midranks2 Rltb (map f Z) = midranks2 Rltb Z.
Proof. intros f Hf. exact (ranks_monotone Rltb Rltb f (increasing_reflects f Hf)). Qed.
Print Assumptions C12_ranks_monotone.

Theorem C12_ranks_perm_sum : forall Z Z' : list R,
  (Permutation Z Z' -> Permutation (midranks2 Rltb Z) (midranks2 Rltb Z')) /\
  zsum (midranks2 Rltb Z) = zlen Z * (zlen Z + 1).
Proof. intros. split; [apply midranks_perm | apply (midranks_sum Rltb Rltb_asym)]. Qed.
Print Assumptions C12_ranks_perm_sum.

(** Mann-Whitney U of the first sample as SciPy computes it (rank sum; [mwu_U2] = 2U):
    equals the textbook pair count, U(X,Y) + U(Y,X) = n m, invariant under strictly increasing
    transforms and under reordering of either sample — for ALL real samples, ties included *)
Theorem C12_mwu : forall X Y : list R,
  mwu_U2 Rltb X Y = pairs2 Rltb X Y /\
  mwu_U2 Rltb X Y + mwu_U2 Rltb Y X = 2 * (zlen X * zlen Y) /\
  (forall f, strictly_increasing f -> mwu_U2 Rltb (map f X) (map f Y) = mwu_U2 Rltb X Y) /\
  (forall X' Y', Permutation X X' -> Permutation Y Y' -> mwu_U2 Rltb X Y = mwu_U2 Rltb X' Y').
Proof.
  intros X Y. split; [apply (mwu_U2_pairs Rltb Rltb_asym)|]. split; [apply (mwu_sum Rltb Rltb_asym)|]. split.
  - intros f Hf. exact (mwu_monotone Rltb Rltb f (increasing_reflects f Hf) X Y).
  - intros. apply mwu_perm; assumption.
Qed.
Print Assumptions C12_mwu.

(** Cramer-von Mises T as SciPy computes it (exact fraction): symmetric under swapping the
    samples, invariant under strictly increasing transforms and under reordering *)
Theorem C12_cvm : forall X Y : list R,
  cvm_T_frac Rltb X Y = cvm_T_frac Rltb Y X /\
  (forall f, strictly_increasing f -> cvm_T_frac Rltb (map f X) (map f Y) = cvm_T_frac Rltb X Y) /\
  (forall X' Y', Permutation X X' -> Permutation Y Y' -> cvm_T_frac Rltb X Y = cvm_T_frac Rltb X' Y').
Proof.
  intros X Y. split; [apply cvm_T_swap|]. split.
  - intros f Hf. apply cvm_T_of_u4; [apply zlen_map | apply zlen_map |].
    exact (cvm_monotone Rltb Rltb f (increasing_reflects f Hf) X Y).
  - intros X' Y' HX HY. apply cvm_T_of_u4; [apply zlen_perm, HX | apply zlen_perm, HY |].
    exact (cvm_perm Rltb Rltb_irrefl Rltb_trans Rltb_total X X' Y Y' HX HY).
Qed.
Print Assumptions C12_cvm.

Example C12_ranks_nonvacuous :
  midranks2 Z.ltb [3; 1; 3; 2] = [7; 2; 7; 4] /\           (* midranks 3.5 1 3.5 2 *)
  mwu_U2 Z.ltb [1; 3; 3] [2; 3; 5] = 6 /\ mwu_U2 Z.ltb [2; 3; 5] [1; 3; 3] = 12 /\   (* U = 3, 6; n m = 9 *)
  cvm_T_frac Z.ltb [1; 3; 3] [2; 3] = cvm_T_frac Z.ltb [2; 3] [3; 1; 3] /\
  strictly_increasing (fun x => 2 * x + 1)%R /\ strictly_increasing exp.
Proof.
  repeat split; try reflexivity.
  - intros a b H. Lra.lra.
  - exact exp_increasing.
Qed.

(* ---------------------------------------------------------------- Welch *)

(** Welch t (means, ddof=1 variances, sqrt(va/n + vb/m)) over R: t(X,Y) = -t(Y,X) and t does
    not depend on the order of either sample.  (Hence |t| and the two-sided p-value, a function
    of |t| and the swap-symmetric degrees of freedom, are unchanged by a swap.) *)
Theorem C12_welch : forall X Y : list R,
  welch_t (A:=RealA) X Y = (- welch_t (A:=RealA) Y X)%R /\
  (forall X' Y', Permutation X X' -> Permutation Y Y' -> welch_t (A:=RealA) X Y = welch_t (A:=RealA) X' Y').
Proof. intros X Y. split; [apply welch_t_swap | intros; apply welch_t_perm; assumption]. Qed.
Print Assumptions C12_welch.

Example C12_welch_nonvacuous :
  (welch_t (A:=RealA) [0; 2] [4; 8] = -5 / R_sqrt.sqrt 5)%R.
Proof.
  unfold welch_t, meanA, var1A, lenA, sumA, zlen, sqr, zero; cbn.
  match goal with |- (?a / R_sqrt.sqrt ?b = _)%R => replace a with (-5)%R by Lra.lra; replace b with 5%R by Lra.lra end.
  reflexivity.
Qed.

(* ---------------------------------------------------------------- chi-square *)

(** The table built by _calculate_frequencies, for whatever iteration order [pv] Python's set
    gives (contract: each category present in either sample exactly once): absent categories
    are zero-filled, the rows sum to the sample sizes. *)
Theorem C12_chi2_table : forall {C} (ceq : C -> C -> bool) (ceq_spec : forall a b, ceq a b = true <-> a = b)
  (pv Xref X : list C), set_contract pv Xref X ->
  chi_table ceq pv Xref X = map (fun v => (countc ceq v X, countc ceq v Xref)) pv /\
  zsum (map fst (chi_table ceq pv Xref X)) = zlen X /\ zsum (map snd (chi_table ceq pv Xref X)) = zlen Xref /\
  (forall c, ~ In c X -> countc ceq c X = 0) /\ (forall c, In c X -> 0 < countc ceq c X).
Proof.
  intros C ceq Hs pv Xref X Hc. split; [apply chi_table_map|].
  destruct (table_rows ceq Hs pv Xref X Hc) as [H1 H2]. split; [exact H1|]. split; [exact H2|].
  split; intros c; [apply (countc_absent ceq Hs) | apply (countc_present ceq Hs)].
Qed.
Print Assumptions C12_chi2_table.

(** The chi-square statistic (SciPy's expected frequencies, Yates correction on 2x2 when
    [correction], any power-divergence term [cellf]) over R does not depend on: the iteration
    order of the set, the order of the observations in either sample, which sample is the first
    row, or an injective relabelling of the categories. *)
Theorem C12_chi2_invariant : forall {C C'} (ceq : C -> C -> bool) (ceq' : C' -> C' -> bool)
  (ceq_spec : forall a b, ceq a b = true <-> a = b) (ceq'_spec : forall a b, ceq' a b = true <-> a = b)
  (cellf : R -> R -> R) corr (pv Xref X : list C), set_contract pv Xref X ->
  (forall pv', set_contract pv' Xref X ->
     chi2_stat (A:=RealA) cellf corr (chi_table ceq pv' Xref X) = chi2_stat (A:=RealA) cellf corr (chi_table ceq pv Xref X)) /\
  (forall Xref' X', Permutation Xref Xref' -> Permutation X X' ->
     chi_table ceq pv Xref' X' = chi_table ceq pv Xref X) /\
  chi2_stat (A:=RealA) cellf corr (map swap2 (chi_table ceq pv Xref X)) = chi2_stat (A:=RealA) cellf corr (chi_table ceq pv Xref X) /\
  (forall (f : C -> C') pv', (forall a b, f a = f b -> a = b) -> set_contract pv' (map f Xref) (map f X) ->
     chi2_stat (A:=RealA) cellf corr (chi_table ceq' pv' (map f Xref) (map f X)) =
     chi2_stat (A:=RealA) cellf corr (chi_table ceq pv Xref X)).
Proof.
  intros C C' ceq ceq' Hs Hs' cellf corr pv Xref X Hc. split; [|split; [|split]].
  - intros pv' Hc'. apply chi2_order_irrelevant; assumption.
  - intros Xref' X' H1 H2. symmetry. apply chi2_table_sample_order; assumption.
  - apply chi2_row_swap.
  - intros f pv' Hinj Hc'. apply (chi2_relabel_invariant ceq ceq' Hs Hs' f Hinj); assumption.
Qed.
Print Assumptions C12_chi2_invariant.

Example C12_chi2_nonvacuous :
  set_contract [2; 0; 1] [0; 0; 1; 0] [1; 2; 2] /\
  chi_table Z.eqb [2; 0; 1] [0; 0; 1; 0] [1; 2; 2] = [(2, 0); (0, 3); (1, 1)] /\
  match chi2_stat (A:=FloatA) pearson true [(2, 0); (0, 3); (1, 1)] with                            (* 119/24 = 4.9583.. *)
  | Ok v => (PrimFloat.ltb 0x1.3d55555555550p+2 v && PrimFloat.ltb v 0x1.3d5555555555ap+2)%float
  | Raise _ => false end = true /\
  chi2_stat (A:=FloatA) pearson true [(3, 1); (1, 3)] = Ok 0x1p-1%float.                           (* Yates: 0.5 *)
Proof.
  split; [split; [repeat constructor; cbn; intuition discriminate|]|].
  - intros c; cbn; split; intros H; intuition (subst; auto; try discriminate).
  - split; [reflexivity|]. split; vm_compute; reflexivity.
Qed.

(* ---------------------------------------------------------------- Kuiper *)

(** (* FULL: for all samples of size >= 2 the Kuiper p-value is in [0,1] and not NaN. *)
    Proved part (code since /repo 6ddbfc2: guard `D <= 1/N -> 1.0`, np.clip(p, 0, 1)):
    for ALL binary64 samples, if the series value is not NaN then the returned p-value is in
    [0,1] (np.clip over binary64, proved from the IEEE comparison specification).
    Missing for the full statement: NaN-freeness of the binary64 series in the branches
    D > 1/N (libm pow/exp/gamma are not modelled exactly) - the monitor checks it on every run. *)
Theorem C12_kuiper_pvalue_partial : forall X Y : list float,
  PrimFloat.is_nan (kuiper_fpp (A:=FloatA) (kuiper_stat (A:=FloatA) X Y) (zlen X) (zlen Y)) = false ->
  p_valid (A:=FloatA) (kuiper_p (A:=FloatA) X Y) = true.
Proof. exact kuiper_p_valid. Qed.
Print Assumptions C12_kuiper_pvalue_partial.

(** The guard, for every number system: at or below 1/N (N = n m / (n + m)) the p-value is
    exactly 1, so the power with a non-positive base is never evaluated; and over R, once the
    guard fails the base D - 1/N of the first-branch power (D - 1/N) ** (N - 1) is positive
    (this is what removed the NaN of F20). *)
Theorem C12_kuiper_guard :
  (forall (A : Arith) (D : num A) (n m : Z),
     NumSys.leb D (NumSys.div NumSys.one (NumSys.div (NumSys.ofZ (n * m)) (NumSys.ofZ (n + m)))) = true ->
     kuiper_fpp D n m = NumSys.one) /\
  (forall D N : R, @NumSys.leb RealA D (@NumSys.div RealA NumSys.one N) = false ->
     @NumSys.ltb RealA NumSys.zero (@NumSys.sub RealA D (@NumSys.div RealA NumSys.one N)) = true) /\
  (forall p : R, p_valid (A:=RealA) (clip01 (A:=RealA) p) = true).
Proof. split; [exact kuiper_guard | split; [exact kuiper_guard_base_R | exact clip01_valid_R]]. Qed.
Print Assumptions C12_kuiper_guard.

(** non-vacuity / regression: the inputs on which the code before 6ddbfc2 returned NaN, 1.5 and
    -0.0047 (and identical samples, D = 0: NaN) now give 1, 1, 0 and 1 *)
Example C12_kuiper_nonvacuous :
  (kuiper_p (A:=FloatA) [1; 2; 3] [0x1.8p+0; 0x1.4p+1; 0x1.cp+1] = 1 /\
   kuiper_p (A:=FloatA) [1; 3; 5; 7] [2; 4; 6; 8] = 1 /\
   kuiper_p (A:=FloatA) [1; 2; 3; 4; 5] [6; 7; 8; 9; 10; 11; 12; 13] = 0 /\
   kuiper_p (A:=FloatA) [1; 2; 3] [1; 2; 3] = 1)%float.
Proof. exact kuiper_p_former_witnesses. Qed.

(** Known finding O2 (not repaired): the statistic KuiperTest reports is ks_2samp's
    D = max(D+, D-); Kuiper's statistic is V = D+ + D-.  On ([1,4],[2,3]): n m D = 2, n m V = 4. *)
Theorem C12_kuiper_statistic_refuted : exists X Y : list float,
  ks_H (A:=FloatA) X Y = ks_DH PrimFloat.ltb X Y /\ ks_H (A:=FloatA) X Y <> kuiper_VH PrimFloat.ltb X Y.
Proof. exact kuiper_stat_is_not_V. Qed.
Print Assumptions C12_kuiper_statistic_refuted.
