(** C13 — Permutation-test callback: same statistic under the null, Phipson-Smyth p-values.
    Property theorems only; proofs are in Proofs/PermutationR.v, the model in Model/Permutation.v.

    Naming: [_refuted] = the clause is FALSE of the code as it is (witness inside): only the
    'approximate' formula (finding F23, pinned by a unit test of the library). *)
From Coq Require Import ZArith String List Bool Reals QArith.
From Coq Require Import Permutation.
From Coquelicot Require Import Coquelicot.
From FV Require Import NumSys RealA Py Permutation PermutationR.
Import ListNotations.
Local Close Scope Q_scope.
Local Close Scope R_scope.

(* ------------------------------------------------------------------ parameters of the null *)

(** ALL NINE detectors, every constructor call that succeeds, followed by ANY sequence of
    successful calls of the public setters ([num_bins] of the seven binned / probability
    detectors, [kernel] and [chunk_size] of MMD): [statistical_kwargs] (what the callback passes
    to the statistic on permuted data) is, as a dictionary, exactly the keyword arguments
    [compare]'s own path passes to the same static statistic — for MMD up to the cached
    [expected_k_xx], which C13_mmd_compare_is_null shows to be the same number.
    (Before fixes 0e07408 / fd44d2a this was false: the four binned detectors always permuted with
    num_bins = 10 and no setter reached the null; findings F21, F21b.) *)
Theorem C13_null_uses_detector_params : forall d user o kvs o', NoDup (dkeys user) ->
  construct d user = Ok o -> (forall kv, In kv kvs -> settable d (fst kv) = true) -> assign_all o kvs = Ok o' ->
  exists ck, compare_kwargs o' [] = Ok ck /\ dict_equiv (null_kwargs o') (strip_cache d ck).
Proof. exact null_uses_detector_params_lemma. Qed.
Print Assumptions C13_null_uses_detector_params.

(** the invariant behind it, preserved by construction and by each setter *)
Theorem C13_synced_invariant :
  (forall d user o, NoDup (dkeys user) -> construct d user = Ok o -> synced o /\ o_det o = d) /\
  (forall o k v o', synced o -> settable (o_det o) k = true -> assign_attr o k v = Ok o' -> synced o' /\ o_det o' = o_det o).
Proof. split; [exact construct_synced | exact assign_synced]. Qed.
Print Assumptions C13_synced_invariant.

(** MMD: fit(X) then compare(Y) (cached E[k(x,x')]) equals the static call the callback makes on
    the pair (X, Y) — same operations in the same order, for every number system, kernel-sum and
    reduction oracle, and chunk size. *)
Theorem C13_mmd_compare_is_null : forall (A : Arith) (row : Type) ksum asum (X Y : list row) (cs : option nat),
  mmd_compare (A:=A) row ksum asum X Y cs = mmd_null (A:=A) row ksum asum X Y cs.
Proof. exact mmd_compare_is_null_lemma. Qed.
Print Assumptions C13_mmd_compare_is_null.

(** The logged observed statistic is the distance compare returned. *)
Theorem C13_observed_is_compare_result : forall (A : Arith) T np sched starmap c stat observed Xr Xt sc,
  fst (fst (on_compare_end (A:=A) T np sched starmap c stat observed Xr Xt sc)) = observed.
Proof.
  intros. unfold on_compare_end. destruct (permutation _ _ _ _ _ _ _ _ _ _). reflexivity.
Qed.
Print Assumptions C13_observed_is_compare_result.

(* ------------------------------------------------------------------ permutation *)

(** Assumptions (explicit premises): every RNG draw is a permutation of the pooled sample;
    [starmap] returns results in input order.  Then every pair handed to the statistic is a
    split of a permutation of the pooled sample into parts of the ORIGINAL sizes. *)
Theorem C13_resplit_sizes : forall (T : Type) (np_permutation : Z -> list T -> nat -> list T),
  (forall seed data i, Permutation (np_permutation seed data i) data) ->
  forall X Y num seed a b, Y <> [] ->
  In (a, b) (permuted_data T np_permutation X Y num seed) ->
  length a = length X /\ length b = length Y /\ Permutation (a ++ b) (X ++ Y).
Proof. exact resplit_sizes_lemma. Qed.
Print Assumptions C13_resplit_sizes.

(** the logged null statistics are the statistic mapped over those pairs, in order *)
Theorem C13_null_statistics : forall (T St : Type) np_permutation (sched : Type) starmap,
  (forall jobs sc f xs, starmap jobs sc f xs = map (fun ab : list T * list T => f (fst ab) (snd ab)) xs) ->
  forall (stat : list T -> list T -> St) X Y num jobs seed (sc : sched),
  fst (permutation np_permutation sched starmap stat X Y num jobs seed sc) =
  map (fun ab => stat (fst ab) (snd ab)) (permuted_data T np_permutation X Y num seed).
Proof. exact null_statistics_lemma. Qed.
Print Assumptions C13_null_statistics.

(** hence independent of num_jobs and of the worker schedule, and a function of the seed *)
Theorem C13_pmap_schedule_independent : forall (T St : Type) np_permutation (sched : Type) starmap,
  (forall jobs sc f xs, starmap jobs sc f xs = map (fun ab : list T * list T => f (fst ab) (snd ab)) xs) ->
  forall (stat : list T -> list T -> St) X Y num seed jobs jobs' (sc sc' : sched),
  permutation np_permutation sched starmap stat X Y num jobs seed sc =
  permutation np_permutation sched starmap stat X Y num jobs' seed sc'.
Proof. exact pmap_schedule_independent_lemma. Qed.
Print Assumptions C13_pmap_schedule_independent.

(** The premise above, discharged for an explicit model of multiprocessing.Pool's map
    ([run_parallel]: the input cut in consecutive chunks of size cs, each chunk's results written
    to its own slice of the result list when it completes): whatever the completion order —
    any order, repeats allowed — once every chunk has completed the result is [map f xs]. *)
Theorem C13_pool_any_schedule : forall (X R : Type) (f : X -> R) (cs : nat), 0 < cs ->
  forall (xs : list X) (schedule : list nat),
  (forall i, In i schedule -> i * cs < length xs) -> (forall j, j < length xs -> In (j / cs) schedule) ->
  run_parallel f cs xs schedule = map (fun x => Some (f x)) xs.
Proof. exact run_parallel_any_schedule_lemma. Qed.
Print Assumptions C13_pool_any_schedule.

(** number of null statistics actually computed: min(requested, (n+m)!) *)
Theorem C13_null_count : forall (T St : Type) np_permutation (sched : Type) starmap,
  (forall jobs sc f xs, starmap jobs sc f xs = map (fun ab : list T * list T => f (fst ab) (snd ab)) xs) ->
  forall (stat : list T -> list T -> St) X Y num jobs seed (sc : sched), (0 <= num)%Z ->
  Z.of_nat (length (fst (permutation np_permutation sched starmap stat X Y num jobs seed sc))) =
  Z.min num (factZ (length X + length Y)).
Proof. exact null_count_lemma. Qed.
Print Assumptions C13_null_count.

(** the enumeration branch lists every permutation exactly (n+m)! times... once *)
Theorem C13_enumeration : forall (T : Type) (l p : list T),
  (In p (all_perms l) -> Permutation p l) /\ Z.of_nat (length (all_perms l)) = factZ (length l).
Proof. intros. split; [apply all_perms_perm | apply all_perms_length]. Qed.
Print Assumptions C13_enumeration.

(* ------------------------------------------------------------------ p-value formulas *)
Local Open Scope R_scope.

(** 'auto' is 'exact' for every admissible num_permutations (<= 10^6) *)
Theorem C13_auto_is_exact : forall requested, (requested <= MAX_NUM_PERM)%Z -> resolve Auto requested = Exact.
Proof. exact auto_is_exact_lemma. Qed.

(** conservative: (b+1)/(m+1) with m = the number of null statistics computed, for every
    requested number and both branches (before fix 5423711 the requested number was used: F22) *)
Theorem C13_conservative_formula : forall (b len : nat) (requested : Z) total max_num,
  p_value (A:=RealA) Conservative requested total max_num b len = (INR b + 1) / (INR len + 1).
Proof. exact conservative_formula_lemma. Qed.
Print Assumptions C13_conservative_formula.

(** exact: (1/m_t) sum_{t=1}^{m_t} BinomCDF(b; m, t/m_t), BinomCDF written with the standard
    library's binomial coefficient [C] *)
Theorem C13_exact_formula : forall b m mt, (b <= m)%nat -> (1 <= mt)%nat ->
  pv_exact (A:=RealA) b m mt =
  sum_f_R0 (fun t => sum_f_R0 (fun k => Binomial.C m k * (INR (S t) / INR mt) ^ k * (1 - INR (S t) / INR mt) ^ (m - k)) b) (mt - 1) / INR mt.
Proof. exact exact_formula_R. Qed.
Print Assumptions C13_exact_formula.

Theorem C13_estimate_formula : forall b len, pv_estimate (A:=RealA) b len = INR b / INR len.
Proof. exact estimate_formula_R. Qed.

(** approximate, AS THE CODE IS: (b+1)/(m+1) - a * int_0^a BinomCDF(b;m,p) dp, a = 0.5/m_t
    ([RInt] is Coquelicot's Riemann integral; the model's polynomial antiderivative equals it) *)
Theorem C13_approximate_code : forall b m mt, (b <= m)%nat -> (1 <= mt)%nat ->
  pv_approximate (A:=RealA) b m mt =
  (INR b + 1) / (INR m + 1) - / (2 * INR mt) * RInt (BinomCDF b m) 0 (/ (2 * INR mt)).
Proof. exact approximate_code_R. Qed.
Print Assumptions C13_approximate_code.

(** FULL: approximate = (b+1)/(m+1) - int_0^{0.5/m_t} BinomCDF(b;m,p) dp (Phipson-Smyth).  False of the
    code (finding F23), for EVERY (b, m, m_t): the code's value is larger by (1-a) * integral > 0 ... *)
Theorem C13_approximate_formula_refuted : forall b m mt, (b <= m)%nat -> (1 <= mt)%nat ->
  PS_approximate b m mt < Code_approximate b m mt /\
  Code_approximate b m mt - PS_approximate b m mt = (1 - / (2 * INR mt)) * RInt (BinomCDF b m) 0 (/ (2 * INR mt)).
Proof. exact approximate_code_above_ps. Qed.
Print Assumptions C13_approximate_formula_refuted.

(** ... witness b = 0, m = 16, m_t = 2: code 51668747715/1168231104512 = 0.04423,
    Phipson-Smyth 129140163/292057776128 = 0.000442 *)
Theorem C13_approximate_formula_refuted_witness :
  Qpair (pv_approximate (A:=QA) 0 16 2) = (51668747715, 1168231104512)%Z /\
  Qpair (ps_approximate (A:=QA) 0 16 2) = (129140163, 292057776128)%Z.
Proof. exact approximate_formula_refuted_lemma. Qed.

(* ------------------------------------------------------------------ p in (0, 1] *)

(** for ALL b <= m: conservative, exact (m_t >= 2; at m_t = 1
    the single grid point is p = 1 and the value is 0 for b < m, [exact_mt1_zero]), and the
    code's approximate (m_t >= 1), over R ... *)
Theorem C13_p_in_unit : forall b m mt,  (b <= m)%nat ->
  (forall requested total max_num, 0 < p_value (A:=RealA) Conservative requested total max_num b m <= 1) /\
  ((2 <= mt)%nat -> 0 < pv_exact (A:=RealA) b m mt <= 1) /\
  ((1 <= mt)%nat -> 0 < pv_approximate (A:=RealA) b m mt <= 1) /\
  ((1 <= m)%nat -> 0 <= pv_estimate (A:=RealA) b m <= 1).
Proof.
  intros b m mt Hb. repeat split; intros.
  1,2: apply (conservative_in_unit_R b m (Z.of_nat m)); [assumption | Lia.lia].
  1,2: rewrite exact_formula_R by Lia.lia; apply exact_in_unit_R; assumption.
  1,2: rewrite approximate_code_R by assumption; apply code_approximate_in_unit; assumption.
  1,2: apply estimate_in_closed_unit_R; assumption.
Qed.
Print Assumptions C13_p_in_unit.

(** ... and on the rational terms the check evaluates *)
Theorem C13_p_in_unit_Q : forall b m mt, (b <= m)%nat ->
  (forall requested total max_num, (0 < p_value (A:=QA) Conservative requested total max_num b m /\ p_value (A:=QA) Conservative requested total max_num b m <= 1)%Q) /\
  ((2 <= mt)%nat -> (0 < pv_exact (A:=QA) b m mt /\ pv_exact (A:=QA) b m mt <= 1)%Q) /\
  ((1 <= mt)%nat -> (0 < pv_approximate (A:=QA) b m mt /\ pv_approximate (A:=QA) b m mt <= 1)%Q).
Proof.
  intros b m mt Hb. split; [|split]; intros.
  - apply (conservative_in_unit_Q b m (Z.of_nat m)); [assumption | Lia.lia].
  - apply exact_in_unit_Q; assumption.
  - apply approximate_in_unit_Q; assumption.
Qed.
Print Assumptions C13_p_in_unit_Q.

(** Phipson-Smyth's own approximate formula would also lie in (0,1] *)
Theorem C13_ps_approximate_in_unit : forall b m mt, (b <= m)%nat -> (1 <= mt)%nat -> 0 < PS_approximate b m mt <= 1.
Proof. exact ps_approximate_in_unit. Qed.

(** the model's rational evaluation denotes the real numbers the theorems are about *)
Theorem C13_Q_denotes_R : forall b m mt, (1 <= mt)%nat ->
  Q2R (pv_exact (A:=QA) b m mt) = pv_exact (A:=RealA) b m mt /\
  Q2R (pv_approximate (A:=QA) b m mt) = pv_approximate (A:=RealA) b m mt.
Proof. intros. split; [apply Q2R_exact | apply Q2R_approximate]; assumption. Qed.
Print Assumptions C13_Q_denotes_R.

(* ------------------------------------------------------------------ non-vacuity *)
Local Close Scope R_scope.

(** an end-to-end run of the model: X_ref = [1;2], X_test = [5], statistic |sum X - 2 sum Y|,
    10 permutations requested -> enumeration of all 3! = 6, identity "pool"; observed 7;
    logs = (observed, the six null statistics, 'exact' p-value over m_t = 6). *)
Example C13_nonvacuous :
  let stat := fun (a b : list Z) => inject_Z (Z.abs (fold_right Z.add 0 a - 2 * fold_right Z.add 0 b))%Z in
  let starmap := fun (_ : Z) (_ : unit) (f : list Z -> list Z -> Q) xs => map (fun ab => f (fst ab) (snd ab)) xs in
  let c := {| cb_num_permutations := 10; cb_total := None; cb_num_jobs := 2; cb_method := Exact; cb_seed := 0 |} in
  let '(obs, null, p) := on_compare_end (A:=QA) Z (fun _ d _ => d) unit starmap c stat (inject_Z 7) [1; 2]%Z [5]%Z tt in
  (map Qpair null, count_ge (A:=QA) obs null, Qpair p) =
  ([(7, 1); (2, 1); (7, 1); (5, 1); (2, 1); (5, 1)]%Z, 2%nat, (48305, 139968)%Z).
Proof. vm_compute. reflexivity. Qed.

(** regression witnesses of the three fixed defects, on the model *)
Example C13_fixed_witnesses :
  (exists o ck, construct PSI [("num_bins", VInt 5)]%string = Ok o /\ compare_kwargs o [] = Ok ck /\
     dget "num_bins"%string (null_kwargs o) = Some (VInt 5) /\ dget "num_bins"%string ck = Some (VInt 5)) /\
  (exists o o' ck, construct MMD [] = Ok o /\ assign_attr o "kernel"%string (VFun 7) = Ok o' /\ compare_kwargs o' [] = Ok ck /\
     dget "kernel"%string (null_kwargs o') = Some (VFun 7) /\ dget "kernel"%string ck = Some (VFun 7)) /\
  Qpair (p_value (A:=QA) Conservative 10 None 6 0 6) = (1, 7)%Z.
Proof. split; [|split]; [do 2 eexists | do 3 eexists |]; repeat split; vm_compute; reflexivity. Qed.

Example C13_pool_nonvacuous :
  run_parallel (fun x => x * x)%Z 2 [1; 2; 3; 4; 5]%Z [2; 0; 1; 0] = [Some 1; Some 4; Some 9; Some 16; Some 25]%Z /\
  pool_chunksize 5 2 = 1.
Proof. split; vm_compute; reflexivity. Qed.

Example C13_params_nonvacuous :
  exists o ck, construct JS [("num_bins", VInt 17); ("base", VInt 2)]%string = Ok o /\ compare_kwargs o [] = Ok ck /\
    dict_eqb (null_kwargs o) ck = true /\ dget "num_bins"%string ck = Some (VInt 17).
Proof. do 2 eexists. repeat split; vm_compute; reflexivity. Qed.
