(** C02 — reset() returns every streaming detector to freshly-constructed behaviour.
    In every model (of the repaired code) [reset] yields the initial state, so whatever
    preceded a reset cannot influence anything after it: the trace of any continuation
    equals that of a new instance.  That the code's [reset()] reaches a state equivalent
    to a fresh instance is what the correspondence check and the side-by-side monitor
    establish on every run (HDDM, RDDM and STEPD violated it before the fixes). *)
From Coq Require Import ZArith List Bool.
From FV Require Import NumSys Py Queue Stats Detector Cusum SPC HDDM KS Window ADWIN BOCD Structural.
Import ListNotations.

Definition ResetFresh (D : Detector) : Prop :=
  (forall c s, d_reset D c s = d_init D c) /\
  (forall c pre post,
      trace_from D c (exec D c (pre ++ [Rst])) post = trace D c post /\
      exec D c (pre ++ Rst :: post) = exec D c post).

Lemma reset_fresh_of (D : Detector) : (forall c s, d_reset D c s = d_init D c) -> ResetFresh D.
Proof. intro H. split; [exact H|]. intros. apply after_reset_like_new. exact H. Qed.

Theorem C02_reset_fresh : forall A : Arith,
  ResetFresh (CusumD A) /\ ResetFresh (DDMD A) /\ ResetFresh (RDDMD A) /\ ResetFresh (EDDMD A) /\
  ResetFresh (ECDDD A) /\ ResetFresh (HDDMAD A) /\ ResetFresh (HDDMWD A) /\ ResetFresh (KSWIND A) /\
  ResetFresh (STEPDD A) /\ ResetFresh (ADWIND A) /\ ResetFresh (BOCDD A).
Proof.
  intro A. repeat match goal with |- _ /\ _ => split end; apply reset_fresh_of; intros; reflexivity.
Qed.
Print Assumptions C02_reset_fresh.

(** PrequentialError.reset *)
Theorem C02_prequential_reset : forall (A : Arith) (s : preq_st A), preq_reset s = preq_init.
Proof. reflexivity. Qed.

(** IncrementalKSTest (every number system, window_size >= 1): whatever happened before a
    reset, every later update returns exactly what a new instance driven by the calls made
    since the reset returns (MissingFitError until re-fitted, then the same result). *)
From FV Require Import IKS IKSR MMD MMDR ResetDD RealA.
From Coq Require Import Reals.
Theorem C02_iks_reset_fresh : forall (A : Arith) (w : Z) (pre post : list (@iop A)) (v : NumSys.num A), (1 <= w)%Z ->
  match fst (iks_hist post) with
  | None => iks_update (iks_exec w (pre ++ IRst :: post)) v = Raise MissingFitError /\
            iks_update (iks_exec w post) v = Raise MissingFitError
  | Some ref => exists s1 s2 out,
      iks_update (iks_exec w (pre ++ IRst :: post)) v = Ok (s1, out) /\
      iks_update (iks_exec w post) v = Ok (s2, out)
  end.
Proof. intros A. exact (@iks_reset_fresh A). Qed.
Print Assumptions C02_iks_reset_fresh.

(** Streaming MMD (over R, kernel with k x x = 1, window_size >= 2, well-shaped calls): the
    outputs of everything after a reset equal those of a new instance. *)
Theorem C02_mmd_streaming_reset_fresh : forall (k : pt RealA -> pt RealA -> R), (forall x, k x x = 1%R) ->
  forall (chunk : option Z) (w : Z), (2 <= w)%Z -> chunk_ok chunk ->
  forall (sh : shape) (pre post : list (sev RealA)),
  Forall (ev_good sh) pre -> Forall (ev_good sh) post ->
  exists s0, ms_new w chunk = Ok s0 /\
    skipn (S (length pre)) (snd (ms_run k chunk s0 (pre ++ SReset :: post))) = snd (ms_run k chunk s0 post).
Proof. exact mmd_streaming_reset_fresh. Qed.
Print Assumptions C02_mmd_streaming_reset_fresh.
