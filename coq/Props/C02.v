(** C02 — reset() returns every streaming detector to freshly-constructed behaviour.
    In every model (of the repaired code) [reset] yields the initial state, so whatever
    preceded a reset cannot influence anything after it: the trace of any continuation
    equals that of a new instance.  That the code's [reset()] reaches a state equivalent
    to a fresh instance is what the correspondence check and the side-by-side monitor
    establish on every run (HDDM, RDDM and STEPD violated it before the fixes). *)
From Coq Require Import ZArith List Bool.
From FV Require Import NumSys Py Queue Stats Detector Cusum SPC HDDM KS Window ADWIN BOCD Structural.
Import ListNotations.

Definition ResetFresh (D : Detector) : Prop :=
  (forall c s, d_reset D c s = d_init D c) /\
  (forall c pre post,
      trace_from D c (exec D c (pre ++ [Rst])) post = trace D c post /\
      exec D c (pre ++ Rst :: post) = exec D c post).

Lemma reset_fresh_of (D : Detector) : (forall c s, d_reset D c s = d_init D c) -> ResetFresh D.
Proof. intro H. split; [exact H|]. intros. apply after_reset_like_new. exact H. Qed.

Theorem C02_reset_fresh : forall A : Arith,
  ResetFresh (CusumD A) /\ ResetFresh (DDMD A) /\ ResetFresh (RDDMD A) /\ ResetFresh (EDDMD A) /\
  ResetFresh (ECDDD A) /\ ResetFresh (HDDMAD A) /\ ResetFresh (HDDMWD A) /\ ResetFresh (KSWIND A) /\
  ResetFresh (STEPDD A) /\ ResetFresh (ADWIND A) /\ ResetFresh (BOCDD A).
Proof.
  intro A. repeat match goal with |- _ /\ _ => split end; apply reset_fresh_of; intros; reflexivity.
Qed.
Print Assumptions C02_reset_fresh.

(** PrequentialError.reset *)
Theorem C02_prequential_reset : forall (A : Arith) (s : preq_st A), preq_reset s = preq_init.
Proof. reflexivity. Qed.
