(** C16 — Outputs are a pure function of config and stream; instances are isolated.
    Model: Model/Heap.v (an object heap: the global generator, configuration objects, detector
    instances holding a REFERENCE to their configuration object; constructors, update and reset
    as heap transformers).  Proofs: Proofs/HeapR.v.
    Every theorem is for an arbitrary family [fam] of detector models (the harness instantiates
    it with the 13 classes), an arbitrary sampler [draw]/[reseed], every initial heap and EVERY
    schedule of constructor / update / reset calls. *)
From Coq Require Import Arith ZArith Bool String List.
From FV Require Import NumSys Py Detector Callbacks CallbacksR Heap HeapR.
Import ListNotations.

Section C16.
  Variable fam : nat -> Detector.
  Variables V W rng : Type.
  Variable vars : forall k, d_st (fam k) -> string -> W.
  Variable uses_rng : nat -> bool.
  Variable inp : forall k, V -> d_in (fam k).
  Variable draw : forall k, d_cfg (fam k) -> d_st (fam k) -> V -> rng -> d_in (fam k) * rng.
  Variable seeds : nat -> bool.
  Variable reseed : forall k, d_cfg (fam k) -> rng -> rng.
  Variable dflt : forall k, d_cfg (fam k).

  Notation heap := (heap fam W rng).
  Notation OCfg := (OCfg fam W rng).
  Notation OInst := (OInst fam W rng).
  Notation hget := (hget fam W rng).
  Notation get_rng := (get_rng fam W rng).
  Notation get_cfg := (get_cfg fam W rng).
  Notation step := (step fam V W vars rng uses_rng inp draw seeds reseed dflt).
  Notation run_system := (run_system fam V W vars rng uses_rng inp draw seeds reseed dflt).
  Notation ops_of := (ops_of fam V).
  Notation op_in := (op_in fam V inp).
  Notation inst_exec := (inst_exec fam V W vars inp).
  Notation rng_exec := (rng_exec fam V W vars rng draw).
  Notation writes_rng := (writes_rng fam V W rng uses_rng seeds).
  Notation quiet := (quiet fam V W vars rng uses_rng inp draw seeds reseed dflt).
  Notation New := (New fam V).
  Notation NewCfg := (NewCfg fam V).
  Notation Update := (Update fam V).
  Notation Reset := (Reset fam V).

  (** update(v) / reset() of instance i writes object i only - plus the generator object when,
      and only when, its class consumes the generator; it allocates nothing.  In particular it
      writes no other instance, no other instance's callback history (those live inside the
      other instance's object), no configuration. *)
  Theorem C16_update_frame : forall (h : heap) o i, (exists v, o = Update i v) \/ o = Reset i ->
    length (step h o) = length h /\
    forall j, j <> i -> (j <> rng_loc \/ writes_rng h o = false) -> hget (step h o) j = hget h j.
  Proof. exact (update_frame fam V W vars rng uses_rng inp draw seeds reseed dflt). Qed.

  (** No schedule of constructor / update / reset calls ever changes a configuration object:
      configurations are read-only after construction (BOCD's model object included: it is
      inside the configuration object, and instances work on the copy made by [d_init]). *)
  Theorem C16_config_readonly : forall sched (h : heap) l k c,
    hget h l = Some (OCfg k c) -> hget (run_system sched h) l = Some (OCfg k c).
  Proof. exact (config_readonly fam V W vars rng uses_rng inp draw seeds reseed dflt). Qed.

  (** Constructors only allocate: an existing object survives any constructor call unchanged,
      except the generator under a seeding configuration constructor. *)
  Theorem C16_constructors_allocate : forall (h : heap) o j x,
    targets fam V j o = false -> (forall i v, o <> Update i v) -> (forall i, o <> Reset i) ->
    hget h j = Some x -> (j <> rng_loc \/ writes_rng h o = false) ->
    hget (step h o) j = Some x /\ (length h <= length (step h o))%nat.
  Proof. exact (constructors_allocate fam V W vars rng uses_rng inp draw seeds reseed dflt). Qed.

  (** ISOLATION.  Take any schedule [pre ++ New k cl cb :: post]: an instance of a generator-free
      class k is constructed at some point from the configuration object at [cl] (which any number
      of other instances, before or after, may share), with or without a history callback.
      Whatever [pre] and [post] contain - other instances of the same or other classes, their
      updates and resets in any interleaving, further constructors - the instance object ends as
      [inst_exec k c cb (its own calls, in order)]: the solo run.  Since every prefix of a
      schedule is a schedule, this is the statement for the outputs after EVERY call. *)
  Theorem C16_isolation : forall pre post (h0 : heap) k cl cb c,
    get_cfg (run_system pre h0) cl k = Some c -> uses_rng k = false ->
    let i := length (run_system pre h0) in
    let hfin := run_system (pre ++ New k cl cb :: post) h0 in
    hget hfin i = Some (OInst k cl cb (inst_exec k c cb (ops_of i post))) /\
    hget hfin cl = Some (OCfg k c).
  Proof. exact (isolation fam V W vars rng uses_rng inp draw seeds reseed dflt). Qed.

  (** PURITY.  The result is a function of (class, configuration VALUE, callback spec, own calls):
      two different processes - other initial heaps, other objects around, another interleaving,
      another (equal-valued) configuration object - give the same instance state. *)
  Theorem C16_deterministic : forall pre post pre' post' (h0 h0' : heap) k cl cl' cb c,
    get_cfg (run_system pre h0) cl k = Some c -> get_cfg (run_system pre' h0') cl' k = Some c ->
    uses_rng k = false ->
    let i := length (run_system pre h0) in
    let i' := length (run_system pre' h0') in
    ops_of i post = ops_of i' post' ->
    exists sh, hget (run_system (pre ++ New k cl cb :: post) h0) i = Some (OInst k cl cb sh) /\
               hget (run_system (pre' ++ New k cl' cb :: post') h0') i' = Some (OInst k cl' cb sh).
  Proof. exact (deterministic fam V W vars rng uses_rng inp draw seeds reseed dflt). Qed.

  (** CALLBACKS.  In any schedule the detector state (every verdict, every statistic) of an
      instance with a HistoryConceptDrift attached is [exec] of the BARE detector on its own
      calls, and the whole object is Callbacks.sys_exec (so all of C17 applies to the history it
      returns).  Reuses history_noninterfering. *)
  Theorem C16_callbacks_isolated : forall pre post (h0 : heap) k cl cb c,
    get_cfg (run_system pre h0) cl k = Some c -> uses_rng k = false ->
    let i := length (run_system pre h0) in
    exists sh, hget (run_system (pre ++ New k cl cb :: post) h0) i = Some (OInst k cl cb sh) /\
      fst sh = exec (fam k) c (map (op_in k) (ops_of i post)) /\
      (forall tr, cb = Some tr -> sh = sys_exec (fam k) W (vars k) c tr (map (op_in k) (ops_of i post))).
  Proof. exact (callbacks_isolated fam V W vars rng uses_rng inp draw seeds reseed dflt). Qed.

  (** KSWIN (the parenthesis of the property).  An instance of a generator-consuming class created
      when the generator is in state r0 reports the solo run with the generator threaded
      privately from r0, PROVIDED no other writer of the generator (another consumer's update, a
      seeding configuration constructor) runs between its construction and its last call [mid];
      afterwards [tail] is arbitrary. *)
  Theorem C16_kswin_isolated_given_rng : forall pre mid tail (h0 : heap) k cl cb c r0,
    get_cfg (run_system pre h0) cl k = Some c -> uses_rng k = true ->
    get_rng (run_system pre h0) = Some r0 ->
    let i := length (run_system pre h0) in
    quiet i mid (step (run_system pre h0) (New k cl cb)) -> ops_of i tail = [] ->
    hget (run_system (pre ++ New k cl cb :: mid ++ tail) h0) i
      = Some (OInst k cl cb (fst (rng_exec k c cb r0 (ops_of i mid)))).
  Proof. exact (kswin_isolated_given_rng fam V W vars rng uses_rng inp draw seeds reseed dflt). Qed.

  (** ... counted from the seed: KSWINConfig(seed=s) puts the generator in state [reseed k c _];
      if nothing writes the generator from there to the instance's last call, the instance
      reports the private run from the seeded state ("runs started from the same generator
      state agree"). *)
  Theorem C16_kswin_isolated_from_seed : forall pre gap mid tail (h0 : heap) k cb c r,
    seeds k = true -> uses_rng k = true -> get_rng (run_system pre h0) = Some r ->
    let h1 := run_system pre h0 in
    let cl := length h1 in
    let h2 := run_system gap (step h1 (NewCfg k c)) in
    let i := length h2 in
    quiet i gap (step h1 (NewCfg k c)) -> ops_of i gap = [] ->
    quiet i mid (step h2 (New k cl cb)) -> ops_of i tail = [] ->
    hget (run_system (pre ++ NewCfg k c :: gap ++ New k cl cb :: mid ++ tail) h0) i
      = Some (OInst k cl cb (fst (rng_exec k c cb (reseed k c r) (ops_of i mid)))).
  Proof. exact (kswin_isolated_from_seed fam V W vars rng uses_rng inp draw seeds reseed dflt). Qed.

  (** What the model's constructors say about aliasing (validated by the harness with [is]):
      an instance refers to its configuration object and, for consuming classes, the generator -
      nothing else; two instances built from one configuration refer to the SAME object;
      config=None builds a FRESH configuration object per call. *)
  Theorem C16_ownership : forall k cl cb sh l,
    In l (refs fam W rng uses_rng (OInst k cl cb sh)) <-> l = cl \/ (uses_rng k = true /\ l = rng_loc).
  Proof. exact (refs_spec fam W rng uses_rng). Qed.

  Theorem C16_new_shares_config : forall (h : heap) k cl cb cb' c, get_cfg h cl k = Some c ->
    let h' := step (step h (New k cl cb)) (New k cl cb') in
    exists sh sh', hget h' (length h) = Some (OInst k cl cb sh) /\ hget h' (S (length h)) = Some (OInst k cl cb' sh') /\
                   hget h' cl = Some (OCfg k c).
  Proof. exact (new_shares_config fam V W vars rng uses_rng inp draw seeds reseed dflt). Qed.

  Theorem C16_default_config_fresh : forall (h : heap) k cb,
    let h' := step h (NewD fam V k cb) in
    hget h' (length h) = Some (OCfg k (dflt k)) /\
    hget h' (S (length h)) = Some (OInst k (length h) cb (inst_init fam W k (dflt k) cb)) /\
    length h' = S (S (length h)).
  Proof. exact (default_config_fresh fam V W vars rng uses_rng inp draw seeds reseed dflt). Qed.
End C16.

Print Assumptions C16_update_frame.
Print Assumptions C16_config_readonly.
Print Assumptions C16_constructors_allocate.
Print Assumptions C16_isolation.
Print Assumptions C16_deterministic.
Print Assumptions C16_callbacks_isolated.
Print Assumptions C16_kswin_isolated_given_rng.
Print Assumptions C16_kswin_isolated_from_seed.
Print Assumptions C16_ownership.
Print Assumptions C16_new_shares_config.
Print Assumptions C16_default_config_fresh.

(** ------------------------------------------------------------------ concrete examples (Toy family) *)
Import Toy.
Local Open Scope Z_scope.

(** Non-vacuity of isolation: one configuration object (location 1, threshold 5) SHARED by two
    instances of class 0 (locations 2 and 3; the first with a history callback), interleaved with
    an instance of the generator-consuming class 1 (location 5) and with a reset.  Each instance
    ends as its solo run, and the alarm of instance 2 has fired (non-trivial). *)
Definition sched1 : list (sysop fam Z) :=
  [NewCfg fam Z 0%nat 5; New fam Z 0%nat 1%nat (Some ["sum"%string]); New fam Z 0%nat 1%nat None;
   NewCfg fam Z 1%nat 9; New fam Z 1%nat 4%nat None;
   Update fam Z 2%nat 3; Update fam Z 3%nat 1; Update fam Z 5%nat 0; Update fam Z 2%nat 4;
   Reset fam Z 3%nat; Update fam Z 3%nat 2; Update fam Z 5%nat 0; Update fam Z 2%nat 1].
Example C16_isolation_nonvacuous :
  at_ (run sched1 h0) 2%nat = Some (OInst fam Z Z 0%nat 1%nat (Some ["sum"%string]) (solo 0%nat 5 (Some ["sum"%string]) [Upd 3; Upd 4; Upd 1])) /\
  at_ (run sched1 h0) 3%nat = Some (OInst fam Z Z 0%nat 1%nat None (solo 0%nat 5 None [Upd 1; Rst; Upd 2])) /\
  at_ (run sched1 h0) 1%nat = Some (OCfg fam Z Z 0%nat 5) /\
  d_drift (fam 0) (fst (solo 0%nat 5 (Some ["sum"%string]) [Upd 3; Upd 4; Upd 1])) = true /\
  ops_of fam Z 2%nat sched1 = [Upd 3; Upd 4; Upd 1].
Proof. vm_compute. repeat split; reflexivity. Qed.

(** Non-vacuity of the generator theorem: the consuming instance (location 5) is interleaved with
    generator-free instances only: the schedule is [quiet] for it, and it reports the private run
    from the seeded state 9. *)
Example C16_kswin_nonvacuous :
  quietb 5%nat (skipn 5 sched1) (run (firstn 5 sched1) h0) = true /\
  at_ (run sched1 h0) 5%nat = Some (OInst fam Z Z 1%nat 4%nat None (fst (solo_rng 1%nat 9 None 9 [Upd 0; Upd 0]))) /\
  fst (fst (solo_rng 1%nat 9 None 9 [Upd 0; Upd 0])) = [9; 0].
Proof. vm_compute. repeat split; reflexivity. Qed.

(** WITHOUT the proviso the claim is false (this is the parenthesis in the property statement, not
    a defect).  (a) Two consuming instances (locations 2 and 3, one configuration, seed 9)
    interleaved: instance 2 draws 9 then 0 alone, but 9 then 3 when instance 3 draws in between. *)
Definition sched2 : list (sysop fam Z) :=
  [NewCfg fam Z 1%nat 9; New fam Z 1%nat 1%nat None; New fam Z 1%nat 1%nat None;
   Update fam Z 2%nat 0; Update fam Z 3%nat 0; Update fam Z 2%nat 0].
Example C16_kswin_interleaved_refuted :
  exists sched i k cl cb c r0,
    at_ (run (firstn 3 sched) h0) i = Some (OInst fam Z Z k cl cb (inst_init fam Z k c cb)) /\
    get_rng fam Z Z (run (firstn 3 sched) h0) = Some r0 /\
    quietb i (skipn 3 sched) (run (firstn 3 sched) h0) = false /\
    at_ (run sched h0) i <> Some (OInst fam Z Z k cl cb (fst (solo_rng k c cb r0 (ops_of fam Z i sched)))).
Proof.
  exists sched2, 2%nat, 1%nat, 1%nat, None, 9, 9. repeat split; try (vm_compute; reflexivity).
  intro H. apply (f_equal rnd_of) in H. vm_compute in H. discriminate H.
Qed.
(** the two detector states, explicitly *)
Example C16_kswin_interleaved_values :
  rnd_of (at_ (run sched2 h0) 2%nat) = Some [9; 3] /\
  fst (fst (solo_rng 1%nat 9 None 9 (ops_of fam Z 2%nat sched2))) = [9; 0].
Proof. vm_compute. split; reflexivity. Qed.

(** (b) constructing another seeding configuration between two updates re-seeds the generator:
    instance 2 draws 9 then 4 instead of 9 then 0... *)
Definition sched3 : list (sysop fam Z) :=
  [NewCfg fam Z 1%nat 9; New fam Z 1%nat 1%nat None;
   Update fam Z 2%nat 0; NewCfg fam Z 1%nat 4; Update fam Z 2%nat 0].
Example C16_kswin_reseeded_refuted :
  quietb 2%nat (skipn 2 sched3) (run (firstn 2 sched3) h0) = false /\
  at_ (run sched3 h0) 2%nat <> Some (OInst fam Z Z 1%nat 1%nat None (fst (solo_rng 1%nat 9 None 9 (ops_of fam Z 2%nat sched3)))) /\
  get_rng fam Z Z (run (firstn 4 sched3) h0) = Some 4.
Proof.
  repeat split; try (vm_compute; reflexivity).
  intro H. apply (f_equal rnd_of) in H. vm_compute in H. discriminate H.
Qed.

(** config=None twice: two distinct configuration objects (locations 1 and 3). *)
Example C16_default_not_shared :
  let h := run [NewD fam Z 0%nat None; NewD fam Z 0%nat None] h0 in
  at_ h 2%nat = Some (OInst fam Z Z 0%nat 1%nat None (inst_init fam Z 0%nat 10 None)) /\
  at_ h 4%nat = Some (OInst fam Z Z 0%nat 3%nat None (inst_init fam Z 0%nat 10 None)).
Proof. vm_compute. split; reflexivity. Qed.
