(** C06 — KSWIN and STEPD.
    Model: Model/Window.v (KSWIN: deque window, the random draw is an oracle input of the
    update; STEPD: AccuracyQueue ring buffer, thresholds z_d / z_w = norm.isf(alpha) oracle),
    Model/KS.v (exact KS statistic H = n m D and exact p-value).
    Proofs: Proofs/WindowR.v (uses Proofs/KSPaths.v, Proofs/QueueRef.v, Proofs/IKSR.v). *)
From Coq Require Import ZArith List Bool Reals Permutation.
From FV Require Import NumSys RealA Py Sums Queue Stats Detector KS Window QueueRef KSPaths WindowR.
Import ListNotations.
Local Open Scope Z_scope.

(* ------------------------------------------------------------------ KSWIN: the window *)

(** After any history of updates and resets the window holds exactly the last
    min_num_instances values received since the last reset (every number system; the input of
    an update is the pair (value, draw of the oracle)). *)
Theorem C06_kswin_window : forall (A : Arith) (c : kswin_cfg) (ops : list (op (NumSys.num A * list (NumSys.num A)))),
  kwin (exec (KSWIND A) c ops) =
  lastn (Z.to_nat (kw_min c)) (map fst (inputs_since_reset ops [])).
Proof. exact (@kswin_window). Qed.
Print Assumptions C06_kswin_window.

(* ------------------------------------------------------------------ KSWIN: the rule *)

(** Before min_num_instances values have arrived: no drift.  Afterwards: drift iff the exact
    two-sample KS p-value between the drawn sample and the newest num_test_instances values of
    the window is <= alpha (alpha = kw_alpha_num / kw_alpha_den). *)
Theorem C06_kswin_rule : forall (A : Arith) (c : kswin_cfg) (ops : list (op (NumSys.num A * list (NumSys.num A))))
    (v : NumSys.num A) (sample : list (NumSys.num A)),
  let ops' := ops ++ [Upd (v, sample)] in
  let s' := exec (KSWIND A) c ops' in
  kdrift s' =
  if kw_min c <=? updates_since_reset (KSWIND A) ops'
  then ks_p_le sample (lastn (Z.to_nat (kw_test c)) (kwin s')) (kw_alpha_num c) (kw_alpha_den c)
  else false.
Proof. exact (@kswin_rule). Qed.
Print Assumptions C06_kswin_rule.

(** [ks_p_le X Y a b] is "p-value at the observed statistic <= a / b" *)
Theorem C06_ks_p_le_unfold : forall (A : Arith) (X Y : list (NumSys.num A)) a b,
  ks_p_le X Y a b = p_le_at (len X) (len Y) (ks_H X Y) a b.
Proof. exact ks_p_le_at. Qed.

(* ------------------------------------------------------------------ KSWIN: forced verdicts *)

(** the exact p-value is antitone in the statistic *)
Theorem C06_pvalue_antitone : forall (A : Arith) (X X' Y : list (NumSys.num A)) (a b : Z), 0 <= b ->
  len X = len X' -> ks_H X Y <= ks_H X' Y ->
  ks_p_le X Y a b = true -> ks_p_le X' Y a b = true.
Proof. exact ks_p_antitone. Qed.
Print Assumptions C06_pvalue_antitone.

(** every sub-multiset S of the older values has its threshold counts squeezed ... *)
Theorem C06_subsample_counts : forall (A : Arith) (old S rest : list (NumSys.num A)) (z : NumSys.num A),
  Permutation old (S ++ rest) ->
  Z.max 0 (len S - (len old - count_le z old)) <= count_le z S <= Z.min (len S) (count_le z old).
Proof. exact (@sub_count_bounds). Qed.

(** ... hence its statistic against the newest values lies between the bounds the harness
    computes ([H_lo] / [H_hi] = [d_bounds] of harness/c06.py, defined in Proofs/WindowR.v) *)
Theorem C06_subsample_H_bounds : forall (old S rest recent : list R) (n : Z),
  Permutation old (S ++ rest) -> len (A:=RealA) S = n -> len (A:=RealA) recent = n ->
  H_lo (A:=RealA) old recent n <= ks_H (A:=RealA) S recent <= H_hi (A:=RealA) old recent n.
Proof. exact sub_H_bounds. Qed.
Print Assumptions C06_subsample_H_bounds.

(** If already the p-value at H_lo is <= alpha, EVERY size-num_test_instances sub-sample of the
    older values is rejected, so the detector reports drift whatever the generator drew ... *)
Theorem C06_kswin_forced_alarm : forall (c : kswin_cfg) (ops : list (op (R * list R))) (v : R) (sample : list R),
  let s' := exec (KSWIND RealA) c (ops ++ [Upd (v, sample)]) in
  let W := kwin s' in
  let recent := lastn (Z.to_nat (kw_test c)) W in
  let old := firstn (length W - Z.to_nat (kw_test c)) W in
  0 <= kw_alpha_den c ->
  kw_min c <= Z.of_nat (length W) ->
  0 <= kw_test c <= Z.of_nat (length W) ->
  (exists rest, Permutation old (sample ++ rest)) ->
  len (A:=RealA) sample = kw_test c ->
  p_le_at (kw_test c) (kw_test c) (H_lo (A:=RealA) old recent (kw_test c))
          (kw_alpha_num c) (kw_alpha_den c) = true ->
  kdrift s' = true.
Proof. exact kswin_forced_alarm. Qed.
Print Assumptions C06_kswin_forced_alarm.

(** ... and if the p-value at H_hi is still > alpha, NO sub-sample is rejected: no drift. *)
Theorem C06_kswin_forced_silent : forall (c : kswin_cfg) (ops : list (op (R * list R))) (v : R) (sample : list R),
  let s' := exec (KSWIND RealA) c (ops ++ [Upd (v, sample)]) in
  let W := kwin s' in
  let recent := lastn (Z.to_nat (kw_test c)) W in
  let old := firstn (length W - Z.to_nat (kw_test c)) W in
  0 <= kw_alpha_den c ->
  0 <= kw_test c <= Z.of_nat (length W) ->
  (exists rest, Permutation old (sample ++ rest)) ->
  len (A:=RealA) sample = kw_test c ->
  p_le_at (kw_test c) (kw_test c) (H_hi (A:=RealA) old recent (kw_test c))
          (kw_alpha_num c) (kw_alpha_den c) = false ->
  kdrift s' = false.
Proof. exact kswin_forced_silent. Qed.
Print Assumptions C06_kswin_forced_silent.

(** Same seed, same run: with the generator explicit (abstract state and draw function) the run
    is a function of (config, seed state, stream), and it is the oracle run on the recorded draws. *)
Theorem C06_kswin_seeded : forall (A : Arith) (G : Type)
    (draw : G -> list (NumSys.num A) -> nat -> list (NumSys.num A) * G)
    (c : kswin_cfg) (vs : list (NumSys.num A)) (s : kswin_st A) (g : G),
  let '(s2, _, smps) := kswin_run_g draw c s g vs in
  length smps = length vs /\
  s2 = exec_from (KSWIND A) c s (map Upd (combine vs smps)).
Proof. exact (@kswin_seeded_is_oracle_run). Qed.

(* ------------------------------------------------------------------ STEPD: counts *)

(** In every reachable state (min_num_instances >= 1), with bs the truthiness of the inputs
    since the last reset: num_instances = |bs|, the overall correct counter = #true in bs, and
    the AccuracyQueue holds exactly the last min(|bs|, min_num_instances) of them with its
    size and true-counter equal to their number and number of trues. *)
Theorem C06_stepd_counts : forall (A : Arith) (c : stepd_cfg A) (ops : list (op (NumSys.num A))), 1 <= sp_min c ->
  let s := exec (STEPDD A) c ops in
  let bs := map truthy (inputs_since_reset ops []) in
  let W := lastn (Z.to_nat (sp_min c)) bs in
  sn s = Z.of_nat (length bs) /\
  scorrect s = Z.of_nat (count_occ bool_dec bs true) /\
  cq_abs (a_q (swin s)) = map Some W /\
  aq_size (swin s) = Z.min (Z.of_nat (length bs)) (sp_min c) /\
  aq_num_true (swin s) = Z.of_nat (count_occ bool_dec W true).
Proof. exact (@stepd_counts). Qed.
Print Assumptions C06_stepd_counts.

(** "overall minus window" = the counts of everything before the window *)
Theorem C06_stepd_earlier_counts : forall (bs : list bool) (k : nat),
  Z.of_nat (count_occ bool_dec bs true) - Z.of_nat (count_occ bool_dec (lastn k bs) true) =
  Z.of_nat (count_occ bool_dec (firstn (length bs - k) bs) true) /\
  Z.of_nat (length bs) - Z.of_nat (length (lastn k bs)) = Z.of_nat (length (firstn (length bs - k) bs)).
Proof. exact stepd_earlier_counts. Qed.

(* ------------------------------------------------------------------ STEPD: the rule *)

(** For n >= 2 min: drift iff stat > z_d, else warning iff stat > z_w, where stat is the
    continuity-corrected two-proportion z statistic ([stepd_stat], Model/Window.v) of
    (n, #true overall, min, #true among the last min); no statistic (pooled accuracy 0 or 1)
    or n < 2 min: no alarm.  Every number system. *)
Theorem C06_stepd_rule : forall (A : Arith) (c : stepd_cfg A) (ops : list (op (NumSys.num A))) (v : NumSys.num A),
  1 <= sp_min c ->
  let ops' := ops ++ [Upd v] in
  let s' := exec (STEPDD A) c ops' in
  let bs := map truthy (inputs_since_reset ops' []) in
  let n := Z.of_nat (length bs) in
  let W := lastn (Z.to_nat (sp_min c)) bs in
  if 2 * sp_min c <=? n then
    match stepd_stat (A:=A) n (Z.of_nat (count_occ bool_dec bs true))
                     (sp_min c) (Z.of_nat (count_occ bool_dec W true)) with
    | None => sdrift s' = false /\ swarning s' = false
    | Some t => sdrift s' = NumSys.ltb (sp_zd c) t /\
                swarning s' = negb (NumSys.ltb (sp_zd c) t) && NumSys.ltb (sp_zw c) t
    end
  else sdrift s' = false /\ swarning s' = false.
Proof. exact (@stepd_rule). Qed.
Print Assumptions C06_stepd_rule.

(** Over the reals, for ANY strictly decreasing survival function sf with sf z_d = alpha_d and
    sf z_w = alpha_w: drift iff the one-sided p-value sf(stat) < alpha_d, warning iff
    alpha_d <= sf(stat) < alpha_w. *)
Theorem C06_stepd_rule_pvalue : forall (sf : R -> R), (forall x y : R, (x < y)%R -> (sf y < sf x)%R) ->
  forall (c : stepd_cfg RealA) (alpha_d alpha_w : R) (ops : list (op R)) (v : R), 1 <= sp_min c ->
  sf (sp_zd c) = alpha_d -> sf (sp_zw c) = alpha_w ->
  let ops' := ops ++ [Upd v] in
  let s' := exec (STEPDD RealA) c ops' in
  let bs := map (truthy (A:=RealA)) (inputs_since_reset ops' []) in
  let n := Z.of_nat (length bs) in
  let W := lastn (Z.to_nat (sp_min c)) bs in
  let stat := stepd_stat (A:=RealA) n (Z.of_nat (count_occ bool_dec bs true))
                         (sp_min c) (Z.of_nat (count_occ bool_dec W true)) in
  (sdrift s' = true <-> 2 * sp_min c <= n /\ exists t, stat = Some t /\ (sf t < alpha_d)%R) /\
  (swarning s' = true <-> 2 * sp_min c <= n /\ exists t, stat = Some t /\ (alpha_d <= sf t < alpha_w)%R).
Proof. exact stepd_rule_sf. Qed.
Print Assumptions C06_stepd_rule_pvalue.

Theorem C06_sf_inversion : forall (sf : R -> R), (forall x y : R, (x < y)%R -> (sf y < sf x)%R) ->
  forall z alpha t : R, sf z = alpha -> (Rltb z t = true <-> (sf t < alpha)%R).
Proof. exact sf_inversion. Qed.

(* ------------------------------------------------------------------ non-vacuity *)
From Coq Require Import PrimFloat.
From FV Require Import FloatA.

(** KSWIN, alpha = 1/20, window 8, test size 4: after 1..4 then 11..14 the window is full, old
    and recent are disjoint, every sub-sample has H = 16 (H_lo = H_hi = 16, p = 2/70 <= 1/20):
    drift.  With overlapping ranges the bounds differ (0 and 8) and 8 is attained. *)
Example C06_kswin_nonvacuous :
  let c := {| kw_alpha_num := 1; kw_alpha_den := 20; kw_min := 8; kw_test := 4 |} in
  let smp := [3; 1; 4; 2]%float in
  map (fun s => (length (kwin s), kdrift s))
      (trace (KSWIND FloatA) c (map (fun v => Upd (v, smp)) [1; 2; 3; 4; 11; 12; 13; 14]%float))
  = [(1, false); (2, false); (3, false); (4, false); (5, false); (6, false); (7, false); (8, true)]%nat
  /\ (H_lo (A:=FloatA) [1; 2; 3; 4]%float [11; 12; 13; 14]%float 4,
      H_hi (A:=FloatA) [1; 2; 3; 4]%float [11; 12; 13; 14]%float 4) = (16, 16)
  /\ (p_le_at 4 4 16 1 20, p_le_at 4 4 12 1 20, paths_total 4 4, paths_inside 4 4 16) = (true, false, 70, 68)
  /\ (H_lo (A:=FloatA) [1; 2; 3; 4; 5; 6]%float [3; 4; 5; 6]%float 4,
      H_hi (A:=FloatA) [1; 2; 3; 4; 5; 6]%float [3; 4; 5; 6]%float 4,
      ks_H (A:=FloatA) [1; 2; 3; 4]%float [3; 4; 5; 6]%float,
      ks_H (A:=FloatA) [3; 4; 5; 6]%float [3; 4; 5; 6]%float) = (0, 8, 8, 0).
Proof. vm_compute. repeat split; reflexivity. Qed.

(** STEPD, min = 2, z_d = 0.9, z_w = 0.5: stream 1 1 0 0 1 0 0 gives statistic 1.0 at step 4
    (drift) and a warning at step 7; columns: n, correct overall, window size, window trues *)
Example C06_stepd_nonvacuous :
  let c := {| sp_zd := 0x1.ccccccccccccdp-1%float; sp_zw := 0.5%float; sp_min := 2 |} : stepd_cfg FloatA in
  map (fun s => (sn s, scorrect s, aq_size (swin s), aq_num_true (swin s), sdrift s, swarning s))
      (trace (STEPDD FloatA) c (map Upd [1; 1; 0; 0; 1; 0; 0]%float))
  = [(1, 1, 1, 1, false, false); (2, 2, 2, 2, false, false); (3, 2, 2, 1, false, false);
     (4, 2, 2, 0, true, false); (5, 3, 2, 1, false, false); (6, 3, 2, 1, false, false);
     (7, 3, 2, 0, false, true)]
  /\ stepd_stat (A:=FloatA) 4 2 2 0 = Some 1%float.
Proof. vm_compute. split; reflexivity. Qed.
