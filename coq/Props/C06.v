Theorem placeholder : True. Proof. exact I. Qed.
