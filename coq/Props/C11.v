(** C11 — KSTest / IncrementalKSTest: the statistic is sup|F_ref - F_test|, the exact p-value is
    the fraction of interleavings at least as extreme, and the incremental detector reports at
    every step what the batch test gives for the reference and the last window_size values.
    Model: Model/KS.v (H = n m D, lattice-path DP), Model/IKS.v (ring buffer, storage order).
    Proofs: Proofs/KSPaths.v, Proofs/IKSR.v.
    Regime above 10 000 values: the model reports H and leaves the asymptotic p-value
    (scipy kstwo.sf) to an oracle ([None] in the fraction slot); the batch/incremental agreement
    below covers that regime too because it is stated on the whole result pair. *)
From Coq Require Import ZArith List Bool Reals Permutation.
From FV Require Import NumSys RealA Py Sums Queue KS IKS QueueRef KSPaths IKSR.
Import ListNotations.
Local Open Scope Z_scope.

(* ------------------------------------------------------------------ (a) the statistic *)

(** For every real threshold z, |#{x<=z} m - #{y<=z} n| <= H: dividing by n m,
    |F_X(z) - F_Y(z)| <= D = H / (n m) ... *)
Theorem C11_statistic_is_sup : forall (X Y : list R) (z : R),
  Z.abs (count_le (A:=RealA) z X * len Y - count_le (A:=RealA) z Y * len X) <= ks_H (A:=RealA) X Y.
Proof. exact ks_H_sup. Qed.
Print Assumptions C11_statistic_is_sup.

(** ... and the bound is attained at a sample point: D is the supremum. *)
Theorem C11_statistic_attained : forall (X Y : list R), X ++ Y <> [] ->
  exists z, In z (X ++ Y) /\
    ks_H (A:=RealA) X Y = Z.abs (count_le (A:=RealA) z X * len Y - count_le (A:=RealA) z Y * len X).
Proof. exact ks_H_attained. Qed.
Print Assumptions C11_statistic_attained.

Theorem C11_statistic_bounds : forall (A : Arith) (X Y : list (NumSys.num A)), 0 <= ks_H X Y <= len X * len Y.
Proof. exact ks_H_bounds. Qed.

Theorem C11_statistic_order_free : forall (A : Arith) (X X' Y Y' : list (NumSys.num A)),
  Permutation X X' -> Permutation Y Y' -> ks_H X Y = ks_H X' Y'.
Proof. exact ks_H_perm. Qed.

(* ------------------------------------------------------------------ (b) the exact p-value *)

(** [words n m] lists every 0/1 word with n ones and m zeros exactly once ... *)
Theorem C11_words_are_the_interleavings : forall n m w,
  In w (words n m) <-> count_occ bool_dec w true = n /\ count_occ bool_dec w false = m.
Proof. exact words_spec. Qed.
Theorem C11_words_distinct : forall n m, NoDup (words n m).
Proof. exact words_NoDup. Qed.
(** ... so there are C(n+m, n) of them. *)
Theorem C11_words_count : forall n m : nat, (length (words n m) * fact n * fact m = fact (n + m))%nat.
Proof. exact words_binomial. Qed.
Print Assumptions C11_words_count.

(** The DP of the model counts the interleavings staying strictly inside the band. *)
Theorem C11_dp_is_enumeration : forall (n m : nat) (H : Z),
  paths_inside (Z.of_nat n) (Z.of_nat m) H =
  Z.of_nat (length (filter (inside (Z.of_nat n) (Z.of_nat m) H) (words n m))).
Proof. exact ks_dp_is_enumeration. Qed.
Print Assumptions C11_dp_is_enumeration.

(** For tie-free samples: the observed pair is one of the interleavings, the observed H is the
    statistic [word_max] of that interleaving, and the model's p-value is
    #{w : word_max w >= H} / #{all w}  =  P(D >= d) under equally likely interleavings. *)
Theorem C11_pvalue_is_enumeration : forall X Y : list R, NoDup (X ++ Y) ->
  let n := length X in let m := length Y in
  In (merge_word X Y) (words n m) /\
  ks_H (A:=RealA) X Y = word_max (Z.of_nat n) (Z.of_nat m) (merge_word X Y) /\
  ks_p_frac (A:=RealA) X Y =
    (Z.of_nat (length (filter (fun w => ks_H (A:=RealA) X Y <=? word_max (Z.of_nat n) (Z.of_nat m) w) (words n m))),
     Z.of_nat (length (words n m))).
Proof. exact ks_pvalue_is_enumeration. Qed.
Print Assumptions C11_pvalue_is_enumeration.

(** With ties the same counting formula holds for the H of the tied samples (every number system). *)
Theorem C11_pvalue_fraction : forall (A : Arith) (X Y : list (NumSys.num A)),
  ks_p_frac X Y =
  (Z.of_nat (length (filter (fun w => ks_H X Y <=? word_max (len X) (len Y) w) (words (length X) (length Y)))),
   Z.of_nat (length (words (length X) (length Y)))).
Proof. exact ks_p_frac_is_fraction. Qed.

(** 0 <= p <= 1 (repaired code, finding F18) *)
Theorem C11_pvalue_range : forall (A : Arith) (X Y : list (NumSys.num A)),
  0 <= fst (ks_p_frac X Y) <= snd (ks_p_frac X Y) /\ 0 < snd (ks_p_frac X Y).
Proof. exact ks_p_frac_range. Qed.
Print Assumptions C11_pvalue_range.

(* ------------------------------------------------------------------ (c) incremental = batch *)

(** fit, then any stream: no update raises; output k is [None] while fewer than [w] values have
    arrived, afterwards [Some (ks_test ref (last w values))].  [iks_spec_outs] / [iks_spec_out]
    are defined in Proofs/IKSR.v and unfolded by the next two theorems. *)
Theorem C11_iks_is_batch : forall (A : Arith) (ref : list (NumSys.num A)) (w : Z) (vs : list (NumSys.num A)), 1 <= w ->
  exists s', iks_run (iks_fit (iks_init w) ref) vs = Ok (s', iks_spec_outs ref w [] vs).
Proof. exact (@iks_is_batch). Qed.
Print Assumptions C11_iks_is_batch.

Theorem C11_iks_outputs_unfold : forall (A : Arith) (ref : list (NumSys.num A)) w vs k, (k < length vs)%nat ->
  nth k (iks_spec_outs ref w [] vs) None =
  (if Z.of_nat (length (firstn (S k) vs)) <? w then None
   else Some (ks_test ref (lastn (Z.to_nat w) (firstn (S k) vs)))).
Proof. exact (@iks_spec_outs_unfold). Qed.

Theorem C11_iks_is_batch_last : forall (A : Arith) (ref : list (NumSys.num A)) (w : Z) (vs : list (NumSys.num A)) (v : NumSys.num A),
  1 <= w ->
  exists s ss s', iks_run (iks_fit (iks_init w) ref) vs = Ok (s, ss) /\
    iks_update s v = Ok (s',
      if Z.of_nat (length (vs ++ [v])) <? w then None
      else Some (ks_test ref (lastn (Z.to_nat w) (vs ++ [v])))).
Proof. exact (@iks_is_batch_last). Qed.
Print Assumptions C11_iks_is_batch_last.

(** the window is handed over in storage order; the result does not depend on the order *)
Theorem C11_batch_order_free : forall (A : Arith) (ref X X' : list (NumSys.num A)),
  Permutation X X' -> ks_test ref X = ks_test ref X'.
Proof. exact (@ks_test_perm). Qed.

(* ------------------------------------------------------------------ (d) totality *)

(** After any history of fit / update / reset calls (window_size >= 1): update raises
    MissingFitError exactly when no reference is fitted, otherwise it succeeds with the batch
    result for the reference and the last [w] values accepted since the last reset. *)
Theorem C11_iks_total : forall (A : Arith) (w : Z) (ops : list iop) (v : NumSys.num A), 1 <= w ->
  let s := iks_exec w ops in
  match fst (iks_hist ops) with
  | None => iks_update s v = Raise MissingFitError
  | Some ref => exists s', iks_update s v = Ok (s', iks_spec_out ref w (snd (iks_hist ops) ++ [v]))
  end.
Proof. exact (@iks_total). Qed.
Print Assumptions C11_iks_total.

Theorem C11_iks_before_fit : forall (A : Arith) (w : Z) (v : NumSys.num A),
  iks_update (iks_init w) v = Raise MissingFitError.
Proof. exact (@iks_before_fit). Qed.
Theorem C11_iks_after_reset : forall (A : Arith) (s : iks_st A) (v : NumSys.num A),
  iks_update (iks_reset s) v = Raise MissingFitError.
Proof. exact (@iks_after_reset). Qed.
Theorem C11_iks_fitted_never_raises : forall (A : Arith) w ops X (v : NumSys.num A), 1 <= w ->
  exists s' o, iks_update (iks_fit (iks_exec w ops) X) v = Ok (s', o).
Proof. exact (@iks_fitted_never_raises). Qed.

(* ------------------------------------------------------------------ non-vacuity *)
From Coq Require Import PrimFloat.
From FV Require Import FloatA.

(** reference of 4, window of 3, five updates: the ring wraps (storage order 8, 0, 6 differs
    from arrival order 6, 8, 0), outputs are None, None and then the batch results out of
    C(7,3) = 35 interleavings *)
Example C11_nonvacuous :
  let ref := [1%float; 3%float; 5%float; 7%float] in
  match iks_run (A:=FloatA) (iks_fit (iks_init 3) ref) [2%float; 4%float; 6%float; 8%float; 0%float] with
  | Ok (s, outs) => (storage (ik_q s), outs)
  | Raise _ => ([], [])
  end =
  ([8%float; 0%float; 6%float],
   [None; None; Some (3, Some (35, 35)); Some (6, Some (23, 35)); Some (5, Some (31, 35))])
  /\ ks_test (A:=FloatA) ref [6%float; 8%float; 0%float] = (5, Some (31, 35)).
Proof. vm_compute. split; reflexivity. Qed.

Example C11_nonvacuous_unfitted :
  iks_update (A:=FloatA) (iks_init 3) 1%float = Raise MissingFitError.
Proof. reflexivity. Qed.
