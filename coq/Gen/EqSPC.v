(** Source-level tie for C03 (DDM) and the reset clause of C02: the definitions GENERATED from
    statistical_process_control/{base,ddm}.py (`DDM._update` with `_calculate_error_rate_plus_std`,
    `_update_min_values`, `_check_threshold`, the `min_error_rate` / `min_std` setters and their `float("inf")`
    sentinels; `reset` through BaseSPCError -> BaseSPC -> BaseConceptDrift) equal the hand-written model
    [SPC.v], and C03's "DDM = published rule" theorem is re-stated over the generated code. *)
From Coq Require Import ZArith List Bool Lia Reals Lra.
From FV Require Import NumSys RealA Py NumX Sums Queue Stats Detector SPC SPCSpec StatsR SPCR.
From FVG Require Import GSrc EqStats.
Import ListNotations.

Section EqDDM.
  Context {A : Arith}.
  Definition ddm_cfg_t (c : ddm_cfg A) := (dd_min c, dd_warn c, dd_drift c).
  Definition mins_er (m : mins (A:=A)) : option (num A) := option_map fst m.
  Definition mins_sd (m : mins (A:=A)) : option (num A) := option_map snd m.
  Definition ddm_t (c : ddm_cfg A) (s : ddm_st A) :=
    (ddm_cfg_t c, dn s, ddrift s, mean_t (der s), mins_er (dmins s), mins_sd (dmins s), dwarning s).

  (** the setters of min_error_rate / min_std reject negative values: the step agrees with the model whenever the
      running mean and its standard deviation are not negative (always so on a 0/1 stream, see below) *)
  Definition nonneg_step (s : ddm_st A) (v : num A) : Prop :=
    let er := mean_update (der s) v in
    ltb (m_mean er) (ofZ 0) = false /\ ltb (snd (eps_std (m_mean er) (dn s + 1))) (ofZ 0) = false.

  Lemma DDM_update_eq : forall c s v, (0 <= dn s)%Z -> (0 <= m_n (der s))%Z -> nonneg_step s v ->
    DDM__update (ddm_t c s) v = Ok (ddm_t c (ddm_step c s v), tt).
  Proof.
    intros c [n er m d w] v Hn Hm [H1 H2]. cbn in Hn, Hm.
    unfold nonneg_step, eps_std, mean_update, incr_op, one in H1, H2. cbn in H1, H2.
    autounfold with gensrc. unfold
      ddm_t, ddm_cfg_t, ddm_step, eps_std, update_mins, check_thr, mean_update, incr_op, mean_t, mins_er, mins_sd, one, zero.
    cbn. repeat zstep. cbn.
    destruct (Z.leb_spec (dd_min c) (n + 1)); cbn; [|reflexivity].
    destruct m as [[pm sm]|]; cbn.
    - destruct (ltb _ (add pm sm)) eqn:E; cbn.
      + rewrite H1; cbn. rewrite H2; cbn.
        repeat match goal with |- context [if ?b then _ else _] => destruct b eqn:? end; reflexivity.
      + repeat match goal with |- context [if ?b then _ else _] => destruct b eqn:? end; reflexivity.
    - rewrite H1; cbn. rewrite H2; cbn.
      repeat match goal with |- context [if ?b then _ else _] => destruct b eqn:? end; reflexivity.
  Qed.

  Lemma DDM_reset_eq : forall c s, DDM_reset (ddm_t c s) = Ok (ddm_t c (ddm_init c), tt).
  Proof. reflexivity. Qed.
End EqDDM.

(** * over R: on a stream of non-negative values the setter guards never fire *)
Lemma Rsum_nonneg : forall l, (forall v, In v l -> 0 <= v)%R -> (0 <= Rsum l)%R.
Proof.
  induction l as [|x l IH]; intros H; [cbn; lra|]. change (Rsum (x :: l)) with (x + Rsum l)%R.
  pose proof (H x (or_introl eq_refl)). assert (0 <= Rsum l)%R by (apply IH; intros; apply H; right; assumption). lra.
Qed.
Lemma Rmean_nonneg : forall l, (forall v, In v l -> 0 <= v)%R -> (0 <= Rmean l)%R.
Proof.
  intros l H. unfold Rmean. destruct l as [|x l]; [cbn; unfold Rdiv; rewrite Rmult_0_l; lra|].
  apply Rmult_le_pos; [apply Rsum_nonneg; assumption|]. left. apply Rinv_0_lt_compat. apply lt_0_INR. cbn; lia.
Qed.

Lemma g_ddm_run_eq : forall (c : ddm_cfg RealA) vs pre, (forall v, In v (pre ++ vs) -> 0 <= v)%R ->
  g_run DDM__update (ddm_t c (ddm_run c pre)) vs = Ok (ddm_t c (ddm_run c (pre ++ vs))).
Proof.
  intros c vs. induction vs as [|v r IH]; intros pre H; [rewrite app_nil_r; reflexivity|].
  cbn [g_run].
  assert (Hder : der (ddm_run c pre) = mean_run (A:=RealA) pre /\ dn (ddm_run c pre) = Z.of_nat (length pre)).
  { clear. induction pre as [|x pre IHp] using rev_ind; [split; reflexivity|].
    rewrite ddm_run_snoc. destruct IHp as [Hd Hn]. unfold ddm_step. rewrite Hd, Hn.
    assert (Hl : (Z.of_nat (length pre) + 1 = Z.of_nat (length (pre ++ [x])))%Z) by (rewrite app_length; cbn; lia).
    unfold mean_run. rewrite fold_left_app. cbn [fold_left].
    destruct (dd_min c <=? _)%Z; [destruct (eps_std _ _); destruct (check_thr _ _ _)|]; cbn; split; try reflexivity; exact Hl. }
  destruct Hder as [Hder Hdn].
  rewrite DDM_update_eq.
  - rewrite <- ddm_run_snoc. replace (pre ++ v :: r) with ((pre ++ [v]) ++ r) by (rewrite <- app_assoc; reflexivity).
    apply IH. intros x Hx. apply H. rewrite <- app_assoc in Hx. exact Hx.
  - rewrite Hdn. lia.
  - rewrite Hder. destruct (mean_run_inv pre) as [_ Hc]. rewrite Hc. lia.
  - unfold nonneg_step. rewrite Hder. rewrite <- mean_run_snoc.
    destruct (mean_run_inv (pre ++ [v])) as [Hm _]. cbn [snd eps_std]. rewrite Hm.
    split; apply Rltb_false.
    + apply Rmean_nonneg. intros x Hx. apply H. apply in_app_or in Hx. apply in_or_app.
      destruct Hx as [Hx|[Hx|[]]]; [left; assumption | right; left; assumption].
    + cbn. apply sqrt_pos.
Qed.

(** C03 (DDM clause) over the source-derived definitions: from the state the source's reset() produces, on any
    stream of non-negative reals (0/1 error streams in particular) no update raises, `num_instances = t`, the stored
    minima are the pair minimising p+s since min_num_instances, and (drift, warning) is the published rule's verdict. *)
Theorem src_ddm_refines_spec : forall (c : ddm_cfg RealA) (s0 : ddm_st RealA) (vs : list R),
  (1 <= dd_min c)%Z -> (forall v, In v vs -> 0 <= v)%R ->
  match DDM_reset (ddm_t c s0) with
  | Ok (s1, _) => exists n d er mer msd w, g_run DDM__update s1 vs = Ok (ddm_cfg_t c, n, d, er, mer, msd, w) /\
      n = Z.of_nat (length vs) /\
      mer = option_map fst (ddm_min (Z.to_nat (dd_min c)) (rev vs)) /\
      msd = option_map snd (ddm_min (Z.to_nat (dd_min c)) (rev vs)) /\
      verdict_of d w = ddm_spec (dd_warn c) (dd_drift c) (Z.to_nat (dd_min c)) (rev vs)
  | Raise _ => False
  end.
Proof.
  intros c s0 vs Hc Hv. rewrite DDM_reset_eq. cbv beta iota.
  destruct (ddm_refines_spec c vs Hc) as (Hn & Hm & Hver).
  eexists _, _, _, _, _, _. split; [exact (g_ddm_run_eq c vs [] Hv)|].
  cbn [app]. unfold mins_er, mins_sd. rewrite Hm. repeat split; assumption.
Qed.
Print Assumptions src_ddm_refines_spec.

(** * ECDD-WT: `_update` (EWMA chart against the class-level control-limit lambdas, selected by the configured
      average run length) and `reset` *)
Section EqECDD.
  Context {A : Arith}.
  Definition ecdd_cfg_t (c : ecdd_cfg A) := (ec_min c, ec_arl c, ec_lambda c, ec_warn c).
  (** the last slot is `_lambda_div_two_minus_lambda`, computed once by the (untranslated) constructor *)
  Definition ecdd_t (c : ecdd_cfg A) (s : ecdd_st A) :=
    (ecdd_cfg_t c, cn s, cdrift s, mean_t (cp s), ewma_t (cz s), cwarning s, div (ec_lambda c) (sub two (ec_lambda c))).

  Lemma ECDD_update_eq : forall c s v, (0 <= cn s)%Z -> (0 <= m_n (cp s))%Z ->
    ECDDWT__update (ecdd_t c s) v = Ok (ecdd_t c (ecdd_step c s v), tt).
  Proof.
    intros c [n p z d w] v Hn Hm. cbn in Hn, Hm.
    autounfold with gensrc. unfold ecdd_t, ecdd_cfg_t, ecdd_step, ecdd_zvar, ecdd_check, control_limit, lit,
      mean_update, ewma_update, incr_op, mean_t, ewma_t, one, two, zero.
    cbn -[powN Z.mul Z.to_nat].
    destruct (Z.ltb_spec (n + 1) 0); [lia|]. cbn -[powN Z.mul Z.to_nat].
    destruct (Z.ltb_spec (m_n p + 1) 0); [lia|]. cbn -[powN Z.mul Z.to_nat].
    destruct (Z.leb (ec_min c) (n + 1)); cbn -[powN Z.mul Z.to_nat]; [|reflexivity].
    destruct (Z.eqb (ec_arl c) 100); [|destruct (Z.eqb (ec_arl c) 400)];
      repeat match goal with |- context [if ?b then _ else _] => destruct b eqn:? end; reflexivity.
  Qed.

  Lemma ECDD_reset_eq : forall c s, leb (ofZ 0) (ec_lambda c) && leb (ec_lambda c) (ofZ 1) = true ->
    ECDDWT_reset (ecdd_t c s) = Ok (ecdd_t c (ecdd_init c), tt).
  Proof.
    intros c s H. autounfold with gensrc. unfold ecdd_t, ecdd_cfg_t.
    cbn. rewrite H. reflexivity.
  Qed.
End EqECDD.

Lemma g_ecdd_run_eq : forall (c : ecdd_cfg RealA) vs pre,
  g_run ECDDWT__update (ecdd_t c (ecdd_run c pre)) vs = Ok (ecdd_t c (ecdd_run c (pre ++ vs))).
Proof.
  intros c vs. induction vs as [|v r IH]; intros pre; [rewrite app_nil_r; reflexivity|].
  cbn [g_run].
  assert (Hinv : cn (ecdd_run c pre) = Z.of_nat (length pre) /\ m_n (cp (ecdd_run c pre)) = Z.of_nat (length pre)).
  { clear. induction pre as [|x pre IHp] using rev_ind; [split; reflexivity|].
    rewrite ecdd_run_snoc. destruct IHp as [Hn Hp]. unfold ecdd_step.
    assert (Hl : (Z.of_nat (length pre) + 1 = Z.of_nat (length (pre ++ [x])))%Z) by (rewrite app_length; cbn; lia).
    destruct (ec_min c <=? _)%Z; [destruct (ecdd_check _ _ _ _ _)|]; cbn; rewrite ?Hn, ?Hp; split; exact Hl. }
  destruct Hinv as [Hn Hp].
  rewrite ECDD_update_eq by lia.
  rewrite <- ecdd_run_snoc. replace (pre ++ v :: r) with ((pre ++ [v]) ++ r) by (rewrite <- app_assoc; reflexivity).
  apply IH.
Qed.

(** C03 (ECDD-WT clause) over the source-derived definitions: from the state reset() produces (lambda_ in [0,1], as
    the configuration constructor enforces), after any real stream no update raises and (drift, warning) is the
    verdict of the EWMA chart against the Ross et al. polynomial for the configured average run length. *)
Theorem src_ecdd_refines_spec : forall (c : ecdd_cfg RealA) (s0 : ecdd_st RealA) (vs : list R),
  (1 <= ec_min c)%Z -> (0 <= ec_lambda c <= 1)%R ->
  match ECDDWT_reset (ecdd_t c s0) with
  | Ok (s1, _) => exists n d p z w l2, g_run ECDDWT__update s1 vs = Ok (ecdd_cfg_t c, n, d, p, z, w, l2) /\
      verdict_of d w = ecdd_spec (ec_lambda c) (ec_arl c) (ec_warn c) (Z.to_nat (ec_min c)) (rev vs)
  | Raise _ => False
  end.
Proof.
  intros c s0 vs Hc [Hl0 Hl1]. rewrite ECDD_reset_eq.
  - cbv beta iota. eexists _, _, _, _, _, _. split; [exact (g_ecdd_run_eq c vs [])|].
    cbn [app]. apply ecdd_refines_spec. exact Hc.
  - cbn. apply andb_true_intro. split; apply Rleb_true; assumption.
Qed.
Print Assumptions src_ecdd_refines_spec.

(** * EDDM: `_update` (Welford statistics of the distances between errors behind six validated setters, the
      `float("-inf")` maximum, the ratio rule) and `reset` *)
Section EqEDDM.
  Context {A : Arith}.
  Variables c0 : Z. Variables wl dl : num A.   (* SPC base fields the EDDM configuration also stores: never read *)
  Definition eddm_cfg_t (c : eddm_cfg A) := (c0, wl, dl, ed_alpha c, ed_beta c, ed_level c, ed_min c).
  Definition eddm_t (c : eddm_cfg A) (s : eddm_st A) :=
    (eddm_cfg_t c, en s, edrift s, elast s, emax s, emean s, enmis s, eold s, estd s, evar s, ewarning s).

  (** the setters of the four statistics reject negative values: the step agrees with the model whenever the old
      mean and the new mean / variance / deviation are not negative (always so over R, see below) *)
  Definition eddm_nonneg (s : eddm_st A) : Prop :=
    let k := (enmis s + 1)%Z in
    let dist := sub (ofZ (en s + 1)) (elast s) in
    let mean := add (emean s) (div (sub dist (emean s)) (ofZ k)) in
    let var := add (evar s) (mul (sub dist mean) (sub dist (emean s))) in
    ltb (emean s) (ofZ 0) = false /\ ltb mean (ofZ 0) = false /\ ltb var (ofZ 0) = false /\
    ltb (sqrt (div var (ofZ k))) (ofZ 0) = false.

  Lemma EDDM_update_eq : forall c s v, (0 <= en s)%Z -> (0 <= enmis s)%Z -> (eqb v (ofZ 1) = true -> eddm_nonneg s) ->
    EDDM__update (eddm_t c s) v = Ok (eddm_t c (eddm_step c s v), tt).
  Proof.
    intros c [n last mx mean k old std var d w] v Hn Hk Hnn. cbn in Hn, Hk.
    unfold eddm_nonneg in Hnn. cbn in Hnn.
    autounfold with gensrc. unfold eddm_t, eddm_cfg_t, eddm_step, one, zero. cbn -[Z.mul].
    destruct (Z.ltb_spec (n + 1) 0); [lia|]. cbn -[Z.mul].
    destruct (eqb v (ofZ 1)) eqn:Ev; cbn -[Z.mul]; [|reflexivity].
    destruct (Hnn eq_refl) as (H1 & H2 & H3 & H4).
    destruct (Z.ltb_spec (k + 1) 0); [lia|]. cbn -[Z.mul].
    rewrite H1. cbn -[Z.mul]. rewrite H2. cbn -[Z.mul]. rewrite H3. cbn -[Z.mul].
    destruct (Z.ltb_spec 0 (k + 1)); [|lia]. cbn -[Z.mul]. rewrite H4. cbn -[Z.mul].
    destruct (Z.ltb_spec (n + 1) 0); [lia|]. cbn -[Z.mul].
    destruct (Z.leb (ed_min c) (n + 1)); cbn -[Z.mul]; [|reflexivity].
    unfold gt_opt, xn_lt_xn, xn_div. destruct mx as [m|]; cbn -[Z.mul]; [|reflexivity].
    repeat match goal with |- context [if ?b then _ else _] => destruct b eqn:? end; reflexivity.
  Qed.

  (** reset() writes 0.0 through the validated setters: `0.0 < 0` must be False in the number system *)
  Lemma EDDM_reset_eq : forall c s, ltb (@ofZ A 0) (ofZ 0) = false ->
    EDDM_reset (eddm_t c s) = Ok (eddm_t c (eddm_init c), tt).
  Proof. intros c s H0. autounfold with gensrc. unfold eddm_t, eddm_cfg_t. cbn. rewrite H0. reflexivity. Qed.
End EqEDDM.

(** over R: the four statistics are the batch mean / SSD / deviation of the error distances, hence never negative *)
Lemma gaps_from_nonneg : forall vs pos last x, In x (gaps_from vs pos last) -> (0 <= x)%R.
Proof.
  induction vs as [|v vs IH]; intros pos last x Hin; cbn in Hin; [contradiction|].
  destruct (Req_EM_T v 1).
  - destruct Hin as [<-|Hin]; [apply pos_INR | eapply IH; eassumption].
  - eapply IH; eassumption.
Qed.

Lemma g_eddm_run_eq : forall c0 (wl dl : R) (c : eddm_cfg RealA) vs pre,
  g_run EDDM__update (eddm_t c0 wl dl c (eddm_run c pre)) vs = Ok (eddm_t c0 wl dl c (eddm_run c (pre ++ vs))).
Proof.
  intros c0 wl dl c vs. induction vs as [|v r IH]; intros pre; [rewrite app_nil_r; reflexivity|].
  cbn [g_run].
  destruct (eddm_run_inv c pre) as (Hn & Hlast & Hk & Hm & Hv & Hs).
  rewrite EDDM_update_eq.
  - rewrite <- eddm_run_snoc. replace (pre ++ v :: r) with ((pre ++ [v]) ++ r) by (rewrite <- app_assoc; reflexivity). apply IH.
  - rewrite Hn. lia.
  - rewrite Hk. lia.
  - intros Ev. cbn in Ev. apply Reqb_true in Ev.
    destruct (eddm_run_inv c (pre ++ [v])) as (_ & _ & _ & Hm' & Hv' & Hs').
    rewrite eddm_run_snoc in Hm', Hv', Hs'.
    destruct (eddm_step_err_fields c (eddm_run c pre) v Ev) as (_ & _ & _ & Fm & Fv & _).
    unfold eddm_nonneg. cbn [ltb RealA ofZ sqrt add sub mul div num].
    repeat split; apply Rltb_false.
    + rewrite Hm. apply Rmean_nonneg. intros x Hx. eapply gaps_from_nonneg; eassumption.
    + rewrite <- Fm, Hm'. apply Rmean_nonneg. intros x Hx. eapply gaps_from_nonneg; eassumption.
    + rewrite <- Fv, Hv'. apply Rssd_nonneg.
    + apply sqrt_pos.
Qed.


(** C03 (EDDM clause) over the source-derived definitions: from the state reset() produces, after any real stream no
    update raises (none of the six setter guards can fire) and the statistics the code holds are the batch mean, sum
    of squared deviations and population deviation of the distances between errors -- the quantities the published
    ratio rule is stated on (the rule itself, per step: [eddm_rule] on the model, which the run below reaches). *)
Theorem src_eddm_stats_batch : forall c0 (wl dl : R) (c : eddm_cfg RealA) (s0 : eddm_st RealA) (vs : list R),
  match EDDM_reset (eddm_t c0 wl dl c s0) with
  | Ok (s1, _) => g_run EDDM__update s1 vs = Ok (eddm_t c0 wl dl c (eddm_run c vs)) /\
      let s := eddm_run c vs in let ds := gaps (rev vs) in
      en s = Z.of_nat (length vs) /\ enmis s = Z.of_nat (length ds) /\
      (ds <> [] -> emean s = Rmean ds /\ evar s = Rssd ds /\ estd s = sqrt (Rssd ds / INR (length ds))%R)
  | Raise _ => False
  end.
Proof.
  intros c0 wl dl c s0 vs. rewrite EDDM_reset_eq by (cbn; apply Rltb_false; lra).
  cbv beta iota. split; [exact (g_eddm_run_eq c0 wl dl c vs [])|].
  destruct (eddm_stats_batch c vs) as (H1 & H2 & H3 & _). cbv zeta in *. repeat split; try assumption; apply H3; assumption.
Qed.
Print Assumptions src_eddm_stats_batch.
