(** Source-level tie for C06 (KSWIN): the definitions GENERATED from kswin.py -- `_update` (the `collections.deque(maxlen=
    min_num_instances)` window mutated in place, the two `itertools.islice` views, `np.random.choice(..., replace=False)` and
    `scipy.stats.ks_2samp(..., alternative="two-sided", method="auto")`, both ORACLES: uninterpreted functions the generated
    file takes as parameters) and `reset`.  For every number system. *)
From Coq Require Import ZArith List Bool Lia.
From FV Require Import NumSys Py NumX Sums Queue Stats Detector KS Window QueueRef IKSR.
From FVG Require Import GSrc EqStats.
Import ListNotations.

Section EqKSWIN.
  Context {A : Arith}.
  Variable ks : list (num A) -> list (num A) -> num A * num A.
  Variable choice : list (num A) -> Z -> list (num A).

  (** what the source computes, written over lists: the window is the last [n] inputs; once it is full the verdict is
      `p <= alpha` for the KS p-value of (a draw of [test] values from the older part, the last [test] values) *)
  Record kst := { g_n : Z; g_win : list (num A); g_drift : bool }.
  Definition ksw_t (n : Z) (alpha : num A) (test : Z) (s : kst) := ((n, alpha, test), g_n s, g_drift s, g_win s).
  Definition older (test : Z) (w : list (num A)) : list (num A) := firstn (length w - Z.to_nat test) w.
  Definition g_step (n : Z) (alpha : num A) (test : Z) (s : kst) (v : num A) : kst :=
    let w := lastn (Z.to_nat n) (g_win s ++ [v]) in
    {| g_n := g_n s + 1; g_win := w;
       g_drift := (n <=? Z.of_nat (length w))%Z && leb (snd (ks (choice (older test w) test) (lastn (Z.to_nat test) w))) alpha |}.

  Lemma KSWIN_update_eq : forall n alpha test s v, (1 <= test)%Z -> (2 * test <= n)%Z -> (0 <= g_n s)%Z ->
    KSWIN__update ks choice (ksw_t n alpha test s) v = Ok (ksw_t n alpha test (g_step n alpha test s v), tt).
  Proof.
    intros n alpha test [k w d] v Ht Hn Hk. cbn [g_n] in Hk.
    unfold KSWIN__update, ksw_t, g_step. cbn [g_n g_win g_drift].
    change (skipn (length (w ++ [v]) - Z.to_nat n) (w ++ [v])) with (lastn (Z.to_nat n) (w ++ [v])).
    set (W := lastn (Z.to_nat n) (w ++ [v])). set (L := length W).
    destruct (Z.ltb_spec (k + 1) 0); [lia|]. cbn [bind].
    destruct (Z.leb_spec n (Z.of_nat L)) as [Hfull|Hnf]; cbn [bind andb]; [|reflexivity].
    destruct (Z.ltb_spec (Z.of_nat L - test) 0); [lia|]. destruct (Z.ltb_spec (Z.of_nat L) 0); [lia|]. cbn [orb bind].
    change (0 <? 0)%Z with false. cbn [orb bind].
    change (skipn (Z.to_nat 0) W) with W.
    replace (Z.to_nat (Z.of_nat L - test - 0)) with (L - Z.to_nat test)%nat by lia.
    change (firstn (L - Z.to_nat test) W) with (older test W).
    assert (Hol : length (older test W) = (L - Z.to_nat test)%nat) by (unfold older; rewrite firstn_length; fold L; lia).
    rewrite Hol.
    destruct (Z.ltb_spec test 0); [lia|]. destruct (Z.ltb_spec (Z.of_nat (L - Z.to_nat test)) test); [lia|]. cbn [orb bind].
    replace (Z.to_nat (Z.of_nat L - (Z.of_nat L - test))) with (Z.to_nat test) by lia.
    replace (Z.to_nat (Z.of_nat L - test)) with (L - Z.to_nat test)%nat by lia.
    change (skipn (L - Z.to_nat test) W) with (lastn (Z.to_nat test) W).
    rewrite (firstn_all2 (n := Z.to_nat test) (lastn (Z.to_nat test) W)).
    2:{ unfold lastn. rewrite skipn_length. fold L. lia. }
    destruct (ks (choice (older test W) test) (lastn (Z.to_nat test) W)) as [st p]. cbn [snd].
    destruct (leb p alpha); reflexivity.
  Qed.

  Lemma KSWIN_reset_eq : forall n alpha test s,
    KSWIN_reset (ksw_t n alpha test s) = Ok (ksw_t n alpha test {| g_n := 0; g_win := []; g_drift := false |}, tt).
  Proof. reflexivity. Qed.

  Definition g_init : kst := {| g_n := 0; g_win := []; g_drift := false |}.
  Definition g_krun (n : Z) (alpha : num A) (test : Z) (vs : list (num A)) : kst := fold_left (g_step n alpha test) vs g_init.

  Lemma g_krun_fields : forall n alpha test vs,
    g_n (g_krun n alpha test vs) = Z.of_nat (length vs) /\ g_win (g_krun n alpha test vs) = lastn (Z.to_nat n) vs.
  Proof.
    intros n alpha test vs. induction vs as [|v r IH] using rev_ind.
    - split; [reflexivity|]. unfold lastn. destruct (Z.to_nat n); reflexivity.
    - unfold g_krun. rewrite fold_left_app. cbn [fold_left]. fold (g_krun n alpha test r).
      destruct IH as [Hn Hw]. unfold g_step. cbn [g_n g_win]. rewrite Hn, Hw, app_length. cbn [length]. split; [lia|].
      apply lastn_lastn_snoc.
  Qed.

  Lemma g_step_n : forall n alpha test s v, (0 <= g_n s)%Z -> (0 <= g_n (g_step n alpha test s v))%Z.
  Proof. intros. unfold g_step. cbn [g_n]. lia. Qed.

  Lemma g_kswin_run_eq : forall n alpha test vs s, (1 <= test)%Z -> (2 * test <= n)%Z -> (0 <= g_n s)%Z ->
    g_run (KSWIN__update ks choice) (ksw_t n alpha test s) vs = Ok (ksw_t n alpha test (fold_left (g_step n alpha test) vs s)).
  Proof.
    intros n alpha test vs. induction vs as [|v r IH]; intros s Ht Hn Hk; [reflexivity|].
    cbn [g_run fold_left]. rewrite (KSWIN_update_eq n alpha test s v Ht Hn Hk). apply IH; try assumption. apply g_step_n. exact Hk.
  Qed.

  (** C06 (KSWIN clauses) over the source-derived definitions, for EVERY number system and whatever the two library calls
      return: from the state the source's reset() produces, for an accepted configuration (1 <= num_test_instances,
      2 * num_test_instances <= min_num_instances) no update raises (neither `islice` bound is negative and the draw never
      asks for more values than the older part holds), the window is exactly the last `min_num_instances` inputs, and once it
      is full the verdict after each update is `p <= alpha` for the p-value `ks_2samp` returns on (the values `choice` drew
      from the older part of the window, the most recent `num_test_instances` values); before that, no drift *)
  Theorem src_kswin_window : forall n alpha test (s0 : kst) (vs : list (num A)), (1 <= test)%Z -> (2 * test <= n)%Z ->
    match KSWIN_reset (ksw_t n alpha test s0) with
    | Ok (s1, _) => exists d,
        g_run (KSWIN__update ks choice) s1 vs = Ok ((n, alpha, test), Z.of_nat (length vs), d, lastn (Z.to_nat n) vs) /\
        (vs <> [] ->
           let W := lastn (Z.to_nat n) vs in
           d = (n <=? Z.of_nat (length W))%Z && leb (snd (ks (choice (older test W) test) (lastn (Z.to_nat test) W))) alpha)
    | Raise _ => False
    end.
  Proof.
    intros n alpha test s0 vs Ht Hn. rewrite KSWIN_reset_eq. cbv beta iota. fold g_init.
    rewrite (g_kswin_run_eq n alpha test vs g_init Ht Hn ltac:(cbn; lia)). fold (g_krun n alpha test vs).
    destruct (g_krun_fields n alpha test vs) as [Hk Hw]. unfold ksw_t. rewrite Hk, Hw.
    eexists. split; [reflexivity|]. intros Hne. cbv zeta.
    destruct vs as [|x r] using rev_ind; [congruence|]. clear IHr.
    unfold g_krun. rewrite fold_left_app. cbn [fold_left]. fold (g_krun n alpha test r).
    unfold g_step. cbn [g_drift]. destruct (g_krun_fields n alpha test r) as [_ Hwr]. rewrite Hwr, lastn_lastn_snoc. reflexivity.
  Qed.

  (** the same run seen through the hand-written model [Window.kswin_step]: if the p-value oracle decides like the
      model's exact Kolmogorov-Smirnov p-value (alpha carried as the rational it denotes), the generated object moves as
      the model does when the model is fed, at each step, the sample the draw oracle returned -- so every C06 theorem that
      holds FOR ALL samples (window content, forced verdicts, constant streams) holds of the generated code *)
  Definition to_model (s : kst) : kswin_st A := {| kn := g_n s; kwin := g_win s; kdrift := g_drift s |}.
  Lemma g_step_model : forall (c : kswin_cfg) alpha s v,
    (forall smp r, leb (snd (ks smp r)) alpha = ks_p_le smp r (kw_alpha_num c) (kw_alpha_den c)) ->
    to_model (g_step (kw_min c) alpha (kw_test c) s v) =
      kswin_step c (to_model s)
        (v, choice (older (kw_test c) (lastn (Z.to_nat (kw_min c)) (g_win s ++ [v]))) (kw_test c)).
  Proof. intros c alpha s v Hks. unfold to_model, g_step, kswin_step. cbn [kn kwin kdrift g_n g_win g_drift]. rewrite Hks. reflexivity. Qed.

  (** the whole run through the model: the operations the model is fed are the stream's values paired with the oracle's draws *)
  Fixpoint kops_from (n test : Z) (w : list (num A)) (vs : list (num A)) : list (op (num A * list (num A))) :=
    match vs with
    | [] => []
    | v :: r => let w' := lastn (Z.to_nat n) (w ++ [v]) in Upd (v, choice (older test w') test) :: kops_from n test w' r
    end.

  Lemma g_run_model : forall (c : kswin_cfg) alpha vs s,
    (forall smp r, leb (snd (ks smp r)) alpha = ks_p_le smp r (kw_alpha_num c) (kw_alpha_den c)) ->
    to_model (fold_left (g_step (kw_min c) alpha (kw_test c)) vs s) =
      exec_from (KSWIND A) c (to_model s) (kops_from (kw_min c) (kw_test c) (g_win s) vs).
  Proof.
    intros c alpha vs. induction vs as [|v r IH]; intros s Hks; [reflexivity|].
    cbn [fold_left kops_from]. rewrite (IH _ Hks). rewrite (g_step_model c alpha s v Hks). reflexivity.
  Qed.

  (** histories: C02's clause (reset() = where a fresh history starts) and C01's warm-up silence over the generated KSWIN *)
  Lemma kswin_fresh : forall n alpha test ops1 ops2, (1 <= test)%Z -> (2 * test <= n)%Z ->
    g_exec (KSWIN__update ks choice) KSWIN_reset (ksw_t n alpha test g_init) (ops1 ++ Rst :: ops2) =
    g_exec (KSWIN__update ks choice) KSWIN_reset (ksw_t n alpha test g_init) ops2.
  Proof.
    intros n alpha test ops1 ops2 Ht Hn.
    exact (g_exec_reset_fresh _ _ _ (g_step n alpha test) g_init (ksw_t n alpha test) (KSWIN__update ks choice) KSWIN_reset
             (fun s => (0 <= g_n s)%Z) anyv ltac:(cbn; lia) (fun s v H _ => g_step_n n alpha test s v H)
             (fun s v H _ => KSWIN_update_eq n alpha test s v Ht Hn H) (fun s _ => KSWIN_reset_eq n alpha test s)
             ops1 ops2 (ops_any _) (ops_any _)).
  Qed.

  Lemma kswin_warmup : forall n alpha test vs, (Z.of_nat (length vs) < n)%Z -> g_drift (g_krun n alpha test vs) = false.
  Proof.
    intros n alpha test vs Hlt. destruct vs as [|x r] using rev_ind; [reflexivity|]. clear IHr.
    unfold g_krun. rewrite fold_left_app. cbn [fold_left]. fold (g_krun n alpha test r). unfold g_step. cbn [g_drift].
    destruct (g_krun_fields n alpha test r) as [_ Hw]. rewrite Hw, lastn_lastn_snoc.
    replace (n <=? Z.of_nat (length (lastn (Z.to_nat n) (r ++ [x]))))%Z with false; [reflexivity|].
    symmetry. apply Z.leb_gt. rewrite lastn_length. rewrite app_length in *. cbn [length] in *. lia.
  Qed.
End EqKSWIN.
Print Assumptions src_kswin_window.

(** C01's constant-stream clause over the generated KSWIN (over R): if the p-value oracle decides like the exact KS
    p-value and the draw oracle returns [num_test_instances] of the values it was offered, then on a constant stream the
    generated detector never reports drift, for every accepted alpha in (0, 1) given as a rational *)
From Coq Require Import Reals.
From FV Require Import RealA ConstantR.
Theorem src_kswin_constant : forall (ks : list R -> list R -> R * R) (choice : list R -> Z -> list R)
    (c : kswin_cfg) (alpha k : R) (s0 : kst (A:=RealA)) (n : nat),
  (0 < kw_alpha_num c)%Z -> (kw_alpha_num c < kw_alpha_den c)%Z -> (1 <= kw_test c)%Z -> (2 * kw_test c <= kw_min c)%Z ->
  (forall smp r, @NumSys.leb RealA (snd (ks smp r)) alpha = ks_p_le (A:=RealA) smp r (kw_alpha_num c) (kw_alpha_den c)) ->
  (forall l, Forall (fun x => x = k) l -> length (choice l (kw_test c)) = Z.to_nat (kw_test c) /\ Forall (fun x => x = k) (choice l (kw_test c))) ->
  match KSWIN_reset (ksw_t (kw_min c) alpha (kw_test c) s0) with
  | Ok (s1, _) => exists w, g_run (KSWIN__update ks choice) s1 (repeat k n) = Ok ((kw_min c, alpha, kw_test c), Z.of_nat n, false, w)
  | Raise _ => False
  end.
Proof.
  intros ks choice c alpha k s0 n Hnum Hden Ht Hn Hks Hch.
  assert (G : forall m w, Forall (fun x => x = k) w ->
    Forall (fun o => o = Rst \/ exists sample, o = Upd (k, sample) /\
              (sample = [] \/ (length sample = Z.to_nat (kw_test c) /\ Forall (fun x => x = k) sample)))
           (kops_from choice (kw_min c) (kw_test c) w (repeat k m))).
  { induction m as [|m IH]; intros w Hw0; cbn [repeat kops_from]; [constructor|].
    assert (Hw1 : Forall (fun x => x = k) (lastn (Z.to_nat (kw_min c)) (w ++ [k]))).
    { unfold lastn. apply Forall_forall. intros x Hx.
      assert (Hin : In x (w ++ [k])) by (rewrite <- (firstn_skipn (length (w ++ [k]) - Z.to_nat (kw_min c)) (w ++ [k])); apply in_or_app; right; exact Hx).
      apply in_app_or in Hin. destruct Hin as [Hin|[<-|[]]]; [|reflexivity]. rewrite Forall_forall in Hw0. apply Hw0. exact Hin. }
    constructor; [|apply IH; exact Hw1].
    right. eexists. split; [reflexivity|]. right.
    apply Hch. unfold older. apply Forall_forall. intros x Hx. rewrite Forall_forall in Hw1. apply Hw1.
    rewrite <- (firstn_skipn (length (lastn (Z.to_nat (kw_min c)) (w ++ [k])) - Z.to_nat (kw_test c)) (lastn (Z.to_nat (kw_min c)) (w ++ [k]))). apply in_or_app. left. exact Hx. }
  rewrite KSWIN_reset_eq. cbv beta iota. fold (g_init (A:=RealA)).
  rewrite (g_kswin_run_eq ks choice (kw_min c) alpha (kw_test c) (repeat k n) g_init Ht Hn ltac:(cbn; lia)).
  fold (g_krun ks choice (kw_min c) alpha (kw_test c) (repeat k n)).
  destruct (g_krun_fields ks choice (kw_min c) alpha (kw_test c) (repeat k n)) as [Hk Hw].
  assert (Hd : g_drift (g_krun ks choice (kw_min c) alpha (kw_test c) (repeat k n)) = false).
  { pose proof (g_run_model ks choice c alpha (repeat k n) g_init Hks) as Hm. fold (g_krun ks choice (kw_min c) alpha (kw_test c) (repeat k n)) in Hm.
    change (g_drift (g_krun ks choice (kw_min c) alpha (kw_test c) (repeat k n))) with (kdrift (to_model (g_krun ks choice (kw_min c) alpha (kw_test c) (repeat k n)))).
    rewrite Hm. change (to_model g_init) with (kswin_init (A:=RealA) c). change (exec_from (KSWIND RealA) c (kswin_init c)) with (exec (KSWIND RealA) c).
    apply (kswin_constant c k); try assumption.
    cbn [g_win g_init]. apply G. constructor. }
  unfold ksw_t. rewrite Hk, Hd, repeat_length. eexists. reflexivity.
Qed.
Print Assumptions src_kswin_constant.

Theorem src_kswin_warmup_and_reset : forall (A : Arith) (ks : list (NumSys.num A) -> list (NumSys.num A) -> NumSys.num A * NumSys.num A)
    (choice : list (NumSys.num A) -> Z -> list (NumSys.num A)) n alpha test (s0 : kst (A:=A)),
  (1 <= test)%Z -> (2 * test <= n)%Z ->
  match KSWIN_reset (ksw_t n alpha test s0) with
  | Ok (s1, _) =>
      (forall vs, (Z.of_nat (length vs) < n)%Z -> exists k w, g_run (KSWIN__update ks choice) s1 vs = Ok ((n, alpha, test), k, false, w)) /\
      (forall ops1 ops2, g_exec (KSWIN__update ks choice) KSWIN_reset s1 (ops1 ++ Rst :: ops2) = g_exec (KSWIN__update ks choice) KSWIN_reset s1 ops2)
  | Raise _ => False
  end.
Proof.
  intros A ks choice n alpha test s0 Ht Hn. rewrite KSWIN_reset_eq. cbv beta iota. fold (g_init (A:=A)). split.
  - intros vs Hlt. rewrite (g_kswin_run_eq ks choice n alpha test vs g_init Ht Hn ltac:(cbn; lia)).
    fold (g_krun ks choice n alpha test vs). unfold ksw_t. rewrite (kswin_warmup ks choice n alpha test vs Hlt). eexists _, _. reflexivity.
  - intros ops1 ops2. exact (kswin_fresh ks choice n alpha test ops1 ops2 Ht Hn).
Qed.
Print Assumptions src_kswin_warmup_and_reset.
