(** C18 over the definitions GENERATED from the source: the remaining clauses (ring buffer = bounded deque for every
    operation sequence, AccuracyQueue counters, CircularMean, PrequentialError) re-stated and proved about the generated
    CircularQueue / AccuracyQueue / CircularMean / PrequentialError methods. *)
From Coq Require Import ZArith List Bool Lia Reals Lra.
From FV Require Import NumSys RealA Py NumX Sums Queue Stats QueueRef StatsR.
From FVG Require Import GSrc EqStats.
Import ListNotations.

Section SrcQueue.
  Context {T : Type}.
  Notation tup := (Z * Z * Z * Z * list (option T))%type.

  (** one public operation of the generated CircularQueue, with its visible outcome *)
  Definition g_cq_apply (t : tup) (o : qop T) : tup * qout T :=
    match o with
    | Enq v => match CircularQueue_enqueue t v with Ok (t', el) => (t', OEl el) | Raise e => (t, OErr e) end
    | Deq => match CircularQueue_dequeue t with Ok (t', el) => (t', OEl el) | Raise e => (t, OErr e) end
    | Clr => match CircularQueue_clear t with Ok (t', _) => (t', OUnit) | Raise e => (t, OErr e) end
    | Keep => match CircularQueue_maintain_last_element t with Ok (t', _) => (t', OUnit) | Raise e => (t, OErr e) end
    end.
  Fixpoint g_cq_run (t : tup) (ops : list (qop T)) : tup * list (qout T) :=
    match ops with
    | [] => (t, [])
    | o :: r => let '(t1, out) := g_cq_apply t o in let '(t2, outs) := g_cq_run t1 r in (t2, out :: outs)
    end.

  Lemma rel_wf : forall M (q : cq T) d, cq_rel M q d -> cq_wf q /\ (q_count q = 0 \/ 0 <= q_last q)%Z.
  Proof.
    intros M q d (((H1 & Hlen & Hc & Hf & Hl & Hmod) & Hl1) & _). split; [unfold cq_wf; lia|].
    destruct (Z.eq_dec (q_last q) (-1)); [left; auto|right; lia].
  Qed.

  Lemma g_cq_apply_eq : forall M (q : cq T) d o, cq_rel M q d ->
    g_cq_apply (cq_t q) o = (cq_t (fst (cq_apply q o)), snd (cq_apply q o)).
  Proof.
    intros M q d o Hrel. destruct (rel_wf M q d Hrel) as [Hwf Hk].
    destruct o as [v| | |]; cbn [g_cq_apply cq_apply].
    - rewrite (CQ_enqueue_eq q v Hwf). unfold lift. destruct (cq_enqueue q v) as [[q' el]|e]; reflexivity.
    - rewrite (CQ_dequeue_eq q Hwf). unfold lift. destruct (cq_dequeue q) as [[q' el]|e]; reflexivity.
    - rewrite CQ_clear_eq. reflexivity.
    - rewrite (CQ_keep_eq q Hwf Hk). reflexivity.
  Qed.

  Lemma g_cq_run_eq : forall M ops (q : cq T) d, (1 <= M)%Z -> cq_rel M q d ->
    g_cq_run (cq_t q) ops = (cq_t (fst (cq_run q ops)), snd (cq_run q ops)).
  Proof.
    intros M ops; induction ops as [|o r IH]; intros q d HM Hrel; [reflexivity|].
    cbn [g_cq_run cq_run]. rewrite (g_cq_apply_eq M q d o Hrel).
    destruct (cq_apply_sim M q d o HM Hrel) as [_ Hrel1].
    destruct (cq_apply q o) as [q1 out]. cbn [fst snd] in *.
    rewrite (IH q1 _ HM Hrel1). destruct (cq_run q1 r) as [q2 outs]. reflexivity.
  Qed.

  (** C18 (queue clause) at the source level: `CircularQueue(max_len)` followed by ANY sequence of enqueue / dequeue /
      clear / maintain_last_element returns what a bounded deque returns (evicted / dequeued elements, EmptyQueueError)
      and holds its contents, in order, in the slots read from `first` *)
  Theorem src_queue_refines_deque : forall (max_len : Z) (ops : list (qop T)), (1 <= max_len)%Z ->
    match CircularQueue_init (T:=T) max_len with
    | Ok (t0, _) =>
        let '((count, first, last, mx, slots), outs) := g_cq_run t0 ops in
        let '(d, outs') := dq_run max_len [] ops in
        outs = outs' /\ count = Z.of_nat (length d) /\ mx = max_len /\
        cq_abs {| q_count := count; q_first := first; q_last := last; q_max := mx; q_slots := slots |} = map Some d
    | Raise _ => False
    end.
  Proof.
    intros M ops HM. rewrite CQ_init_eq by lia.
    rewrite (g_cq_run_eq M ops (cq_init M) [] HM (cq_init_rel M HM)).
    destruct (cq_run_sim M ops (cq_init M) [] HM (cq_init_rel M HM)) as [Ho Hrel].
    destruct (cq_run (cq_init M) ops) as [q outs]. destruct (dq_run M [] ops) as [d outs']. cbn [fst snd] in *.
    unfold cq_t. split; [exact Ho|]. split; [exact (cq_rel_count _ _ _ Hrel)|]. split; [exact (cq_rel_max _ _ _ Hrel)|].
    destruct q. exact (cq_rel_abs _ _ _ Hrel).
  Qed.
End SrcQueue.
Print Assumptions src_queue_refines_deque.

(** AccuracyQueue: after any Boolean sequence the generated object holds the last [max_len] values and its counter
    `num_true` counts the True among them (`num_false` is `count - num_true`) *)
Lemma g_aq_run_eq : forall M vs (a : aq) d, (1 <= M)%Z -> (length d <= Z.to_nat M)%nat -> aq_rel M a d ->
  exists a', g_run AccuracyQueue_enqueue (aq_t a) vs = Ok (aq_t a') /\ aq_rel M a' (lastn (Z.to_nat M) (d ++ vs)).
Proof.
  intros M vs; induction vs as [|v r IH]; intros a d HM Hd Hrel.
  - exists a. split; [reflexivity|]. rewrite app_nil_r, lastn_all by exact Hd. exact Hrel.
  - cbn [g_run].
    assert (Hwf : aq_wf a).
    { destruct a as [q t]. destruct Hrel as [Hq Ht]. cbn [a_q a_true] in *.
      pose proof Hq as (((H1 & Hlen & Hc & Hf & Hl & Hmod) & Hl1) & Hmax & Habs).
      unfold aq_wf. cbn [a_q a_true]. split; [unfold cq_wf; lia|]. split; [lia|].
      intros Hfull Hne. unfold cq_is_full, cq_is_empty in *. apply Z.eqb_eq in Hfull. apply Z.eqb_neq in Hne.
      unfold cq_abs in Habs. destruct (Z.to_nat (q_count q)) as [|k] eqn:Ek; [lia|].
      cbn [read_from] in Habs. destruct d as [|x d']; [discriminate|]. cbn [map] in Habs. injection Habs as Hs _.
      rewrite Hs, Ht, count_true_cons. unfold ob2z, b2z. destruct x; lia. }
    rewrite (AQ_enqueue_eq a v Hwf).
    destruct (aq_enqueue_rel M a d v HM Hrel) as (a1 & He & Hrel1). rewrite He.
    assert (Hd1 : (length (fst (dq_enqueue M d v)) <= Z.to_nat M)%nat).
    { destruct Hrel1 as [Hq1 _]. exact (cq_rel_length_le _ _ _ Hq1). }
    destruct (IH a1 _ HM Hd1 Hrel1) as (a' & Hrun & Hrel').
    exists a'. split; [exact Hrun|].
    replace (lastn (Z.to_nat M) (d ++ v :: r)) with (lastn (Z.to_nat M) (fst (dq_enqueue M d v) ++ r)); [exact Hrel'|].
    apply lastn_enq; assumption.
Qed.

Theorem src_accuracy_counts : forall (max_len : Z) (vs : list bool), (1 <= max_len)%Z ->
  match AccuracyQueue_init max_len with
  | Ok (t0, _) => exists count first last slots num_true,
      g_run AccuracyQueue_enqueue t0 vs = Ok (count, first, last, max_len, slots, num_true) /\
      let W := lastn (Z.to_nat max_len) vs in
      cq_abs {| q_count := count; q_first := first; q_last := last; q_max := max_len; q_slots := slots |} = map Some W /\
      count = Z.of_nat (length W) /\
      num_true = Z.of_nat (count_occ bool_dec W true) /\
      (count - num_true)%Z = Z.of_nat (count_occ bool_dec W false)
  | Raise _ => False
  end.
Proof.
  intros M vs HM. rewrite AQ_init_eq by lia.
  assert (H0 : aq_rel M (aq_init M) []) by (split; [apply cq_init_rel; exact HM|reflexivity]).
  destruct (g_aq_run_eq M vs (aq_init M) [] HM ltac:(cbn; lia) H0) as (a' & Hrun & [Hq Ht]). cbn [app] in *.
  rewrite Hrun. unfold aq_t. rewrite (cq_rel_max _ _ _ Hq). eexists _, _, _, _, _. split; [reflexivity|]. cbv zeta.
  pose proof (cq_rel_count _ _ _ Hq) as Hc. pose proof (cq_rel_abs _ _ _ Hq) as Ha. pose proof (cq_rel_max _ _ _ Hq) as Hm.
  split; [destruct (a_q a'); cbn in *; subst; exact Ha|]. split; [exact Hc|]. split; [exact Ht|].
  rewrite Hc, Ht. pose proof (count_true_false (lastn (Z.to_nat M) vs)). lia.
Qed.
Print Assumptions src_accuracy_counts.

(** CircularMean(size): the generated update keeps the mean of the last [size] values *)
Lemma g_cmean_run_eq : forall size (vs : list R) (s : cmean_st RealA) (d : list R),
  (1 <= size)%Z -> (length d <= Z.to_nat size)%nat -> cmean_rel size s d ->
  exists s', g_run CircularMean_update (cmean_t s) vs = Ok (cmean_t s') /\ cmean_rel size s' (lastn (Z.to_nat size) (d ++ vs)).
Proof.
  intros size vs; induction vs as [|v r IH]; intros s d Hs Hd Hrel.
  - exists s. split; [reflexivity|]. rewrite app_nil_r, lastn_all by exact Hd. exact Hrel.
  - cbn [g_run]. destruct Hrel as (Hq & Hm & Hn).
    destruct (rel_wf size (c_q s) d Hq) as [Hwf _].
    rewrite (CMean_update_eq s v Hwf).
    destruct (cmean_update_rel size s d v Hs (conj Hq (conj Hm Hn))) as (s1 & He & Hrel1). rewrite He.
    assert (Hd1 : (length (fst (dq_enqueue size d v)) <= Z.to_nat size)%nat).
    { destruct Hrel1 as [Hq1 _]. exact (cq_rel_length_le _ _ _ Hq1). }
    destruct (IH s1 _ Hs Hd1 Hrel1) as (s' & Hrun & Hrel').
    exists s'. split; [exact Hrun|].
    replace (lastn (Z.to_nat size) (d ++ v :: r)) with (lastn (Z.to_nat size) (fst (dq_enqueue size d v) ++ r)); [exact Hrel'|].
    apply lastn_enq; assumption.
Qed.

Theorem src_circular_mean_closed : forall (size : Z) (vs : list R), (1 <= size)%Z ->
  match CircularMean_init (A:=RealA) size with
  | Ok (t0, _) => exists mean n q,
      g_run CircularMean_update t0 vs = Ok (mean, n, q) /\
      mean = Rmean (lastn (Z.to_nat size) vs) /\ n = Z.of_nat (Nat.min (length vs) (Z.to_nat size))
  | Raise _ => False
  end.
Proof.
  intros size vs Hs. rewrite CMean_init_eq by lia.
  assert (H0 : cmean_rel size (cmean_init size) []).
  { split; [apply cq_init_rel; exact Hs|]. split; [cbn; rewrite Rmean_nil; reflexivity|reflexivity]. }
  destruct (g_cmean_run_eq size vs (cmean_init size) [] Hs ltac:(cbn; lia) H0) as (s' & Hrun & (Hq & Hm & Hn)). cbn [app] in *.
  rewrite Hrun. unfold cmean_t. eexists _, _, _. split; [reflexivity|]. split; [exact Hm|].
  rewrite Hn, lastn_length. reflexivity.
Qed.
Print Assumptions src_circular_mean_closed.

(** PrequentialError(alpha): the value returned by the last call is the fading-factor weighted error rate *)
Fixpoint g_calls {S} (call : S -> R -> res (S * R)) (t : S) (es : list R) (last : R) : res (S * R) :=
  match es with
  | [] => Ok (t, last)
  | e :: r => match call t e with Ok (t', v) => g_calls call t' r v | Raise x => Raise x end
  end.

Lemma g_calls_eq : forall (alpha : R) es (s : preq_st RealA) n v0,
  g_calls PrequentialError_call (preq_t alpha s n) es v0 =
    let sv := fold_left (fun (sv : preq_st RealA * R) e => preq_call (A:=RealA) alpha (fst sv) e) es (s, v0) in
    Ok (preq_t alpha (fst sv) n, snd sv).
Proof.
  intros alpha es; induction es as [|e r IH]; intros s n v0; [reflexivity|].
  cbn [g_calls fold_left]. rewrite Preq_call_eq. rewrite IH. cbv zeta. cbn [fst].
  rewrite <- surjective_pairing. reflexivity.
Qed.

Theorem src_prequential_closed : forall (alpha : R) (es : list R), (0 < alpha <= 1)%R -> es <> [] ->
  match PrequentialError_init (A:=RealA) alpha with
  | Ok (t0, _) => exists t v, g_calls PrequentialError_call t0 es 0%R = Ok (t, v) /\
      (0 < wsum (fun k => alpha ^ k) (map (fun _ => 1) es))%R /\
      v = (wsum (fun k => alpha ^ k) es / wsum (fun k => alpha ^ k) (map (fun _ => 1) es))%R
  | Raise _ => False
  end.
Proof.
  intros alpha es [Ha0 Ha1] Hne. rewrite Preq_init_eq.
  replace (negb (@ltb RealA (@ofZ RealA 0) alpha && @leb RealA alpha (@ofZ RealA 1))) with false.
  2:{ symmetry. apply negb_false_iff. apply andb_true_intro. split; [apply Rltb_true; exact Ha0|apply Rleb_true; exact Ha1]. }
  rewrite g_calls_eq. cbv zeta. eexists _, _. split; [reflexivity|].
  destruct (prequential_closed alpha es (conj Ha0 Ha1) Hne) as [Hpos Hval]. split; [exact Hpos|].
  exact Hval.
Qed.
Print Assumptions src_prequential_closed.
