(** Source-level tie for C18 (and the building blocks of C03/C06/C07): the definitions GENERATED from
    frouros/utils/stats.py, frouros/utils/data_structures.py and frouros/metrics/prequential_error.py
    (GSrc.v, re-generated from /repo on every run by harness/py2coq.py) equal the hand-written models,
    for every number system; the property theorems are then re-stated over the generated definitions.
    This file is compiled against the freshly generated GSrc.v on every run of the check. *)
From Coq Require Import ZArith List Bool Lia Reals.
From FV Require Import NumSys RealA Py Sums Queue Stats QueueRef StatsR.
From FVG Require Import GSrc.
Import ListNotations.

(** hand-model state <-> the generated code's field tuple (field order = order of assignment in __init__) *)
Definition mean_t {A} (s : mean_st A) := (m_mean s, m_n s).
Definition ewma_t {A} (s : ewma_st A) := (e_alpha s, e_1ma s, e_mean s).
Definition cq_t {T} (q : cq T) := (q_count q, q_first q, q_last q, q_max q, q_slots q).
Definition aq_t (a : aq) := (q_count (a_q a), q_first (a_q a), q_last (a_q a), q_max (a_q a), q_slots (a_q a), a_true a).
Definition cmean_t {A} (s : cmean_st A) := (c_mean s, c_n s, cq_t (c_q s)).
Definition lift {X Y R} (f : X -> Y) (r : res (X * R)) : res (Y * R) :=
  match r with Ok (x, o) => Ok (f x, o) | Raise e => Raise e end.

Ltac zb := repeat match goal with
  | |- context [Z.ltb ?a ?b] => destruct (Z.ltb_spec a b); try lia
  | |- context [Z.eqb ?a ?b] => destruct (Z.eqb_spec a b); try lia
  | |- context [Z.leb ?a ?b] => destruct (Z.leb_spec a b); try lia
  end.

(** one step of symbolic evaluation of generated code: decide the next integer guard *)
Ltac zstep := cbn; match goal with
  | |- context [if Z.ltb ?a ?b then _ else _] => destruct (Z.ltb_spec a b); try (try unfold b2z in *; try unfold ob2z in *; lia)
  | |- context [if Z.eqb ?a ?b then _ else _] => destruct (Z.eqb_spec a b); try (try unfold b2z in *; try unfold ob2z in *; lia)
  end.
Ltac zsteps := repeat zstep; cbn.

Section Eq.
  Context {A : Arith}.

  (** * Mean *)
  Lemma Mean_init_eq : Mean_init (A:=A) = Ok (mean_t mean_init, tt).
  Proof. reflexivity. Qed.
  Lemma Mean_update_eq : forall (s : mean_st A) v, (0 <= m_n s)%Z ->
    Mean_update (mean_t s) v = Ok (mean_t (mean_update s v), tt).
  Proof. intros s v H. unfold Mean_update, mean_t, mean_update, incr_op. cbn. zb. reflexivity. Qed.

  (** * EWMA: the constructor validates alpha, update is the recurrence *)
  Lemma EWMA_init_eq : forall alpha : num A,
    EWMA_init alpha = if negb (leb (ofZ 0) alpha && leb alpha (ofZ 1)) then Raise ValueError else Ok (ewma_t (ewma_init alpha), tt).
  Proof. intros. unfold EWMA_init. destruct (negb _); reflexivity. Qed.
  Lemma EWMA_update_eq : forall (s : ewma_st A) v, EWMA_update (ewma_t s) v = Ok (ewma_t (ewma_update s v), tt).
  Proof. reflexivity. Qed.

  (** * PrequentialError *)
  Definition preq_t (alpha : num A) (s : preq_st A) (n : Z) := (alpha, p_err s, p_inst s, n).
  Lemma Preq_call_eq : forall alpha (s : preq_st A) n e,
    PrequentialError_call (preq_t alpha s n) e =
      Ok (preq_t alpha (fst (preq_call alpha s e)) n, snd (preq_call alpha s e)).
  Proof. reflexivity. Qed.
  Lemma Preq_reset_eq : forall alpha (s : preq_st A) n,
    PrequentialError_reset (preq_t alpha s n) = Ok (preq_t alpha (preq_reset s) 0%Z, tt).
  Proof. reflexivity. Qed.
  Lemma Preq_init_eq : forall alpha : num A,
    PrequentialError_init alpha =
      if negb (ltb (ofZ 0) alpha && leb alpha (ofZ 1)) then Raise ValueError else Ok (preq_t alpha preq_init 0%Z, tt).
  Proof. intros. unfold PrequentialError_init. destruct (negb _); reflexivity. Qed.
End Eq.

(** * CircularQueue: every method equals the ring-buffer model on well-formed queues *)
Section EqQueue.
  Context {T : Type}.
  Definition cq_wf (q : cq T) : Prop := (0 <= q_count q /\ 0 <= q_first q /\ -1 <= q_last q /\ 0 <= q_max q)%Z.

  Lemma CQ_init_eq : forall n, (0 <= n)%Z -> CircularQueue_init (T:=T) n = Ok (cq_t (T:=T) (cq_init n), tt).
  Proof. intros n H. unfold CircularQueue_init. cbn. zb. reflexivity. Qed.
  Lemma CQ_init_neg : forall n, (n < 0)%Z -> CircularQueue_init (T:=T) n = Raise ValueError.
  Proof. intros n H. unfold CircularQueue_init. cbn. zb. reflexivity. Qed.
  Lemma CQ_clear_eq : forall q : cq T, CircularQueue_clear (cq_t q) = Ok (cq_t (cq_clear q), tt).
  Proof. reflexivity. Qed.
  Lemma CQ_dequeue_eq : forall q : cq T, cq_wf q -> CircularQueue_dequeue (cq_t q) = lift cq_t (cq_dequeue q).
  Proof.
    intros q (Hc & Hf & Hl & Hm). unfold CircularQueue_dequeue, cq_dequeue, cq_is_empty, cq_t, lift, slot. cbn.
    destruct (Z.eqb_spec (q_count q) 0); [reflexivity|]. cbn.
    destruct (Z.eqb_spec (q_max q) 0); [reflexivity|]. cbn.
    pose proof (Z.mod_pos_bound (q_first q + 1) (q_max q)). zb. reflexivity.
  Qed.
  Lemma CQ_enqueue_eq : forall (q : cq T) v, cq_wf q -> CircularQueue_enqueue (cq_t q) v = lift cq_t (cq_enqueue q v).
  Proof.
    intros q v Hwf. pose proof Hwf as (Hc & Hf & Hl & Hm).
    unfold CircularQueue_enqueue, cq_enqueue, cq_is_full, cq_len. cbn -[CircularQueue_dequeue].
    destruct (Z.eqb_spec (q_count q) (q_max q)).
    - change (q_count q, q_first q, q_last q, q_max q, q_slots q) with (cq_t q). rewrite (CQ_dequeue_eq q Hwf). destruct (cq_dequeue q) as [[q1 el]|ex] eqn:E; [|reflexivity].
      cbn. unfold cq_dequeue in E. destruct (cq_is_empty q); [discriminate|]. destruct (Z.eqb_spec (q_max q) 0); [discriminate|].
      inversion E; subst; clear E. cbn. destruct (Z.eqb_spec (q_max q) 0); [lia|]. cbn. zb. reflexivity.
    - cbn. destruct (Z.eqb_spec (q_max q) 0); [reflexivity|]. cbn. zb. reflexivity.
  Qed.
  Lemma CQ_keep_eq : forall q : cq T, cq_wf q -> (q_count q = 0 \/ 0 <= q_last q)%Z ->
    CircularQueue_maintain_last_element (cq_t q) = Ok (cq_t (cq_keep_last q), tt).
  Proof.
    intros q (Hc & Hf & Hl & Hm) H. unfold CircularQueue_maintain_last_element, cq_keep_last, cq_is_empty. cbn.
    destruct (Z.eqb_spec (q_count q) 0); [reflexivity|]. cbn. zb. reflexivity.
  Qed.
End EqQueue.

(** * AccuracyQueue (virtual dispatch: CircularQueue.enqueue, reached through super(), calls
      AccuracyQueue.dequeue, which keeps the true-counter in step with the evicted element) *)
Definition aq_wf (a : aq) : Prop :=
  cq_wf (a_q a) /\ (0 <= a_true a)%Z /\
  (cq_is_full (a_q a) = true -> cq_is_empty (a_q a) = false -> (ob2z (slot (a_q a) (q_first (a_q a))) <= a_true a)%Z).

Lemma AQ_init_eq : forall n, (0 <= n)%Z -> AccuracyQueue_init n = Ok (aq_t (aq_init n), tt).
Proof. intros n H. unfold AccuracyQueue_init. cbn. zb. reflexivity. Qed.
Lemma AQ_clear_eq : forall a, AccuracyQueue_clear (aq_t a) = Ok (aq_t (aq_clear a), tt).
Proof. reflexivity. Qed.
Lemma AQ_enqueue_eq : forall a v, aq_wf a ->
  AccuracyQueue_enqueue (aq_t a) v = match aq_enqueue a v with Ok a' => Ok (aq_t a', tt) | Raise e => Raise e end.
Proof.
  intros [q t] v ((Hc & Hf & Hl & Hm) & Ht & Hel). cbn in *.
  unfold AccuracyQueue_enqueue, AccuracyQueue_super_CircularQueue_enqueue, AccuracyQueue_dequeue,
    AccuracyQueue_super_CircularQueue_dequeue, aq_enqueue, aq_t, cq_dequeue, cq_is_full, cq_is_empty, cq_len, slot in *.
  cbn in *.
  destruct (Z.eqb_spec (q_count q) (q_max q)) as [Efull|Nfull].
  - destruct (Z.eqb_spec (q_count q) 0) as [E0|N0]; cbn.
    + reflexivity.
    + destruct (Z.eqb_spec (q_max q) 0); [lia|]. cbn.
      specialize (Hel eq_refl eq_refl).
      pose proof (Z.mod_pos_bound (q_first q + 1) (q_max q)).
      destruct v; destruct (nth (Z.to_nat (q_first q)) (q_slots q) None) as [[|]|]; cbn in *; zsteps;
        try reflexivity; repeat f_equal; lia.
  - destruct v; zsteps; try reflexivity; repeat f_equal; lia.
Qed.

(** * CircularMean *)
Section EqCMean.
  Context {A : Arith}.
  Lemma CMean_init_eq : forall n, (0 <= n)%Z -> CircularMean_init (A:=A) n = Ok (cmean_t (cmean_init n), tt).
  Proof. intros n H. unfold CircularMean_init. cbn -[CircularQueue_init]. rewrite (CQ_init_eq (T:=num A) n H). reflexivity. Qed.
  Lemma CMean_update_eq : forall (s : cmean_st A) v, cq_wf (c_q s) ->
    CircularMean_update (cmean_t s) v = match cmean_update s v with Ok s' => Ok (cmean_t s', tt) | Raise e => Raise e end.
  Proof.
    intros s v Hwf. unfold CircularMean_update, cmean_update, cmean_t. cbn -[CircularQueue_enqueue].
    change (q_count (c_q s), q_first (c_q s), q_last (c_q s), q_max (c_q s), q_slots (c_q s)) with (cq_t (c_q s)).
    rewrite (CQ_enqueue_eq (c_q s) v Hwf). destruct (cq_enqueue (c_q s) v) as [[q' el]|ex] eqn:E; [|reflexivity].
    cbn. assert (0 <= q_count q')%Z.
    { destruct Hwf as (Hc & _). unfold cq_enqueue, cq_dequeue in E.
      destruct (cq_is_full (c_q s)); [destruct (cq_is_empty (c_q s)) eqn:Em; [discriminate|]; destruct (q_max (c_q s) =? 0)%Z; [discriminate|]|];
      cbn in E; destruct (q_max (c_q s) =? 0)%Z; try discriminate; inversion E; subst; cbn;
      unfold cq_is_empty in *; try (destruct (Z.eqb_spec (q_count (c_q s)) 0); [discriminate|]); lia. }
    zb. unfold cq_len, incr_op. destruct el; reflexivity.
  Qed.
End EqCMean.

(** * The property theorems of C18, re-stated over the definitions generated from the source *)
Fixpoint g_run {S V} (upd : S -> V -> res (S * unit)) (s : S) (vs : list V) : res S :=
  match vs with [] => Ok s | v :: r => match upd s v with Ok (s', _) => g_run upd s' r | Raise e => Raise e end end.

Lemma g_mean_run_eq : forall {A} (vs : list (num A)) (s : mean_st A), (0 <= m_n s)%Z ->
  g_run Mean_update (mean_t s) vs = Ok (mean_t (fold_left mean_update vs s)).
Proof.
  induction vs as [|v r IH]; intros s H; [reflexivity|]. cbn [g_run fold_left]. rewrite Mean_update_eq by exact H.
  apply IH. cbn. lia.
Qed.

(** Mean(): constructing and updating with any non-empty stream of reals never raises and yields the arithmetic mean. *)
Theorem src_mean_closed : forall vs : list R, vs <> [] ->
  match Mean_init (A:=RealA) with
  | Ok (s0, _) => g_run Mean_update s0 vs = Ok (Rmean vs, Z.of_nat (length vs))
  | Raise _ => False end.
Proof.
  intros vs H. rewrite Mean_init_eq. rewrite (g_mean_run_eq (A:=RealA)) by (cbn; lia).
  destruct (mean_closed vs H) as [H1 H2]. unfold mean_run in *. unfold mean_t. rewrite H1, H2. reflexivity.
Qed.

Lemma g_ewma_run_eq : forall {A} (vs : list (num A)) (s : ewma_st A),
  g_run EWMA_update (ewma_t s) vs = Ok (ewma_t (fold_left ewma_update vs s)).
Proof. induction vs as [|v r IH]; intros s; [reflexivity|]. cbn [g_run fold_left]. rewrite EWMA_update_eq. apply IH. Qed.

(** EWMA(alpha), alpha in [0,1] (other values are rejected by the constructor): sum_i alpha (1-alpha)^(t-i) x_i. *)
Theorem src_ewma_closed : forall (alpha : R) (vs : list R),
  match EWMA_init (A:=RealA) alpha with
  | Ok (s0, _) => (0 <= alpha <= 1)%R /\ exists s, g_run EWMA_update s0 vs = Ok s /\ snd s = wsum (fun k => alpha * (1 - alpha) ^ k)%R vs
  | Raise e => e = ValueError /\ ~ (0 <= alpha <= 1)%R end.
Proof.
  intros alpha vs. rewrite EWMA_init_eq. cbn [leb RealA ofZ].
  unfold RealA.Rleb. destruct (Rle_dec (IZR 0) alpha), (Rle_dec alpha (IZR 1)); cbn.
  - split; [split; assumption|]. eexists; split; [apply g_ewma_run_eq|]. cbn. apply ewma_closed.
  - split; [reflexivity|]. intros [_ H]; auto.
  - split; [reflexivity|]. intros [H _]; auto.
  - split; [reflexivity|]. intros [H _]; auto.
Qed.

(** * Histories: any interleaving of `update(v)` and `reset()` calls on one object, run on generated definitions *)
From FV Require Import Detector.
Fixpoint g_exec {S V} (upd : S -> V -> res (S * unit)) (rst : S -> res (S * unit)) (s : S) (ops : list (op V)) : res S :=
  match ops with
  | [] => Ok s
  | Upd v :: r => match upd s v with Ok (s', _) => g_exec upd rst s' r | Raise e => Raise e end
  | Rst :: r => match rst s with Ok (s', _) => g_exec upd rst s' r | Raise e => Raise e end
  end.

Definition ops_in {V} (P : V -> Prop) (ops : list (op V)) : Prop := forall v, In (Upd v) ops -> P v.

Section GExec.
  Variables (S V T : Type) (step : S -> V -> S) (init : S) (t : S -> T).
  Variables (upd : T -> V -> res (T * unit)) (rst : T -> res (T * unit)).
  Variables (Inv : S -> Prop) (P : V -> Prop).
  Hypothesis H0 : Inv init.
  Hypothesis Hstep : forall s v, Inv s -> P v -> Inv (step s v).
  Hypothesis Hupd : forall s v, Inv s -> P v -> upd (t s) v = Ok (t (step s v), tt).
  Hypothesis Hrst : forall s, Inv s -> rst (t s) = Ok (t init, tt).

  Definition m_apply (s : S) (o : op V) : S := match o with Upd v => step s v | Rst => init end.

  Lemma g_exec_from : forall ops s, Inv s -> ops_in P ops ->
    g_exec upd rst (t s) ops = Ok (t (fold_left m_apply ops s)) /\ Inv (fold_left m_apply ops s).
  Proof.
    induction ops as [|o r IH]; intros s Hs Hp; [split; [reflexivity|exact Hs]|].
    assert (Hr : ops_in P r) by (intros v Hv; apply Hp; right; exact Hv).
    destruct o as [v|]; cbn [g_exec fold_left m_apply].
    - assert (Pv : P v) by (apply Hp; left; reflexivity).
      rewrite (Hupd s v Hs Pv). apply IH; [apply Hstep; assumption|exact Hr].
    - rewrite (Hrst s Hs). apply IH; [exact H0|exact Hr].
  Qed.

  (** C02 over histories: whatever came before, `reset()` puts the object where a fresh history starts *)
  Lemma g_exec_reset_fresh : forall ops1 ops2, ops_in P ops1 -> ops_in P ops2 ->
    g_exec upd rst (t init) (ops1 ++ Rst :: ops2) = g_exec upd rst (t init) ops2.
  Proof.
    intros ops1 ops2 H1 H2.
    assert (H12 : ops_in P (ops1 ++ Rst :: ops2)).
    { intros v Hv. apply in_app_or in Hv. destruct Hv as [Hv|[Hv|Hv]]; [apply H1; exact Hv|discriminate|apply H2; exact Hv]. }
    rewrite (proj1 (g_exec_from _ init H0 H12)), (proj1 (g_exec_from _ init H0 H2)).
    rewrite fold_left_app. reflexivity.
  Qed.
End GExec.

(** [g_run] of one value is one call of the update *)
Lemma g_run_one : forall {S V} (upd : S -> V -> res (S * unit)) s v s', g_run upd s [v] = Ok s' -> upd s v = Ok (s', tt).
Proof. intros S V upd s v s' H. cbn in H. destruct (upd s v) as [[s1 []]|e]; [injection H as ->; reflexivity|discriminate]. Qed.

(** the same from a run lemma stated over prefixes *)
Section GExecPre.
  Variables (S V T : Type) (step : S -> V -> S) (init : S) (t : S -> T).
  Variables (upd : T -> V -> res (T * unit)) (rst : T -> res (T * unit)) (P : V -> Prop).
  Hypothesis Hrun : forall vs pre, (forall v, In v (pre ++ vs) -> P v) ->
    g_run upd (t (fold_left step pre init)) vs = Ok (t (fold_left step (pre ++ vs) init)).
  Hypothesis Hrst : forall pre, (forall v, In v pre -> P v) -> rst (t (fold_left step pre init)) = Ok (t init, tt).

  Definition pre_Inv (s : S) : Prop := exists pre, (forall v, In v pre -> P v) /\ s = fold_left step pre init.

  Lemma pre_Inv_init : pre_Inv init.
  Proof. exists []. split; [intros v []|reflexivity]. Qed.
  Lemma pre_Inv_step : forall s v, pre_Inv s -> P v -> pre_Inv (step s v).
  Proof.
    intros s v (pre & Hpre & ->) Hv. exists (pre ++ [v]). split.
    - intros x Hx. apply in_app_or in Hx. destruct Hx as [Hx|[<-|[]]]; [apply Hpre; exact Hx|exact Hv].
    - rewrite fold_left_app. reflexivity.
  Qed.
  Lemma pre_upd : forall s v, pre_Inv s -> P v -> upd (t s) v = Ok (t (step s v), tt).
  Proof.
    intros s v (pre & Hpre & ->) Hv. apply g_run_one. rewrite (Hrun [v] pre).
    - rewrite fold_left_app. reflexivity.
    - intros x Hx. apply in_app_or in Hx. destruct Hx as [Hx|[<-|[]]]; [apply Hpre; exact Hx|exact Hv].
  Qed.
  Lemma pre_rst : forall s, pre_Inv s -> rst (t s) = Ok (t init, tt).
  Proof. intros s (pre & Hpre & ->). apply Hrst. exact Hpre. Qed.

  Lemma g_exec_pre : forall ops, ops_in P ops ->
    g_exec upd rst (t init) ops = Ok (t (fold_left (m_apply S V step init) ops init)).
  Proof.
    intros ops Hp.
    exact (proj1 (g_exec_from S V T step init t upd rst pre_Inv P pre_Inv_init pre_Inv_step pre_upd pre_rst ops init pre_Inv_init Hp)).
  Qed.
  Lemma g_exec_pre_fresh : forall ops1 ops2, ops_in P ops1 -> ops_in P ops2 ->
    g_exec upd rst (t init) (ops1 ++ Rst :: ops2) = g_exec upd rst (t init) ops2.
  Proof. exact (g_exec_reset_fresh S V T step init t upd rst pre_Inv P pre_Inv_init pre_Inv_step pre_upd pre_rst). Qed.
End GExecPre.

Definition anyv {V} (v : V) : Prop := True.
Lemma ops_any : forall {V} (ops : list (op V)), ops_in anyv ops.
Proof. intros V ops v _. exact I. Qed.
