(** Source-level tie for C06 (STEPD): the definitions GENERATED from stepd.py -- `_update` (counters, the AccuracyQueue
    window, `_calculate_statistic`, the one-sided test through the frozen SciPy distribution's `sf`, an ORACLE: an
    uninterpreted function the generated file takes as a parameter) and `reset` -- equal the hand-written model
    [Window.v] over the reals, the error stream being Booleans (0/1). *)
From Coq Require Import ZArith List Bool Lia Reals Lra.
From FV Require Import NumSys RealA Py NumX Sums Queue Stats Detector KS Window QueueRef StatsR IKSR WindowR.
From FVG Require Import GSrc EqStats.
Import ListNotations.

Definition b2r (b : bool) : R := if b then 1%R else 0%R.
Lemma truthy_b2r : forall b, truthy (A:=RealA) (b2r b) = b.
Proof.
  intros [|]; unfold truthy, b2r; cbn.
  - replace (Reqb 1 0) with false; [reflexivity|]. symmetry. apply Reqb_false. lra.
  - replace (Reqb 0 0) with true; [reflexivity|]. symmetry. apply Reqb_true. reflexivity.
Qed.

(** a queue related to a bounded deque is well-formed in the sense the generated enqueue needs *)
Lemma aq_rel_wf : forall M a d, (1 <= M)%Z -> aq_rel M a d -> aq_wf a.
Proof.
  intros M [q t] d HM [Hrel Ht]. cbn [a_q a_true] in *.
  pose proof Hrel as (((H1 & Hlen & Hc & Hf & Hl & Hmod) & Hl1) & Hmax & Habs).
  unfold aq_wf. cbn [a_q a_true]. split; [unfold cq_wf; lia|]. split; [lia|].
  intros Hfull Hne. unfold cq_is_full, cq_is_empty in *. apply Z.eqb_eq in Hfull. apply Z.eqb_neq in Hne.
  unfold cq_abs in Habs. destruct (Z.to_nat (q_count q)) as [|k] eqn:Ek; [lia|].
  cbn [read_from] in Habs. destruct d as [|x d']; [discriminate|]. cbn [map] in Habs. injection Habs as Hs _.
  rewrite Hs. rewrite Ht. rewrite count_true_cons. unfold ob2z, b2z. destruct x; lia.
Qed.

Section EqSTEPD.
  Variable sf : R -> R.
  Hypothesis sf_decreasing : forall x y : R, (x < y)%R -> (sf y < sf x)%R.

  Definition stepd_t (c : stepd_cfg RealA) (ad aw : R) (s : stepd_st) :=
    ((sp_min c, ad, aw), sn s, sdrift s, scorrect s, aq_t (swin s), swarning s, (2 * sp_min c)%Z).

  Lemma sf_bool : forall z a t : R, sf z = a -> Rltb (sf t) a = Rltb z t.
  Proof.
    intros z a t Hz. pose proof (sf_inversion sf sf_decreasing z a t Hz) as H.
    destruct (Rltb z t) eqn:E.
    - apply Rltb_true. apply H. reflexivity.
    - apply Rltb_false. destruct (Rlt_le_dec (sf t) a) as [Hlt|Hle]; [|exact Hle]. apply H in Hlt. discriminate.
  Qed.

  Lemma STEPD_reset_eq : forall c ad aw s, q_max (a_q (swin s)) = sp_min c ->
    STEPD_reset (stepd_t c ad aw s) = Ok (stepd_t c ad aw (stepd_init c), tt).
  Proof.
    intros c ad aw [n ct [q t] d w] HM. cbn in HM. unfold STEPD_reset, STEPD_super_BaseConceptDrift_reset, stepd_t, stepd_init, aq_t.
    cbn. unfold aq_init, cq_init. cbn. rewrite HM. reflexivity.
  Qed.

  Lemma STEPD_update_eq : forall c ad aw s b ins, (1 <= sp_min c)%Z -> stepd_CInv c ins s ->
    sf (sp_zd c) = ad -> sf (sp_zw c) = aw ->
    ((2 * sp_min c <= sn s + 1)%Z -> (0 < scorrect s + b2z b < sn s + 1)%Z) ->
    STEPD__update sf (stepd_t c ad aw s) b = Ok (stepd_t c ad aw (stepd_step c s (b2r b)), tt).
  Proof.
    intros c ad aw [n ct a dr w] b ins HM (Hn & Hc & Hrel) Had Haw Hmix. cbn [sn scorrect swin] in *.
    pose proof (aq_rel_wf _ _ _ HM Hrel) as Hwf.
    destruct (aq_enqueue_rel (sp_min c) a _ b HM Hrel) as (a' & He & Hrel').
    rewrite dq_enqueue_lastn in Hrel' by exact HM.
    destruct Hrel' as [Hq' Ht'].
    pose proof (cq_rel_count _ _ _ Hq') as Hcnt. rewrite lastn_length, app_length, map_length in Hcnt. cbn [length] in Hcnt.
    set (cnt := q_count (a_q a')) in *.
    assert (Hcnt1 : (1 <= cnt <= sp_min c)%Z) by lia.
    assert (Hcnt2 : (cnt <= n + 1)%Z) by lia.
    unfold STEPD__update, stepd_t, stepd_step. cbn [sn scorrect swin sdrift swarning]. rewrite truthy_b2r.
    unfold aq_t at 1. cbn -[AccuracyQueue_enqueue Z.mul stepd_stat aq_t].
    destruct (Z.ltb_spec (n + 1) 0); [lia|]. cbn -[AccuracyQueue_enqueue Z.mul stepd_stat aq_t].
    match goal with |- context [AccuracyQueue_enqueue ?x b] => change x with (aq_t a) end.
    rewrite (AQ_enqueue_eq a b Hwf), He. unfold aq_t at 1. cbn -[Z.mul stepd_stat aq_t]. fold cnt.
    destruct (Z.leb_spec (2 * sp_min c) (n + 1)) as [H2|H2]; cbn -[Z.mul stepd_stat aq_t]; [|reflexivity].
    destruct (Z.eqb_spec (n + 1) 0); [lia|]. cbn -[Z.mul stepd_stat aq_t].
    destruct (Z.eqb_spec (n + 1 - cnt) 0); [lia|]. cbn -[Z.mul stepd_stat aq_t].
    destruct (Z.eqb_spec cnt 0); [lia|]. cbn -[Z.mul stepd_stat aq_t].
    set (ct' := (ct + b2z b)%Z) in *. set (tw := a_true a').
    unfold aq_size, aq_num_true. fold cnt. fold tw.
    match goal with |- context [sf ?e] => set (T := e) end.
    specialize (Hmix H2).
    assert (Hn1 : (0 < IZR (n + 1))%R) by (apply IZR_lt; lia).
    assert (Hno : (0 < IZR (n + 1 - cnt))%R) by (apply IZR_lt; lia).
    assert (Hcn : (0 < IZR cnt)%R) by (apply IZR_lt; lia).
    assert (Hct0 : (0 < IZR ct')%R) by (apply IZR_lt; lia).
    assert (Hct1 : (IZR ct' < IZR (n + 1))%R) by (apply IZR_lt; lia).
    assert (Hst : stepd_stat (A:=RealA) (n + 1) ct' cnt tw = Some T).
    { unfold stepd_stat. cbn -[Z.mul].
      set (p := (IZR ct' / IZR (n + 1))%R). set (inv := (1 / IZR (n + 1 - cnt) + 1 / IZR cnt)%R).
      assert (Hp : (0 < p < 1)%R).
      { unfold p. split; [apply Rdiv_lt_0_compat; assumption|]. apply (Rmult_lt_reg_r (IZR (n + 1))); [exact Hn1|].
        unfold Rdiv. rewrite Rmult_assoc, Rinv_l by lra. lra. }
      assert (Hinv : (0 < inv)%R).
      { unfold inv. apply Rplus_lt_0_compat; apply Rdiv_lt_0_compat; lra. }
      assert (Hden : (0 < R_sqrt.sqrt (p * (1 - p) * inv))%R).
      { apply R_sqrt.sqrt_lt_R0. apply Rmult_lt_0_compat; [apply Rmult_lt_0_compat; lra|exact Hinv]. }
      replace (Reqb (R_sqrt.sqrt (p * (1 - p) * inv)) 0) with false by (symmetry; apply Reqb_false; lra).
      f_equal. unfold T. fold p. fold inv. replace (5 / 10)%R with (1 / 2)%R by lra. reflexivity. }
    rewrite Hst. rewrite (sf_bool (sp_zd c) ad T Had), (sf_bool (sp_zw c) aw T Haw).
    destruct (Rltb (sp_zd c) T); cbn -[Z.mul]; [reflexivity|].
    destruct (Rltb (sp_zw c) T); reflexivity.
  Qed.

  (** runs: Boolean streams whose pooled accuracy is strictly between 0 and 1 whenever the test is evaluated (from
      2 * min_num_instances values on); on all-equal prefixes the source divides by a zero deviation (IEEE: an infinite or
      NaN statistic, no alarm), which the reals cannot express: that case is C01's constant-stream clause, tied by the
      correspondence check *)
  Definition srun (c : stepd_cfg RealA) (bs : list bool) : stepd_st := fold_left (stepd_step c) (map b2r bs) (stepd_init c).
  Definition mixed (M : Z) (bs : list bool) : Prop :=
    forall k, (2 * M <= Z.of_nat k)%Z -> (k <= length bs)%nat ->
      (0 < Z.of_nat (count_occ bool_dec (firstn k bs) true) < Z.of_nat k)%Z.

  Lemma map_truthy_b2r : forall bs, map (truthy (A:=RealA)) (map b2r bs) = bs.
  Proof. induction bs as [|b r IH]; [reflexivity|]. cbn [map]. rewrite truthy_b2r, IH. reflexivity. Qed.

  Lemma srun_CInv : forall c bs, (1 <= sp_min c)%Z -> stepd_CInv c (map b2r bs) (srun c bs).
  Proof.
    intros c bs HM. induction bs as [|b r IH] using rev_ind; [apply stepd_CInv_init; exact HM|].
    unfold srun. rewrite map_app, fold_left_app. cbn [map fold_left]. apply stepd_CInv_step; [exact HM|exact IH].
  Qed.

  Lemma g_stepd_run_eq : forall c ad aw bs pre, (1 <= sp_min c)%Z -> sf (sp_zd c) = ad -> sf (sp_zw c) = aw ->
    mixed (sp_min c) (pre ++ bs) ->
    g_run (STEPD__update sf) (stepd_t c ad aw (srun c pre)) bs = Ok (stepd_t c ad aw (srun c (pre ++ bs))).
  Proof.
    intros c ad aw bs. induction bs as [|b r IH]; intros pre HM Had Haw Hmix; [rewrite app_nil_r; reflexivity|].
    cbn [g_run].
    pose proof (srun_CInv c pre HM) as HI.
    rewrite (STEPD_update_eq c ad aw (srun c pre) b (map b2r pre) HM HI Had Haw).
    - replace (stepd_step c (srun c pre) (b2r b)) with (srun c (pre ++ [b])).
      + replace (pre ++ b :: r) with ((pre ++ [b]) ++ r) by (rewrite <- app_assoc; reflexivity).
        apply IH; try assumption. rewrite <- app_assoc. exact Hmix.
      + unfold srun. rewrite map_app, fold_left_app. reflexivity.
    - destruct HI as (Hn & Hc & _). rewrite map_length in Hn. rewrite map_truthy_b2r in Hc. rewrite Hn, Hc. intros H2.
      specialize (Hmix (S (length pre))).
      replace (firstn (S (length pre)) (pre ++ b :: r)) with (pre ++ [b]) in Hmix.
      + rewrite count_true_snoc in Hmix. rewrite app_length in Hmix. cbn [length] in Hmix.
        assert (Hx : (0 < Z.of_nat (count_occ bool_dec pre true) + b2z b < Z.of_nat (S (length pre)))%Z) by (apply Hmix; lia).
        lia.
      + replace (pre ++ b :: r) with ((pre ++ [b]) ++ r) by (rewrite <- app_assoc; reflexivity).
        rewrite firstn_app. replace (S (length pre) - length (pre ++ [b]))%nat with 0%nat by (rewrite app_length; cbn [length]; lia).
        change (firstn 0 r) with (@nil bool). rewrite app_nil_r. rewrite firstn_all2; [reflexivity|]. rewrite app_length. cbn [length]. lia.
  Qed.
End EqSTEPD.

(** C06 (STEPD clauses) over the source-derived definitions: from the state the source's reset() produces (its window was
    built with min_num_instances), on any Boolean stream whose pooled accuracy is strictly between 0 and 1 whenever the test
    runs, no update raises (none of the three integer divisions is by zero) and the generated object ends in the model's
    state -- so the counting theorem [stepd_counts] and the rule [stepd_rule_sf] (drift iff sf(T) < alpha_d, warning iff
    alpha_d <= sf(T) < alpha_w, T computed non-incrementally from the stream) hold of the generated code.  [sf] is any
    strictly decreasing function: SciPy's normal survival function is an oracle. *)
Theorem src_stepd_run : forall (sf : R -> R), (forall x y : R, (x < y)%R -> (sf y < sf x)%R) ->
  forall (c : stepd_cfg RealA) (s0 : stepd_st) (bs : list bool),
  (1 <= sp_min c)%Z -> q_max (a_q (swin s0)) = sp_min c -> mixed (sp_min c) bs ->
  match STEPD_reset (stepd_t c (sf (sp_zd c)) (sf (sp_zw c)) s0) with
  | Ok (s1, _) =>
      g_run (STEPD__update sf) s1 bs =
        Ok (stepd_t c (sf (sp_zd c)) (sf (sp_zw c)) (exec (STEPDD RealA) c (map (fun b => Upd (b2r b)) bs)))
  | Raise _ => False
  end.
Proof.
  intros sf Hsf c s0 bs HM Hq Hmix. rewrite (STEPD_reset_eq c _ _ s0 Hq). cbv beta iota.
  pose proof (g_stepd_run_eq sf Hsf c _ _ bs [] HM eq_refl eq_refl Hmix) as H. cbn [app] in H.
  change (srun c []) with (stepd_init c) in H. rewrite H. f_equal. f_equal.
  clear H Hmix. unfold srun, exec, exec_from. change (d_init (STEPDD RealA) c) with (stepd_init c). generalize (stepd_init c). induction bs as [|b r IH]; intros s; [reflexivity|].
  cbn [map fold_left]. apply IH.
Qed.
Print Assumptions src_stepd_run.

Lemma inputs_all_upd : forall {I J} (f : J -> I) (l : list J) acc,
  inputs_since_reset (map (fun b => Upd (f b)) l) acc = acc ++ map f l.
Proof.
  intros I J f l; induction l as [|x r IH]; intros acc; cbn [map inputs_since_reset]; [rewrite app_nil_r; reflexivity|].
  rewrite IH, <- app_assoc. reflexivity.
Qed.

(** ... in particular the verdict after the last update is the published rule on the whole stream, computed
    non-incrementally: drift iff sf(T) < alpha_d, warning iff alpha_d <= sf(T) < alpha_w, where T is the statistic of the
    last min_num_instances outcomes against the earlier ones *)
Theorem src_stepd_rule : forall (sf : R -> R), (forall x y : R, (x < y)%R -> (sf y < sf x)%R) ->
  forall (c : stepd_cfg RealA) (s0 : stepd_st) (bs : list bool) (b : bool),
  (1 <= sp_min c)%Z -> q_max (a_q (swin s0)) = sp_min c -> mixed (sp_min c) (bs ++ [b]) ->
  let ad := sf (sp_zd c) in let aw := sf (sp_zw c) in
  match STEPD_reset (stepd_t c ad aw s0) with
  | Ok (s1, _) => exists n d ct q w m2,
      g_run (STEPD__update sf) s1 (bs ++ [b]) = Ok ((sp_min c, ad, aw), n, d, ct, q, w, m2) /\
      let all := bs ++ [b] in
      let n' := Z.of_nat (length all) in
      let W := lastn (Z.to_nat (sp_min c)) all in
      let stat := stepd_stat (A:=RealA) n' (Z.of_nat (count_occ bool_dec all true)) (sp_min c) (Z.of_nat (count_occ bool_dec W true)) in
      n = n' /\
      (d = true <-> (2 * sp_min c <= n')%Z /\ exists t, stat = Some t /\ (sf t < ad)%R) /\
      (w = true <-> (2 * sp_min c <= n')%Z /\ exists t, stat = Some t /\ (ad <= sf t < aw)%R)
  | Raise _ => False
  end.
Proof.
  intros sf Hsf c s0 bs b HM Hq Hmix ad aw.
  pose proof (src_stepd_run sf Hsf c s0 (bs ++ [b]) HM Hq Hmix) as Hrun. fold ad aw in Hrun.
  destruct (STEPD_reset (stepd_t c ad aw s0)) as [[s1 u]|e]; [|exact Hrun].
  rewrite Hrun. unfold stepd_t. eexists _, _, _, _, _, _. split; [reflexivity|].
  cbv zeta.
  pose proof (stepd_rule_sf sf Hsf c ad aw (map (fun b => Upd (b2r b)) bs) (b2r b) HM eq_refl eq_refl) as Hr.
  cbv zeta in Hr.
  replace (map (fun b0 : bool => Upd (b2r b0)) bs ++ [Upd (b2r b)]) with (map (fun b0 : bool => Upd (b2r b0)) (bs ++ [b])) in Hr
    by (rewrite map_app; reflexivity).
  rewrite inputs_all_upd in Hr. cbn [app] in Hr. rewrite map_truthy_b2r in Hr.
  split; [|exact Hr].
  pose proof (stepd_counts c (map (fun b0 : bool => Upd (b2r b0)) (bs ++ [b])) HM) as Hc. cbv zeta in Hc.
  rewrite inputs_all_upd in Hc. cbn [app] in Hc. rewrite map_truthy_b2r in Hc. destruct Hc as (Hn & _). exact Hn.
Qed.
Print Assumptions src_stepd_rule.

(** the hypotheses are satisfiable *)
Example mixed_instance : mixed 1 [true; false; true].
Proof.
  intros k Hk Hl. cbn [length] in Hl.
  destruct k as [|[|[|[|k]]]]; cbn in *; lia.
Qed.
