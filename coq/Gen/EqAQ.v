(** Source-level tie for C18's AccuracyQueue clause IN FULL: the definitions generated from `AccuracyQueue.enqueue`, `dequeue`,
    `clear` and `maintain_last_element` (the method added by the repair of F48) run over ANY sequence of operations equal the
    model's [aq_ops aq_keep] (Model/AQueue.v), hence hold a bounded deque's contents with counters that count them. *)
From Coq Require Import ZArith List Bool Lia.
From FV Require Import NumSys Py Queue QueueRef AQueue AQueueR.
From FVG Require Import GSrc EqStats.
Import ListNotations.
Local Open Scope Z_scope.

Lemma aq_rel_wf : forall M a d, aq_rel M a d -> aq_wf a.
Proof.
  intros M a d Hrel. destruct a as [q t]. destruct Hrel as [Hq Ht]. cbn [a_q a_true] in *.
  pose proof Hq as (((H1 & Hlen & Hc & Hf & Hl & Hmod) & Hl1) & Hmax & Habs).
  unfold aq_wf. cbn [a_q a_true]. split; [unfold cq_wf; lia|]. split; [lia|].
  intros Hfull Hne. unfold cq_is_full, cq_is_empty in *. apply Z.eqb_eq in Hfull. apply Z.eqb_neq in Hne.
  unfold cq_abs in Habs. destruct (Z.to_nat (q_count q)) as [|k] eqn:Ek; [lia|].
  cbn [read_from] in Habs. destruct d as [|x d']; [discriminate|]. cbn [map] in Habs. injection Habs as Hs _.
  rewrite Hs, Ht, count_true_cons. unfold ob2z, b2z. destruct x; lia.
Qed.

(** `AccuracyQueue.dequeue` on a queue related to a deque *)
Lemma AQ_dequeue_eq : forall M a d, aq_rel M a d ->
  AccuracyQueue_dequeue (aq_t a) = match aq_dequeue a with Ok (a', el) => Ok (aq_t a', el) | Raise e => Raise e end.
Proof.
  intros M a d Hrel. pose proof (aq_rel_wf M a d Hrel) as ((Hc & Hf & Hl & Hm) & Ht & _).
  destruct a as [q t]. cbn [a_q a_true] in *.
  unfold AccuracyQueue_dequeue, AccuracyQueue_super_CircularQueue_dequeue, aq_dequeue, aq_t, cq_dequeue, cq_is_empty, slot. cbn [a_q a_true bind].
  destruct (Z.eqb_spec (q_count q) 0) as [E0|N0]; cbn [bind]; [reflexivity|].
  destruct (Z.eqb_spec (q_max q) 0) as [Em|Nm]; cbn [bind]; [reflexivity|].
  pose proof (Z.mod_pos_bound (q_first q + 1) (q_max q) ltac:(lia)) as Hmod.
  destruct (Z.ltb_spec ((q_first q + 1) mod q_max q) 0) as [?|_]; [lia|]. destruct (Z.ltb_spec (q_count q - 1) 0) as [?|_]; [lia|]. cbn [bind].
  destruct (nth (Z.to_nat (q_first q)) (q_slots q) None) as [[|]|]; cbn [ob2z];
    destruct (Z.ltb_spec (t - 1) 0); destruct (Z.ltb_spec (t - 0) 0); cbn [bind]; try reflexivity; try lia.
Qed.

(** `AccuracyQueue.maintain_last_element` (the repaired method) *)
Lemma AQ_keep_eq : forall a, cq_wf (a_q a) -> (q_count (a_q a) = 0 \/ 0 <= q_last (a_q a)) ->
  AccuracyQueue_maintain_last_element (aq_t a) = Ok (aq_t (aq_keep a), tt).
Proof.
  intros [q t] (Hc & Hf & Hl & Hm) Hlast. cbn [a_q a_true] in *.
  unfold AccuracyQueue_maintain_last_element, AccuracyQueue_super_CircularQueue_maintain_last_element, aq_keep, aq_t, cq_keep_last, cq_is_empty, slot.
  cbn [a_q a_true bind].
  destruct (Z.eqb_spec (q_count q) 0) as [E0|N0]; cbn [bind q_count q_first q_last q_max q_slots a_q a_true].
  - assert (Eb : (q_count q =? 0) = true) by (apply Z.eqb_eq; exact E0). cbn. rewrite ?Eb. cbn. rewrite ?Eb. reflexivity.
  - destruct (Z.ltb_spec (q_last q) 0) as [?|_]; [lia|]. cbn [bind]. change (1 =? 0) with false. cbn [negb bind].
    cbn. destruct (nth (Z.to_nat (q_last q)) (q_slots q) None) as [[|]|]; cbn; reflexivity.
Qed.

(** the generated methods over an operation sequence; a rejected call leaves the object as it was (as [aq_apply]) *)
Definition g_aq_apply (s : Z * Z * Z * Z * list (option bool) * Z) (o : qop bool) : (Z * Z * Z * Z * list (option bool) * Z) * qout bool :=
  match o with
  | Enq v => match AccuracyQueue_enqueue s v with Ok (s', _) => (s', OEl None) | Raise e => (s, OErr e) end
  | Deq => match AccuracyQueue_dequeue s with Ok (s', el) => (s', OEl el) | Raise e => (s, OErr e) end
  | Clr => match AccuracyQueue_clear s with Ok (s', _) => (s', OUnit) | Raise e => (s, OErr e) end
  | Keep => match AccuracyQueue_maintain_last_element s with Ok (s', _) => (s', OUnit) | Raise e => (s, OErr e) end
  end.
Fixpoint g_aq_ops (s : Z * Z * Z * Z * list (option bool) * Z) (ops : list (qop bool)) : (Z * Z * Z * Z * list (option bool) * Z) * list (qout bool) :=
  match ops with
  | [] => (s, [])
  | o :: r => let '(s1, out) := g_aq_apply s o in let '(s2, outs) := g_aq_ops s1 r in (s2, out :: outs)
  end.

Lemma g_aq_apply_eq : forall M a d o, aq_rel M a d ->
  g_aq_apply (aq_t a) o = (aq_t (fst (aq_apply aq_keep a o)), snd (aq_apply aq_keep a o)).
Proof.
  intros M a d o Hrel. pose proof (aq_rel_wf M a d Hrel) as Hwf. destruct o as [v| | |]; cbn [g_aq_apply aq_apply].
  - rewrite (AQ_enqueue_eq a v Hwf). destruct (aq_enqueue a v) as [a'|e]; reflexivity.
  - rewrite (AQ_dequeue_eq M a d Hrel). destruct (aq_dequeue a) as [[a' el]|e]; reflexivity.
  - rewrite AQ_clear_eq. reflexivity.
  - rewrite (AQ_keep_eq a (proj1 Hwf)); [reflexivity|].
    destruct Hrel as [(((_ & _ & Hc & _ & Hl & _) & Hl1) & _ & _) _]. destruct (Z.eq_dec (q_last (a_q a)) (-1)) as [E|N]; [left; exact (Hl1 E)|right; lia].
Qed.

Lemma g_aq_ops_eq : forall M ops a d, 1 <= M -> aq_rel M a d ->
  g_aq_ops (aq_t a) ops = (aq_t (fst (aq_ops aq_keep a ops)), snd (aq_ops aq_keep a ops)).
Proof.
  intros M ops; induction ops as [|o r IH]; intros a d HM Hrel; [reflexivity|].
  cbn [g_aq_ops aq_ops]. rewrite (g_aq_apply_eq M a d o Hrel).
  destruct (aq_apply_sim M a d o HM Hrel) as [H1 _].
  destruct (aq_apply aq_keep a o) as [a1 out]. cbn [fst snd] in *.
  rewrite (IH a1 _ HM H1). destruct (aq_ops aq_keep a1 r) as [a2 outs]. reflexivity.
Qed.

(** C18's AccuracyQueue clause over the generated code, for every operation sequence *)
Theorem src_accuracy_counts_all_ops : forall (max_len : Z) (ops : list (qop bool)), 1 <= max_len ->
  match AccuracyQueue_init max_len with
  | Ok (t0, _) =>
      let '(count, first, last, mx, slots, num_true) := fst (g_aq_ops t0 ops) in
      let d := fst (dq_run max_len [] ops) in
      cq_abs {| q_count := count; q_first := first; q_last := last; q_max := mx; q_slots := slots |} = map Some d /\
      count = Z.of_nat (length d) /\ num_true = Z.of_nat (count_occ bool_dec d true) /\
      count - num_true = Z.of_nat (count_occ bool_dec d false)
  | Raise _ => False
  end.
Proof.
  intros M ops HM. rewrite AQ_init_eq by lia.
  assert (H0 : aq_rel M (aq_init M) []) by (split; [apply cq_init_rel; exact HM|reflexivity]).
  rewrite (g_aq_ops_eq M ops (aq_init M) [] HM H0). cbn [fst].
  destruct (accuracy_counts_all_ops M ops HM) as (Ha & Ht & Hf & Hs). cbv zeta in *.
  set (a := fst (aq_ops aq_keep (aq_init M) ops)) in *. unfold aq_t.
  split; [destruct (a_q a); exact Ha|]. split; [exact Hs|]. split; [exact Ht|]. exact Hf.
Qed.
Print Assumptions src_accuracy_counts_all_ops.
