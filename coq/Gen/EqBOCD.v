(** Source-level tie for C08 (BOCD): the definitions GENERATED from bocd.py -- `GaussianUnknownMean.update` /
    `log_pred_prob` / `var_params` (NumPy 1-D float arrays: elementwise arithmetic, slices, np.append), `BOCD._update`
    (message passing in log space, the run-length matrix `log_r` grown by one padded row per step, prediction, arg-max
    test) and `reset` -- equal the hand-written model [BOCD.v], for EVERY number system.  `scipy.stats.norm(...).logpdf`
    and `scipy.special.logsumexp` are ORACLES (parameters of the generated file); the equality is stated for oracles that
    compute what the model writes out (the closed form of the normal log-density, the max-shifted log-sum-exp). *)
From Coq Require Import ZArith List Bool Lia.
From FV Require Import NumSys Py NumX Detector BOCD Structural.
From FVG Require Import GSrc EqStats.
Import ListNotations.

Lemma zip_with_combine : forall {X Y Z0} (f : X -> Y -> Z0) (a : list X) (b : list Y),
  zip_with f a b = map (fun p => f (fst p) (snd p)) (combine a b).
Proof. intros X Y Z0 f a; induction a as [|x a IH]; intros [|y b]; cbn; try reflexivity. f_equal. apply IH. Qed.
Lemma zip_with_length : forall {X Y Z0} (f : X -> Y -> Z0) (a : list X) (b : list Y), length a = length b -> length (zip_with f a b) = length a.
Proof. intros X Y Z0 f a; induction a as [|x a IH]; intros [|y b] H; cbn in *; try reflexivity; try discriminate. f_equal. apply IH. lia. Qed.

Ltac slet nm := lazymatch goal with |- (let x := ?e in @?b x) = ?r => set (nm := e); change (b nm = r); cbv beta end.
Ltac sguard tac := lazymatch goal with |- (bind ?g ?k) = ?r =>
  lazymatch g with (if ?c then _ else _) =>
    let H := fresh in assert (H : c = false) by tac; rewrite H; clear H;
    lazymatch goal with |- (bind _ ?k') = ?r' => change (k' tt = r'); cbv beta end end end.

Lemma combine_map_both : forall {X Y X' Y'} (f : X -> X') (g : Y -> Y') (a : list X) (b : list Y),
  combine (map f a) (map g b) = map (fun p => (f (fst p), g (snd p))) (combine a b).
Proof. intros X Y X' Y' f g a; induction a as [|x a IH]; intros [|y b]; cbn; try reflexivity. f_equal. apply IH. Qed.

Section EqBOCD.
  Context {A : Arith}.
  Variable npdf : num A -> num A -> num A -> num A.
  Variable lse : list (num A) -> num A.
  Variable c : bocd_cfg A.
  Hypothesis Hpdf : forall x mu sd, npdf x mu sd = norm_logpdf c x mu sd.
  Hypothesis Hlse : forall l, lse l = logsumexp l.

  Lemma g_argmax_from_eq : forall (l : list (num A)) i bi b, g_argmax_from l i bi b = argmax_from l i bi b.
  Proof. induction l as [|x r IH]; intros i bi b; cbn; [reflexivity|]. destruct (ltb b x); apply IH. Qed.
  Lemma g_argmax_eq : forall l : list (num A), g_argmax l = argmax l.
  Proof. intros [|x r]; [reflexivity|]. apply g_argmax_from_eq. Qed.

  Definition gum_t (means precs : list (num A)) := (means, precs, bo_data_var c).
  Definition bcfg_t := (bo_min c, gum_t [bo_prior_mean c] [div one (bo_prior_var c)], ln (bo_hazard c), ln (sub one (bo_hazard c))).
  (** [rows]: the rows of `log_r` below the current one (the model keeps the last row only: nothing else is ever read) *)
  Definition bocd_t (rows : list (list (num A))) (s : bocd_st A) :=
    (bcfg_t, bn s, bdrift s, rows ++ [brow s], bpmean s, bpvar s, bmsg s, gum_t (bmeans s) (bprecs s)).

  Lemma BOCD_reset_eq : forall rows s, BOCD_reset (bocd_t rows s) = Ok (bocd_t [] (bocd_init c), tt).
  Proof. reflexivity. Qed.

  (** the precisions held after k updates: P, P + d, (P + d) + d, ... (P the prior precision, d = 1 / data_var).  The source
      rebuilds this list at every update and then reads the NEW list without its last entry, where the model reads the old
      list: the same values, by this invariant *)
  Definition dd : num A := div one (bo_data_var c).
  Fixpoint pseq (k : nat) : list (num A) :=
    match k with O => [div one (bo_prior_var c)] | S j => div one (bo_prior_var c) :: map (fun p => add p dd) (pseq j) end.
  Lemma pseq_length : forall k, length (pseq k) = S k.
  Proof. induction k as [|k IH]; cbn [pseq length]; [reflexivity|]. rewrite map_length, IH. reflexivity. Qed.
  Lemma pseq_hd : forall k, hd zero (pseq k) = div one (bo_prior_var c).
  Proof. destruct k; reflexivity. Qed.
  Lemma removelast_map : forall {X Y} (f : X -> Y) l, removelast (map f l) = map f (removelast l).
  Proof. intros X Y f l; induction l as [|x [|y r] IH]; cbn in *; try reflexivity. f_equal. exact IH. Qed.
  Lemma pseq_removelast : forall k, removelast (pseq (S k)) = pseq k.
  Proof.
    induction k as [|k IH]; [reflexivity|].
    change (pseq (S (S k))) with (div one (bo_prior_var c) :: map (fun p => add p dd) (pseq (S k))).
    assert (Hne : map (fun p : num A => add p dd) (pseq (S k)) <> []) by (cbn; discriminate).
    destruct (map (fun p : num A => add p dd) (pseq (S k))) as [|y r] eqn:E; [congruence|].
    change (removelast (div one (bo_prior_var c) :: y :: r)) with (div one (bo_prior_var c) :: removelast (y :: r)).
    rewrite <- E, removelast_map, IH. reflexivity.
  Qed.
  Lemma pseq_step : forall k, hd zero (pseq k) :: map (fun p => add p dd) (pseq k) = pseq (S k).
  Proof. intros k. rewrite pseq_hd. reflexivity. Qed.

  Lemma GUM_update_eq : forall means k v, length means = S k ->
    GaussianUnknownMean_update (gum_t means (pseq k)) v =
      Ok (gum_t (hd zero means :: zip_with (fun mp np => div mp np) (zip_with (fun mu p => add (mul mu p) (div v (bo_data_var c))) means (pseq k)) (map (fun p => add p dd) (pseq k)))
                (pseq (S k)), tt).
  Proof.
    intros means k v Hlen. unfold GaussianUnknownMean_update, gum_t.
    pose proof (pseq_length k) as Hpl.
    destruct means as [|m0 means]; [discriminate|].
    destruct (pseq k) as [|p0 precs] eqn:Ep; [discriminate|].
    change (Z.to_nat 0) with 0%nat. cbn [nth]. change (ofZ 1) with (@one A). fold dd.
    change ([p0] ++ map (fun a_ : num A => add a_ dd) (p0 :: precs)) with (hd zero (p0 :: precs) :: map (fun p => add p dd) (p0 :: precs)).
    rewrite <- Ep, pseq_step, pseq_removelast, !zip_with_combine.
    cbn [Z.ltb orb]. rewrite Ep.
    destruct (Z.leb_spec (Z.of_nat (length (p0 :: precs))) 0); [cbn [length] in *; lia|]. cbn [bind].
    change (0 <? 0)%Z with false. cbn [orb bind].
    rewrite Hlen, Hpl, Nat.eqb_refl. cbn [negb bind].
    rewrite !map_length, combine_length, Hlen, Hpl, Nat.min_id, Nat.eqb_refl. cbn [negb bind].
    destruct (Z.leb_spec (Z.of_nat (S k)) 0); [lia|]. cbn [bind hd app].
    rewrite map_map. reflexivity.
  Qed.

  Definition b_ok (rows : list (list (num A))) (s : bocd_st A) : Prop :=
    (0 <= bn s)%Z /\ length rows = Z.to_nat (bn s) /\
    length (bmeans s) = S (Z.to_nat (bn s)) /\ bprecs s = pseq (Z.to_nat (bn s)) /\ length (bmsg s) = S (Z.to_nat (bn s)).
  Lemma b_ok_init : b_ok [] (bocd_init c).
  Proof. unfold b_ok. cbn. repeat split; lia. Qed.

  Lemma BOCD_update_eq : forall rows s v, b_ok rows s ->
    BOCD__update npdf lse (bocd_t rows s) v = Ok (bocd_t (rows ++ [brow s]) (bocd_step c s v), tt).
  Proof.
    intros rows [n means precs msg row pm pv dr] v (Hn & Hrows & Hmeans & Hprecs & Hmsg).
    cbn [bn bmeans bprecs bmsg brow bpmean bpvar bdrift] in *. subst precs.
    set (k := Z.to_nat n) in *.
    lazy beta iota delta [BOCD__update bocd_t bcfg_t gum_t bn bmeans bprecs bmsg brow bpmean bpvar bdrift].
    assert (Hk : Z.to_nat (n + 1) = S k) by (unfold k; lia).
    pose proof (pseq_length k) as Hpl.
    slet n1. sguard ltac:(apply Z.ltb_ge; unfold n1; lia).
    sguard ltac:(apply orb_false_intro; [first [reflexivity|apply Z.ltb_ge; unfold n1; lia]|apply Z.ltb_ge; rewrite Hmeans; unfold n1, k; lia]).
    slet post_means. assert (Epm : post_means = means) by (unfold post_means, n1; rewrite Hk, <- Hmeans; apply firstn_all).
    slet arr. assert (Earr : arr = var_params c (pseq k)) by (unfold arr, var_params; rewrite map_map; reflexivity).
    assert (Larr : length arr = S k) by (rewrite Earr; unfold var_params; rewrite map_length; exact Hpl).
    sguard ltac:(apply orb_false_intro; [first [reflexivity|apply Z.ltb_ge; unfold n1; lia]|apply Z.ltb_ge; rewrite Larr; unfold n1, k; lia]).
    slet post_stds. assert (Eps : post_stds = map sqrt (var_params c (pseq k))) by (unfold post_stds, n1; rewrite Hk, <- Larr, firstn_all, Earr; reflexivity).
    assert (Lps : length post_stds = S k) by (rewrite Eps, map_length; unfold var_params; rewrite map_length; exact Hpl).
    sguard ltac:(rewrite Epm, Hmeans, Lps, Nat.eqb_refl; reflexivity).
    slet log_pis.
    assert (Elp : log_pis = zip_with (fun mu va => norm_logpdf c v mu (sqrt va)) means (var_params c (pseq k))).
    { unfold log_pis. rewrite Epm, Eps, zip_with_combine. rewrite <- (map_id means) at 1. rewrite combine_map_both. rewrite map_map. apply map_ext. intros [a b]. cbn [fst snd id]. apply Hpdf. }
    assert (Lvp : length (var_params c (pseq k)) = S k) by (unfold var_params; rewrite map_length; exact Hpl).
    assert (Llp : length log_pis = S k) by (rewrite Elp, zip_with_length; [exact Hmeans|rewrite Hmeans, Lvp; reflexivity]).
    sguard ltac:(rewrite Llp, Hmsg, Nat.eqb_refl; reflexivity).
    slet lpm. assert (Elpm : lpm = zip_with add log_pis msg) by (unfold lpm; rewrite zip_with_combine; reflexivity).
    assert (Llpm : length lpm = S k) by (rewrite Elpm, zip_with_length; [exact Llp|rewrite Llp, Hmsg; reflexivity]).
    slet growth. slet cp. slet joint.
    assert (Ljoint : length joint = S (S k)) by (unfold joint, growth; cbn [length]; rewrite map_length, Llpm; reflexivity).
    slet logr.
    assert (Llogr : length logr = S (S k)) by (unfold logr; rewrite !app_length, Hrows; cbn [length]; lia).
    change (GaussianUnknownMean_update (means, pseq k, bo_data_var c) v) with (GaussianUnknownMean_update (gum_t means (pseq k)) v).
    rewrite (GUM_update_eq means k v Hmeans).
    lazymatch goal with |- (bind (Ok ?x) ?kk) = ?r => change (kk x = r); unfold gum_t; cbv beta iota end.
    set (newrow := map (fun a_ : num A => sub a_ (lse joint)) joint) in *.
    assert (Lnr : length newrow = S (S k)) by (unfold newrow; rewrite map_length; exact Ljoint).
    assert (Enth : nth (Z.to_nat n1) logr [] = newrow).
    { unfold logr, n1. rewrite Hk. rewrite app_nth2 by (rewrite app_length, Hrows; cbn [length]; lia).
      rewrite app_length, Hrows. cbn [length]. replace (S k - (k + 1))%nat with 0%nat by lia. reflexivity. }
    assert (Hk2 : Z.to_nat (n1 + 1) = S (S k)) by (unfold n1, k; lia).
    rewrite !Enth, !Hk2.
    set (means' := hd zero means :: zip_with (fun mp np : num A => div mp np) (zip_with (fun mu p : num A => add (mul mu p) (div v (bo_data_var c))) means (pseq k)) (map (fun p : num A => add p dd) (pseq k))) in *.
    assert (Lm' : length means' = S (S k)).
    { unfold means'. cbn [length]. rewrite zip_with_length; rewrite zip_with_length; rewrite ?map_length, ?Hmeans, ?Hpl; reflexivity. }
    set (vars' := map (fun a_ : num A => add a_ (bo_data_var c)) (map (fun b_ : num A => div (ofZ 1) b_) (pseq (S k)))) in *.
    assert (Lv' : length vars' = S (S k)) by (unfold vars'; rewrite !map_length; apply pseq_length).
    assert (F1 : firstn (S (S k)) newrow = newrow) by (rewrite <- Lnr; apply firstn_all).
    assert (F2 : firstn (S (S k)) means' = means') by (rewrite <- Lm'; apply firstn_all).
    assert (F3 : firstn (S (S k)) vars' = vars') by (rewrite <- Lv'; apply firstn_all).
    rewrite !F1, !F2, !F3, !map_length, !Lnr, !Lm', !Lv', !Llogr.
    assert (HZ : Z.of_nat (S (S k)) = (n1 + 1)%Z) by (unfold n1, k; lia).
    assert (B1 : (n1 + 1 <? 0)%Z = false) by (apply Z.ltb_ge; unfold n1; lia).
    assert (B2 : (n1 + 1 <? n1 + 1)%Z = false) by apply Z.ltb_irrefl.
    assert (B3 : (n1 + 1 <=? n1)%Z = false) by (apply Z.leb_gt; lia).
    rewrite !HZ, !B1, !B2, !B3, !Nat.eqb_refl. cbn [orb negb]. lazy beta iota delta [bind].
    (* the model side *)
    unfold bocd_step. cbv zeta. cbn [bn bmeans bprecs bmsg brow bpmean bpvar bdrift].
    fold n1. rewrite <- Elp, <- Elpm.
    fold growth. rewrite <- !Hlse. fold cp. fold joint. fold newrow.
    fold dd. rewrite pseq_step. fold means'.
    assert (Ev : var_params c (pseq (S k)) = vars') by (unfold vars', var_params; rewrite map_map; reflexivity).
    rewrite Ev, !zip_with_combine, g_argmax_eq.
    destruct (bo_min c <=? n1)%Z; reflexivity.
  Qed.

  Lemma b_ok_step : forall rows s v, b_ok rows s -> b_ok (rows ++ [brow s]) (bocd_step c s v).
  Proof.
    intros rows [n means precs msg row pm pv dr] v (Hn & Hrows & Hmeans & Hprecs & Hmsg).
    cbn [bn bmeans bprecs bmsg brow bpmean bpvar bdrift] in *. subst precs.
    pose proof (pseq_length (Z.to_nat n)) as Hpl.
    assert (Hk : Z.to_nat (n + 1) = S (Z.to_nat n)) by lia.
    unfold b_ok, bocd_step. cbv zeta. cbn [bn bmeans bprecs bmsg brow bpmean bpvar bdrift]. rewrite Hk.
    split; [lia|]. split; [rewrite app_length, Hrows; cbn [length]; lia|]. split.
    { cbn [length]. rewrite zip_with_length; rewrite zip_with_length; rewrite ?map_length, ?Hmeans, ?Hpl; reflexivity. }
    split; [fold dd; apply pseq_step|].
    cbn [length]. rewrite map_length, zip_with_length; rewrite zip_with_length; unfold var_params; rewrite ?map_length, ?Hmeans, ?Hpl, ?Hmsg; reflexivity.
  Qed.

  (** the rows of `log_r` accumulated along a run: row j is the model's row after j updates *)
  Fixpoint rows_from (s : bocd_st A) (vs : list (num A)) : list (list (num A)) :=
    match vs with [] => [] | v :: r => brow s :: rows_from (bocd_step c s v) r end.

  Lemma g_bocd_run_eq : forall vs rows s, b_ok rows s ->
    g_run (BOCD__update npdf lse) (bocd_t rows s) vs = Ok (bocd_t (rows ++ rows_from s vs) (fold_left (bocd_step c) vs s)).
  Proof.
    induction vs as [|v r IH]; intros rows s Hok; [cbn [g_run rows_from fold_left]; rewrite app_nil_r; reflexivity|].
    cbn [g_run rows_from fold_left]. rewrite (BOCD_update_eq rows s v Hok).
    rewrite (IH _ _ (b_ok_step rows s v Hok)). rewrite <- app_assoc. reflexivity.
  Qed.

  Lemma rows_from_nth : forall vs s j, (j < length vs)%nat ->
    nth j (rows_from s vs) [] = brow (fold_left (bocd_step c) (firstn j vs) s).
  Proof.
    induction vs as [|v r IH]; intros s j Hj; [cbn in Hj; lia|].
    destruct j as [|j]; [reflexivity|]. cbn [rows_from nth firstn fold_left]. apply IH. cbn [length] in Hj. lia.
  Qed.

  (** histories (any interleaving of update / reset): the generated object, started where reset() leaves it, runs exactly as
      the model's [exec] does and never raises; the rows below the current one are carried along as a ghost component *)
  Definition hstep (p : list (list (num A)) * bocd_st A) (v : num A) := (fst p ++ [brow (snd p)], bocd_step c (snd p) v).
  Definition hinit : list (list (num A)) * bocd_st A := ([], bocd_init c).
  Definition ht (p : list (list (num A)) * bocd_st A) := bocd_t (fst p) (snd p).

  Lemma bocd_exec_eq : forall ops,
    g_exec (BOCD__update npdf lse) BOCD_reset (bocd_t [] (bocd_init c)) ops =
      Ok (ht (fold_left (m_apply _ _ hstep hinit) ops hinit)) /\
    snd (fold_left (m_apply _ _ hstep hinit) ops hinit) = exec (BOCDD A) c ops.
  Proof.
    intros ops. split.
    - exact (proj1 (g_exec_from _ _ _ hstep hinit ht (BOCD__update npdf lse) BOCD_reset (fun p => b_ok (fst p) (snd p)) anyv
               b_ok_init (fun p v H _ => b_ok_step (fst p) (snd p) v H) (fun p v H _ => BOCD_update_eq (fst p) (snd p) v H)
               (fun p _ => BOCD_reset_eq (fst p) (snd p)) ops hinit b_ok_init (ops_any ops))).
    - unfold exec, exec_from. change (d_init (BOCDD A) c) with (snd hinit).
      assert (G : forall l p, snd (fold_left (m_apply _ _ hstep hinit) l p) = fold_left (Detector.apply (BOCDD A) c) l (snd p)).
      { induction l as [|o r IH]; intros p; [reflexivity|]. cbn [fold_left]. rewrite IH. f_equal. destruct o; reflexivity. }
      apply G.
  Qed.

  Lemma bocd_fresh : forall ops1 ops2,
    g_exec (BOCD__update npdf lse) BOCD_reset (bocd_t [] (bocd_init c)) (ops1 ++ Rst :: ops2) =
    g_exec (BOCD__update npdf lse) BOCD_reset (bocd_t [] (bocd_init c)) ops2.
  Proof.
    intros ops1 ops2.
    exact (g_exec_reset_fresh _ _ _ hstep hinit ht (BOCD__update npdf lse) BOCD_reset (fun p => b_ok (fst p) (snd p)) anyv
             b_ok_init (fun p v H _ => b_ok_step (fst p) (snd p) v H) (fun p v H _ => BOCD_update_eq (fst p) (snd p) v H)
             (fun p _ => BOCD_reset_eq (fst p) (snd p)) ops1 ops2 (ops_any _) (ops_any _)).
  Qed.
End EqBOCD.

(** * C08 over the source-derived definitions (over R) *)
From Coq Require Import Reals Lra.
From FV Require Import RealA Sums BOCDSpec BOCDR.

(** From the state the source's reset() produces, for a configuration in the property's domain ([cfg_ok]: variances > 0,
    hazard in (0,1)) and oracles computing the normal log-density in closed form and the max-shifted log-sum-exp, after ANY
    real stream: no update raises (no array-length mismatch, no row or slice out of range); `log_r` has one row per step and
    EVERY row j, exponentiated, is the exact Adams-MacKay posterior P(r_j | x_1..x_j) and sums to one; from min_num_instances
    on, drift iff the most probable run length is not t; the predicted mean / variance are the posterior mixtures. *)
Theorem src_bocd_posterior : forall (c : bocd_cfg RealA) (npdf : R -> R -> R -> R) (lse : list R -> R),
  (forall x mu sd, npdf x mu sd = norm_logpdf c x mu sd) -> (forall l, lse l = logsumexp (A:=RealA) l) -> cfg_ok c ->
  forall rows0 (s0 : bocd_st RealA) (vs : list R),
  match BOCD_reset (bocd_t c rows0 s0) with
  | Ok (s1, _) => exists logr d pm pv msg mdl,
      g_run (BOCD__update npdf lse) s1 vs = Ok (bcfg_t c, Z.of_nat (length vs), d, logr, pm, pv, msg, mdl) /\
      length logr = S (length vs) /\
      (forall j, (j <= length vs)%nat ->
         map Rtrigo_def.exp (nth j logr []) = posterior c (rev (firstn j vs)) /\ Rsum (map Rtrigo_def.exp (nth j logr [])) = 1%R) /\
      ((bo_min c <= Z.of_nat (length vs))%Z -> (d = true <-> argmaxR (posterior c (rev vs)) <> length vs)) /\
      ((Z.of_nat (length vs) < bo_min c)%Z -> d = false) /\
      (vs <> [] ->
         pm = Some (Rsum (map (fun k => nth k (posterior c (rev vs)) 0 * post_mean c (firstn k (rev vs))) (seq 0 (S (length vs))))) /\
         pv = Some (Rsum (map (fun k => nth k (posterior c (rev vs)) 0 * (1 / post_prec c k + bo_data_var c)) (seq 0 (S (length vs))))))%R
  | Raise _ => False
  end.
Proof.
  intros c npdf lse Hpdf Hlse Hc rows0 s0 vs. rewrite BOCD_reset_eq. cbv beta iota.
  rewrite (g_bocd_run_eq npdf lse c Hpdf Hlse vs [] (bocd_init c) (b_ok_init c)). cbn [app].
  change (fold_left (bocd_step c) vs (bocd_init c)) with (brun c vs).
  unfold bocd_t. rewrite (bocd_bn c vs Hc). eexists _, _, _, _, _, _. split; [reflexivity|].
  assert (Hlen : forall (s : bocd_st RealA) l, length (rows_from c s l) = length l).
  { intros s l; revert s; induction l as [|v r IH]; intros s; cbn [rows_from length]; [reflexivity|]. rewrite IH. reflexivity. }
  pose proof (Hlen (bocd_init c) vs) as Hl0. change (NumSys.num RealA) with R in *.
  split; [rewrite app_length; cbn [length]; rewrite Hl0, Nat.add_1_r; reflexivity|].
  split.
  { intros j Hj.
    assert (Hrow : nth j (rows_from c (bocd_init c) vs ++ [brow (brun c vs)]) [] = brow (brun c (firstn j vs))).
    { destruct (Nat.eq_dec j (length vs)) as [->|Hne].
      - change (NumSys.num RealA) with R in *. rewrite app_nth2 by lia. rewrite Hl0, Nat.sub_diag, firstn_all. reflexivity.
      - change (NumSys.num RealA) with R in *. rewrite app_nth1 by lia. rewrite rows_from_nth by (change (NumSys.num RealA) with R; lia). reflexivity. }
    change (NumSys.num RealA) with R in *. rewrite Hrow. split; [exact (bocd_row_is_posterior c (firstn j vs) Hc)|exact (bocd_row_normalised c (firstn j vs) Hc)]. }
  split; [intros Hmin; exact (bocd_verdict c vs Hc Hmin)|].
  split; [intros Hlt; exact (bocd_no_drift_before_min c vs Hc Hlt)|].
  intros Hne. exact (bocd_prediction c vs Hc Hne).
Qed.
Print Assumptions src_bocd_posterior.

(** C01 (warm-up silence) and C02 (reset() = where a fresh history starts) over the generated BOCD, for EVERY number system,
    every history of update / reset calls, whatever real values arrive *)
Theorem src_bocd_warmup_and_reset : forall (A : Arith) (c : bocd_cfg A) (npdf : NumSys.num A -> NumSys.num A -> NumSys.num A -> NumSys.num A) (lse : list (NumSys.num A) -> NumSys.num A),
  (forall x mu sd, npdf x mu sd = norm_logpdf c x mu sd) -> (forall l, lse l = logsumexp l) ->
  forall rows0 (s0 : bocd_st A),
  match BOCD_reset (bocd_t c rows0 s0) with
  | Ok (s1, _) =>
      (forall ops, (updates_since_reset (BOCDD A) ops < bo_min c)%Z ->
         exists n logr pm pv msg mdl, g_exec (BOCD__update npdf lse) BOCD_reset s1 ops = Ok (bcfg_t c, n, false, logr, pm, pv, msg, mdl)) /\
      (forall ops1 ops2, g_exec (BOCD__update npdf lse) BOCD_reset s1 (ops1 ++ Rst :: ops2) = g_exec (BOCD__update npdf lse) BOCD_reset s1 ops2)
  | Raise _ => False
  end.
Proof.
  intros A c npdf lse Hpdf Hlse rows0 s0. rewrite BOCD_reset_eq. cbv beta iota. split.
  - intros ops Hlt. destruct (bocd_exec_eq npdf lse c Hpdf Hlse ops) as [Hrun Hsnd]. rewrite Hrun.
    unfold ht, bocd_t. rewrite Hsnd. pose proof (proj1 (bocd_warmup A c ops Hlt)) as Hd. cbn [d_drift BOCDD] in Hd. rewrite Hd. eexists _, _, _, _, _, _. reflexivity.
  - exact (bocd_fresh npdf lse c Hpdf Hlse).
Qed.
Print Assumptions src_bocd_warmup_and_reset.
