(** Source-level tie for C04 (HDDM-A): the definitions GENERATED from statistical_process_control/hddm.py
    (`HDDMA._update` / `reset` with the Hoeffding test objects: `set_initial_cut_mean`, `update_cut_point`,
    `hoeffding_error_bound`, `check_cases`, `_check_mean_increase` / `_check_mean_decrease`, the TwoSided class
    extending the OneSided one through `super()`) equal the hand-written model [HDDM.v], in one- and two-sided mode. *)
From Coq Require Import ZArith List Bool Lia Reals.
From FV Require Import HDDMR.
From FV Require Import NumSys RealA Py Queue Stats Detector HDDM.
From FVG Require Import GSrc EqStats.
Import ListNotations.

Ltac zdec := match goal with
  | |- context [Z.eqb ?a ?b] => destruct (Z.eqb_spec a b)
  | |- context [Z.leb ?a ?b] => destruct (Z.leb_spec a b)
  | |- context [Z.ltb ?a ?b] => destruct (Z.ltb_spec a b)
  end; try lia; try (cbn -[Z.mul Z.add Z.sub] in *; lia).
Ltac bdec := match goal with |- context [if ?b then _ else _] => destruct b eqn:? end.

Section EqHDDMA.
  Context {A : Arith}.
  Variables wl dl : num A.   (* the SPC base levels the HDDM configuration also stores: never read by HDDM-A *)

  Definition hcfg_t (c : hddma_cfg A) := (ha_min c, wl, dl, ha_alpha_d c, ha_alpha_w c, ha_two c).
  Definition h1_t (c : hddma_cfg A) (s : hddma_st A) :=
    (hcfg_t c, hn s, hdrift s, (ha_alpha_d c, ha_alpha_w c, mean_t (hx s), mean_t (hz s)), hwarning s).
  Definition h2_t (c : hddma_cfg A) (s : hddma_st A) :=
    (hcfg_t c, hn s, hdrift s, (ha_alpha_d c, ha_alpha_w c, mean_t (hx s), mean_t (hz s), mean_t (hy s)), hwarning s).
  Definition h_wf (s : hddma_st A) : Prop :=
    (0 <= hn s /\ 0 <= m_n (hz s) /\ 0 <= m_n (hx s) /\ 0 <= m_n (hy s))%Z.

  (** the OneSided test object's methods, one at a time *)
  Definition t1 (ad aw : num A) (x z : mean_st A) := (ad, aw, mean_t x, mean_t z).

  Lemma T1_set_initial_eq : forall ad aw x z,
    HoeffdingOneSidedTest_set_initial_cut_mean (t1 ad aw x z) = Ok (t1 ad aw (if (m_n x =? 0)%Z then z else x) z, tt).
  Proof. intros. autounfold with gensrc. unfold t1, mean_t. cbn. destruct (m_n x =? 0)%Z; reflexivity. Qed.

  Lemma T1_update_cut_eq : forall ad aw x z eps,
    HoeffdingOneSidedTest_update_cut_point (t1 ad aw x z) eps =
      Ok (t1 ad aw (if leb (add (m_mean z) eps) (add (m_mean x) (hoeff_bound ad (m_n x))) then z else x) z, tt).
  Proof. intros. autounfold with gensrc. unfold t1, mean_t, hoeff_bound, one. cbn -[Z.mul]. bdec; reflexivity. Qed.

  Lemma T1_check_cases_eq : forall c x z, (m_n x <> 0 -> m_n z <> 0 ->
    HoeffdingOneSidedTest_check_cases (t1 (ha_alpha_d c) (ha_alpha_w c) x z) =
      Ok (t1 (ha_alpha_d c) (ha_alpha_w c) x z, side_cases (check_incr x z) (m_n x) (m_n z) c))%Z.
  Proof.
    intros c x z Hx Hz. autounfold with gensrc. unfold t1, mean_t, side_cases, check_incr, hoeff_thr, one.
    assert (Ex : (2 * m_n x * m_n z =? 0)%Z = false) by (apply Z.eqb_neq; nia).
    cbn -[Z.mul].
    destruct (Z.eqb_spec (m_n z - m_n x) 0); destruct (Z.eqb_spec (m_n x) (m_n z)); try lia; cbn -[Z.mul]; rewrite ?Ex; cbn -[Z.mul];
      [reflexivity|].
    repeat (match goal with |- context [if @leb ?B ?a ?b then _ else _] => destruct (@leb B a b) eqn:? end; cbn -[Z.mul]; rewrite ?Ex; cbn -[Z.mul]); reflexivity.
  Qed.

  Lemma T1_reset_eq : forall ad aw x z, HoeffdingOneSidedTest_reset (t1 ad aw x z) = Ok (t1 ad aw mean_init mean_init, tt).
  Proof. reflexivity. Qed.

  Ltac fold_t1 := match goal with
    | |- context [(?ad, ?aw, (m_mean ?x, m_n ?x), (m_mean ?z, m_n ?z))] =>
        change (ad, aw, (m_mean x, m_n x), (m_mean z, m_n z)) with (t1 ad aw x z)
    end.
  Ltac red1 := cbn -[HoeffdingOneSidedTest_set_initial_cut_mean HoeffdingOneSidedTest_update_cut_point HoeffdingOneSidedTest_check_cases
                     HoeffdingOneSidedTest_reset Mean_update Z.mul hddma_step mean_update hoeff_bound side_cases check_incr check_decr].

  Lemma HDDMA1_update_eq : forall c s v, ha_two c = false -> h_wf s ->
    HDDMA1__update (h1_t c s) v = Ok (h1_t c (hddma_step c s v), tt).
  Proof.
    intros c [n x z y d w] v H2 (Hn & Hz & Hx & Hy). cbn in Hn, Hz, Hx, Hy.
    unfold HDDMA1__update, h1_t, hcfg_t. cbn [hn hx hz hy hdrift hwarning]. red1.
    destruct (Z.ltb_spec (n + 1) 0); [lia|]. red1.
    change (m_mean z, m_n z) with (mean_t z). rewrite (Mean_update_eq z v Hz). red1.
    assert (Hz' : (1 <= m_n (mean_update z v))%Z) by (cbn; lia).
    remember (mean_update z v) as z' eqn:Ez'.
    unfold mean_t. fold_t1. rewrite T1_set_initial_eq. unfold t1 at 1, mean_t. red1.
    remember (if (m_n x =? 0)%Z then z' else x) as x0 eqn:Ex0.
    assert (Hx0 : m_n x0 <> 0%Z) by (subst x0; destruct (Z.eqb_spec (m_n x) 0); lia).
    fold_t1. rewrite T1_update_cut_eq. unfold t1 at 1, mean_t. red1.
    match goal with |- context [if leb ?a ?b then z' else x0] => remember (if leb a b then z' else x0) as x1 eqn:Ex1 end.
    assert (Hx1 : m_n x1 <> 0%Z) by (subst x1; match goal with |- context [if ?b then _ else _] => destruct b end; lia).
    assert (Hstep : exists y1, hddma_step c {| hn := n; hx := x; hz := z; hy := y; hdrift := d; hwarning := w |} v =
      if (ha_min c <=? n + 1)%Z then
        let '(di, wi) := side_cases (check_incr x1 z') (m_n x1) (m_n z') c in
        if di || false then {| hn := n + 1; hx := mean_init; hz := mean_init; hy := mean_init; hdrift := true; hwarning := false |}
        else {| hn := n + 1; hx := x1; hz := z'; hy := y1; hdrift := false; hwarning := wi || false |}
      else {| hn := n + 1; hx := x1; hz := z'; hy := y1; hdrift := false; hwarning := false |}).
    { exists y. unfold hddma_step. cbn [hn hx hz hy]. rewrite H2. rewrite <- Ez', <- Ex0.
      unfold hoeff_bound in Ex1 |- *. unfold one in *. rewrite <- Ex1.
      destruct (ha_min c <=? n + 1)%Z; [destruct (side_cases _ _ _ c)|]; reflexivity. }
    destruct Hstep as [y1 Hstep]. rewrite Hstep. clear Hstep.
    destruct (Z.leb (ha_min c) (n + 1)); red1; [|rewrite H2; reflexivity].
    fold_t1. rewrite (T1_check_cases_eq c x1 z' Hx1 ltac:(lia)). red1.
    destruct (side_cases (check_incr x1 z') (m_n x1) (m_n z') c) as [di wi]. red1.
    destruct di; red1.
    - fold_t1. rewrite T1_reset_eq. cbn. rewrite H2. reflexivity.
    - rewrite H2. destruct wi; reflexivity.
  Qed.

  (** the TwoSided test object's methods, one at a time (each a handful of cases) *)
  Definition t2 (ad aw : num A) (x z y : mean_st A) := (ad, aw, mean_t x, mean_t z, mean_t y).

  Lemma T2_set_initial_eq : forall ad aw x z y,
    HoeffdingTwoSidedTest_set_initial_cut_mean (t2 ad aw x z y) =
      Ok (t2 ad aw (if (m_n x =? 0)%Z then z else x) z (if (m_n y =? 0)%Z then z else y), tt).
  Proof.
    intros. autounfold with gensrc. unfold t2, mean_t.
    cbn. destruct (m_n x =? 0)%Z; cbn; destruct (m_n y =? 0)%Z; reflexivity.
  Qed.

  Lemma T2_update_cut_eq : forall ad aw x z y eps,
    HoeffdingTwoSidedTest_update_cut_point (t2 ad aw x z y) eps =
      Ok (t2 ad aw (if leb (add (m_mean z) eps) (add (m_mean x) (hoeff_bound ad (m_n x))) then z else x) z
                   (if leb (sub (m_mean y) (hoeff_bound ad (m_n y))) (sub (m_mean z) eps) then z else y), tt).
  Proof.
    intros. autounfold with gensrc. unfold t2, mean_t, hoeff_bound, one.
    cbn -[Z.mul]. repeat (bdec; cbn -[Z.mul]); reflexivity.
  Qed.

  Lemma T2_check_cases_eq : forall c x z y, (m_n x <> 0 -> m_n z <> 0 -> m_n y <> 0 ->
    HoeffdingTwoSidedTest_check_cases (t2 (ha_alpha_d c) (ha_alpha_w c) x z y) =
      Ok (t2 (ha_alpha_d c) (ha_alpha_w c) x z y,
          (let '(di, wi) := side_cases (check_incr x z) (m_n x) (m_n z) c in
           let '(dd, wd) := side_cases (check_decr y z) (m_n y) (m_n z) c in (di || dd, wi || wd))))%Z.
  Proof.
    intros c x z y Hx Hz Hy.
    autounfold with gensrc. unfold t2, mean_t,
      side_cases, check_incr, check_decr, hoeff_thr, one.
    assert (Ex : (2 * m_n x * m_n z =? 0)%Z = false) by (apply Z.eqb_neq; nia).
    assert (Ey : (2 * m_n y * m_n z =? 0)%Z = false) by (apply Z.eqb_neq; nia).
    cbn -[Z.mul].
    destruct (Z.eqb_spec (m_n z - m_n x) 0); destruct (Z.eqb_spec (m_n x) (m_n z)); try lia; cbn -[Z.mul];
      rewrite ?Ex, ?Ey; cbn -[Z.mul];
      repeat (match goal with
              | |- context [if @leb ?B ?a ?b then _ else _] => destruct (@leb B a b) eqn:?
              end; cbn -[Z.mul]; rewrite ?Ex, ?Ey; cbn -[Z.mul]);
      (destruct (Z.eqb_spec (m_n z - m_n y) 0); destruct (Z.eqb_spec (m_n y) (m_n z)); try lia; cbn -[Z.mul];
       rewrite ?Ex, ?Ey; cbn -[Z.mul];
       repeat (match goal with
               | |- context [if @leb ?B ?a ?b then _ else _] => destruct (@leb B a b) eqn:?
               end; cbn -[Z.mul]; rewrite ?Ex, ?Ey; cbn -[Z.mul]); reflexivity).
  Qed.

  Lemma T2_reset_eq : forall ad aw x z y,
    HoeffdingTwoSidedTest_reset (t2 ad aw x z y) = Ok (t2 ad aw mean_init mean_init mean_init, tt).
  Proof. reflexivity. Qed.

  Ltac fold_t2 := match goal with
    | |- context [(?ad, ?aw, (m_mean ?x, m_n ?x), (m_mean ?z, m_n ?z), (m_mean ?y, m_n ?y))] =>
        change (ad, aw, (m_mean x, m_n x), (m_mean z, m_n z), (m_mean y, m_n y)) with (t2 ad aw x z y)
    end.
  Ltac red2 := cbn -[HoeffdingTwoSidedTest_set_initial_cut_mean HoeffdingTwoSidedTest_update_cut_point HoeffdingTwoSidedTest_check_cases
                     HoeffdingTwoSidedTest_reset Mean_update Z.mul hddma_step mean_update hoeff_bound side_cases check_incr check_decr].

  Lemma HDDMA2_update_eq : forall c s v, ha_two c = true -> h_wf s ->
    HDDMA2__update (h2_t c s) v = Ok (h2_t c (hddma_step c s v), tt).
  Proof.
    intros c [n x z y d w] v H2 (Hn & Hz & Hx & Hy). cbn in Hn, Hz, Hx, Hy.
    unfold HDDMA2__update, h2_t, hcfg_t. cbn [hn hx hz hy hdrift hwarning]. red2.
    destruct (Z.ltb_spec (n + 1) 0); [lia|]. red2.
    change (m_mean z, m_n z) with (mean_t z). rewrite (Mean_update_eq z v Hz). red2.
    assert (Hz' : (1 <= m_n (mean_update z v))%Z) by (cbn; lia).
    remember (mean_update z v) as z' eqn:Ez'.
    unfold mean_t. fold_t2. rewrite T2_set_initial_eq. unfold t2 at 1, mean_t. red2.
    remember (if (m_n x =? 0)%Z then z' else x) as x0 eqn:Ex0.
    remember (if (m_n y =? 0)%Z then z' else y) as y0 eqn:Ey0.
    assert (Hx0 : m_n x0 <> 0%Z) by (subst x0; destruct (Z.eqb_spec (m_n x) 0); lia).
    assert (Hy0 : m_n y0 <> 0%Z) by (subst y0; destruct (Z.eqb_spec (m_n y) 0); lia).
    fold_t2. rewrite T2_update_cut_eq. unfold t2 at 1, mean_t. red2.
    match goal with |- context [if leb ?a ?b then z' else x0] => remember (if leb a b then z' else x0) as x1 eqn:Ex1 end.
    match goal with |- context [if leb ?a ?b then z' else y0] => remember (if leb a b then z' else y0) as y1 eqn:Ey1 end.
    assert (Hx1 : m_n x1 <> 0%Z) by (subst x1; match goal with |- context [if ?b then _ else _] => destruct b end; lia).
    assert (Hy1 : m_n y1 <> 0%Z) by (subst y1; match goal with |- context [if ?b then _ else _] => destruct b end; lia).
    assert (Hstep : hddma_step c {| hn := n; hx := x; hz := z; hy := y; hdrift := d; hwarning := w |} v =
      if (ha_min c <=? n + 1)%Z then
        let '(di, wi) := side_cases (check_incr x1 z') (m_n x1) (m_n z') c in
        let '(dd, wd) := side_cases (check_decr y1 z') (m_n y1) (m_n z') c in
        if di || dd then {| hn := n + 1; hx := mean_init; hz := mean_init; hy := mean_init; hdrift := true; hwarning := false |}
        else {| hn := n + 1; hx := x1; hz := z'; hy := y1; hdrift := false; hwarning := wi || wd |}
      else {| hn := n + 1; hx := x1; hz := z'; hy := y1; hdrift := false; hwarning := false |}).
    { unfold hddma_step. cbn [hn hx hz hy]. rewrite H2. rewrite <- Ez', <- Ex0, <- Ey0.
      unfold hoeff_bound in Ex1, Ey1 |- *. unfold one in *. rewrite <- Ex1, <- Ey1. reflexivity. }
    rewrite Hstep. clear Hstep.
    destruct (Z.leb (ha_min c) (n + 1)); red2; [|rewrite H2; reflexivity].
    fold_t2. rewrite (T2_check_cases_eq c x1 z' y1 Hx1 ltac:(lia) Hy1). red2.
    destruct (side_cases (check_incr x1 z') (m_n x1) (m_n z') c) as [di wi].
    destruct (side_cases (check_decr y1 z') (m_n y1) (m_n z') c) as [dd wd]. red2.
    destruct (di || dd); red2.
    - fold_t2. rewrite T2_reset_eq. cbn. rewrite H2. reflexivity.
    - rewrite H2. destruct (wi || wd); reflexivity.
  Qed.

  (** reset(): BaseSPC.reset, BaseConceptDrift.reset and the test object's reset() -- the model's initial state *)
  Lemma HDDMA1_reset_eq : forall c s, HDDMA1_reset (h1_t c s) = Ok (h1_t c (hddma_init c), tt).
  Proof. reflexivity. Qed.
  Lemma HDDMA2_reset_eq : forall c s, HDDMA2_reset (h2_t c s) = Ok (h2_t c (hddma_init c), tt).
  Proof. reflexivity. Qed.

  Lemma h_wf_init : forall c, h_wf (hddma_init c).
  Proof. intros c. unfold h_wf. cbn. lia. Qed.
  Lemma h_wf_step : forall c s v, h_wf s -> h_wf (hddma_step c s v).
  Proof.
    intros c [n x z y d w] v (Hn & Hz & Hx & Hy). cbn in *. unfold h_wf, hddma_step, side_cases, mean_update, mean_init. cbn.
    repeat match goal with |- context [if ?b then _ else _] => destruct b end; cbn; lia.
  Qed.

  (** runs of the generated update, started from what the generated reset() leaves, are the model's runs *)
  Lemma g_h1_run_eq : forall c vs s, ha_two c = false -> h_wf s ->
    g_run HDDMA1__update (h1_t c s) vs = Ok (h1_t c (fold_left (hddma_step c) vs s)).
  Proof.
    intros c vs. induction vs as [|v r IH]; intros s H2 Hw; [reflexivity|]. cbn [g_run fold_left].
    rewrite HDDMA1_update_eq by assumption. apply IH; [assumption | apply h_wf_step; assumption].
  Qed.
  Lemma g_h2_run_eq : forall c vs s, ha_two c = true -> h_wf s ->
    g_run HDDMA2__update (h2_t c s) vs = Ok (h2_t c (fold_left (hddma_step c) vs s)).
  Proof.
    intros c vs. induction vs as [|v r IH]; intros s H2 Hw; [reflexivity|]. cbn [g_run fold_left].
    rewrite HDDMA2_update_eq by assumption. apply IH; [assumption | apply h_wf_step; assumption].
  Qed.
End EqHDDMA.

(** Every theorem of C04 about [arun] (state meaning, verdict <-> two-sample Hoeffding bound, one-sided alarms are
    two-sided alarms up to the first alarm, rise / drop detection delay) is a theorem about the code generated from
    the source: for EVERY number system, reset() followed by any stream of updates never raises and ends in the
    state [arun c vs] (one-sided layout: without the decrease cut sample). *)
Theorem src_hddma_one_sided_run : forall (A : Arith) (wl dl : num A) (c : hddma_cfg A) (s0 : hddma_st A) (vs : list (num A)),
  ha_two c = false ->
  match HDDMA1_reset (h1_t wl dl c s0) with
  | Ok (s1, _) => g_run HDDMA1__update s1 vs = Ok (h1_t wl dl c (arun c vs))
  | Raise _ => False end.
Proof. intros. rewrite HDDMA1_reset_eq. cbv beta iota. apply g_h1_run_eq; [assumption | apply h_wf_init]. Qed.
Theorem src_hddma_two_sided_run : forall (A : Arith) (wl dl : num A) (c : hddma_cfg A) (s0 : hddma_st A) (vs : list (num A)),
  ha_two c = true ->
  match HDDMA2_reset (h2_t wl dl c s0) with
  | Ok (s1, _) => g_run HDDMA2__update s1 vs = Ok (h2_t wl dl c (arun c vs))
  | Raise _ => False end.
Proof. intros. rewrite HDDMA2_reset_eq. cbv beta iota. apply g_h2_run_eq; [assumption | apply h_wf_init]. Qed.

(** C04's mirror clause over the generated code: the two-sided verdicts are unchanged under x -> 1 - x (over R). *)
Theorem src_hddma_mirror : forall (wl dl : R) (c : hddma_cfg RealA) (s0 : hddma_st RealA) (vs : list R), ha_two c = true ->
  match HDDMA2_reset (h2_t wl dl c s0) with
  | Ok (s1, _) =>
    exists sa sb, g_run HDDMA2__update s1 vs = Ok (h2_t wl dl c sa) /\ g_run HDDMA2__update s1 (map (fun x => (1 - x)%R) vs) = Ok (h2_t wl dl c sb) /\ hdrift sb = hdrift sa /\ hwarning sb = hwarning sa
  | Raise _ => False end.
Proof.
  intros wl dl c s0 vs H2. rewrite HDDMA2_reset_eq. cbv beta iota.
  exists (arun c vs), (arun c (map (fun x => (1 - x)%R) vs)).
  split; [apply g_h2_run_eq; [assumption | apply h_wf_init]|].
  split; [apply g_h2_run_eq; [assumption | apply h_wf_init]|].
  apply hddma_mirror. assumption.
Qed.
Print Assumptions src_hddma_one_sided_run.
Print Assumptions src_hddma_mirror.
