(** Source-level tie for C01 / C02 over HISTORIES: a history is any interleaving of `update(v)` and `reset()` calls on one
    object ([g_exec], run on the definitions GENERATED from the source).  For every translated detector the generated
    history run equals the model's [exec]; hence (a) C01's constant-stream clause and (b) C02's "reset() = fresh
    instance" clause hold of the generated code, for every history. *)
From Coq Require Import ZArith List Bool Lia Reals Lra.
From FV Require Import NumSys RealA Py NumX Sums Queue Stats Detector Cusum SPC HDDM QueueRef StatsR SPCSpec SPCR RDDMR HDDMR CusumR ConstantR.
From FVG Require Import GSrc EqStats EqCusum EqSPC EqHDDM EqHDDMW EqRDDM.
Import ListNotations.

Lemma const_ops_in : forall {V} (k : V) (P : V -> Prop) ops, P k -> const_ops k ops -> ops_in P ops.
Proof.
  intros V k P ops Hk Hc v Hv. unfold const_ops in Hc. rewrite Forall_forall in Hc.
  destruct (Hc _ Hv) as [H|H]; [discriminate|]. injection H as ->. exact Hk.
Qed.

Definition nonneg (v : R) : Prop := (0 <= v)%R.
Lemma const01_nonneg : forall (k : R) ops, (k = 0 \/ k = 1)%R -> const_ops k ops -> ops_in nonneg ops.
Proof. intros k ops Hk Hc. apply (const_ops_in k); [|exact Hc]. unfold nonneg. destruct Hk as [-> | ->]; lra. Qed.

(** * DDM *)
Lemma ddm_exec_eq : forall (c : ddm_cfg RealA) ops, ops_in nonneg ops ->
  g_exec DDM__update DDM_reset (ddm_t c (ddm_init c)) ops = Ok (ddm_t c (exec (DDMD RealA) c ops)).
Proof.
  intros c ops Hp.
  exact (g_exec_pre _ _ _ (ddm_step c) (ddm_init c) (ddm_t c) DDM__update DDM_reset nonneg
           (fun vs pre H => g_ddm_run_eq c vs pre H) (fun pre _ => DDM_reset_eq c _) ops Hp).
Qed.

Theorem src_ddm_constant : forall (c : ddm_cfg RealA) (s0 : ddm_st RealA) (k : R) ops,
  (k = 0 \/ k = 1)%R -> (0 < dd_warn c)%R -> (0 < dd_drift c)%R -> const_ops k ops ->
  match DDM_reset (ddm_t c s0) with
  | Ok (s1, _) => exists n er mer msd, g_exec DDM__update DDM_reset s1 ops = Ok (ddm_cfg_t c, n, false, er, mer, msd, false)
  | Raise _ => False
  end.
Proof.
  intros c s0 k ops Hk Hw Hd Hc. rewrite DDM_reset_eq. cbv beta iota.
  rewrite (ddm_exec_eq c ops (const01_nonneg k ops Hk Hc)).
  destruct (ddm_constant c k ops Hk Hw Hd Hc) as [H1 H2]. unfold ddm_t. rewrite H1, H2. eexists _, _, _, _. reflexivity.
Qed.
Print Assumptions src_ddm_constant.

Theorem src_ddm_reset_fresh : forall (c : ddm_cfg RealA) ops1 ops2, ops_in nonneg ops1 -> ops_in nonneg ops2 ->
  g_exec DDM__update DDM_reset (ddm_t c (ddm_init c)) (ops1 ++ Rst :: ops2) =
  g_exec DDM__update DDM_reset (ddm_t c (ddm_init c)) ops2.
Proof.
  intros c.
  exact (g_exec_pre_fresh _ _ _ (ddm_step c) (ddm_init c) (ddm_t c) DDM__update DDM_reset nonneg
           (fun vs pre H => g_ddm_run_eq c vs pre H) (fun pre _ => DDM_reset_eq c _)).
Qed.

(** * RDDM *)
Section ExecRDDM.
  Variable c : rddm_cfg RealA.
  Hypothesis HM : (1 <= rd_min_concept c)%Z.
  Lemma rddm_rst_pre : forall pre, (forall v, In v pre -> nonneg v) -> RDDM_reset (rddm_t c (rddm_run c pre)) = Ok (rddm_t c (rddm_init c), tt).
  Proof.
    intros pre _. apply RDDM_reset_eq. destruct (rddm_run_RInv c pre HM) as (k & j & _ & _ & _ & Hrel).
    destruct Hrel as (_ & Hm & _). exact Hm.
  Qed.
  Lemma rddm_exec_eq : forall ops, ops_in nonneg ops ->
    g_exec RDDM__update RDDM_reset (rddm_t c (rddm_init c)) ops = Ok (rddm_t c (exec (RDDMD RealA) c ops)).
  Proof.
    intros ops Hp.
    exact (g_exec_pre _ _ _ (rddm_step c) (rddm_init c) (rddm_t c) RDDM__update RDDM_reset nonneg
             (fun vs pre H => g_rddm_run_eq c vs pre HM H) rddm_rst_pre ops Hp).
  Qed.
  Lemma rddm_fresh : forall ops1 ops2, ops_in nonneg ops1 -> ops_in nonneg ops2 ->
    g_exec RDDM__update RDDM_reset (rddm_t c (rddm_init c)) (ops1 ++ Rst :: ops2) =
    g_exec RDDM__update RDDM_reset (rddm_t c (rddm_init c)) ops2.
  Proof.
    exact (g_exec_pre_fresh _ _ _ (rddm_step c) (rddm_init c) (rddm_t c) RDDM__update RDDM_reset nonneg
             (fun vs pre H => g_rddm_run_eq c vs pre HM H) rddm_rst_pre).
  Qed.
End ExecRDDM.

Theorem src_rddm_constant : forall (c : rddm_cfg RealA) (s0 : rddm_st RealA) (k : R) ops,
  (k = 0 \/ k = 1)%R -> (0 < rd_warn c)%R -> (0 < rd_drift c)%R -> (1 <= rd_min_concept c)%Z ->
  q_max (rpred s0) = rd_min_concept c -> const_ops k ops ->
  match RDDM_reset (rddm_t c s0) with
  | Ok (s1, _) => exists n er mer msd nw fl q,
      g_exec RDDM__update RDDM_reset s1 ops = Ok (rcfg_t c, n, false, er, mer, msd, false, nw, fl, q)
  | Raise _ => False
  end.
Proof.
  intros c s0 k ops Hk Hw Hd HM Hq Hc. rewrite (RDDM_reset_eq c s0 Hq). cbv beta iota.
  rewrite (rddm_exec_eq c HM ops (const01_nonneg k ops Hk Hc)).
  destruct (rddm_constant c k ops Hk Hw Hd HM Hc) as [H1 H2]. unfold rddm_t. rewrite H1, H2. eexists _, _, _, _, _, _, _. reflexivity.
Qed.
Print Assumptions src_rddm_constant.

Theorem src_rddm_reset_fresh : forall (c : rddm_cfg RealA) ops1 ops2, (1 <= rd_min_concept c)%Z ->
  ops_in nonneg ops1 -> ops_in nonneg ops2 ->
  g_exec RDDM__update RDDM_reset (rddm_t c (rddm_init c)) (ops1 ++ Rst :: ops2) =
  g_exec RDDM__update RDDM_reset (rddm_t c (rddm_init c)) ops2.
Proof. intros c ops1 ops2 HM. exact (rddm_fresh c HM ops1 ops2). Qed.

(** * ECDD-WT *)
Lemma lam01_bool : forall l : R, (0 <= l <= 1)%R -> @leb RealA (@ofZ RealA 0) l && @leb RealA l (@ofZ RealA 1) = true.
Proof. intros l [H0 H1]. cbn. apply andb_true_intro. split; apply Rleb_true; assumption. Qed.

Section ExecECDD.
  Variable c : ecdd_cfg RealA.
  Hypothesis Hl : (0 <= ec_lambda c <= 1)%R.
  Lemma ecdd_exec_eq : forall ops,
    g_exec ECDDWT__update ECDDWT_reset (ecdd_t c (ecdd_init c)) ops = Ok (ecdd_t c (exec (ECDDD RealA) c ops)).
  Proof.
    intros ops.
    exact (g_exec_pre _ _ _ (ecdd_step c) (ecdd_init c) (ecdd_t c) ECDDWT__update ECDDWT_reset anyv
             (fun vs pre _ => g_ecdd_run_eq c vs pre) (fun pre _ => ECDD_reset_eq c _ (lam01_bool _ Hl)) ops (ops_any ops)).
  Qed.
  Lemma ecdd_fresh : forall ops1 ops2,
    g_exec ECDDWT__update ECDDWT_reset (ecdd_t c (ecdd_init c)) (ops1 ++ Rst :: ops2) =
    g_exec ECDDWT__update ECDDWT_reset (ecdd_t c (ecdd_init c)) ops2.
  Proof.
    intros ops1 ops2.
    exact (g_exec_pre_fresh _ _ _ (ecdd_step c) (ecdd_init c) (ecdd_t c) ECDDWT__update ECDDWT_reset anyv
             (fun vs pre _ => g_ecdd_run_eq c vs pre) (fun pre _ => ECDD_reset_eq c _ (lam01_bool _ Hl)) ops1 ops2 (ops_any _) (ops_any _)).
  Qed.
End ExecECDD.

Theorem src_ecdd_constant : forall (c : ecdd_cfg RealA) (s0 : ecdd_st RealA) (k : R) ops,
  (k = 0 \/ k = 1)%R -> (0 <= ec_lambda c <= 1)%R -> (0 < ec_warn c)%R -> const_ops k ops ->
  match ECDDWT_reset (ecdd_t c s0) with
  | Ok (s1, _) => exists n p z l2, g_exec ECDDWT__update ECDDWT_reset s1 ops = Ok (ecdd_cfg_t c, n, false, p, z, false, l2)
  | Raise _ => False
  end.
Proof.
  intros c s0 k ops Hk Hl Hw Hc. rewrite (ECDD_reset_eq c s0 (lam01_bool _ Hl)). cbv beta iota.
  rewrite (ecdd_exec_eq c Hl ops).
  destruct (ecdd_constant c k ops Hk Hl Hw Hc) as [H1 H2]. unfold ecdd_t. rewrite H1, H2. eexists _, _, _, _. reflexivity.
Qed.
Print Assumptions src_ecdd_constant.

Theorem src_ecdd_reset_fresh : forall (c : ecdd_cfg RealA) ops1 ops2, (0 <= ec_lambda c <= 1)%R ->
  g_exec ECDDWT__update ECDDWT_reset (ecdd_t c (ecdd_init c)) (ops1 ++ Rst :: ops2) =
  g_exec ECDDWT__update ECDDWT_reset (ecdd_t c (ecdd_init c)) ops2.
Proof. intros c ops1 ops2 Hl. exact (ecdd_fresh c Hl ops1 ops2). Qed.

(** * EDDM *)
Section ExecEDDM.
  Variables (c0 : Z) (wl dl : R) (c : eddm_cfg RealA).
  Lemma eddm_rst_pre : forall s, EDDM_reset (eddm_t c0 wl dl c s) = Ok (eddm_t c0 wl dl c (eddm_init c), tt).
  Proof. intros s. apply EDDM_reset_eq. cbn. apply Rltb_false. lra. Qed.
  Lemma eddm_exec_eq : forall ops,
    g_exec EDDM__update EDDM_reset (eddm_t c0 wl dl c (eddm_init c)) ops = Ok (eddm_t c0 wl dl c (exec (EDDMD RealA) c ops)).
  Proof.
    intros ops.
    exact (g_exec_pre _ _ _ (eddm_step c) (eddm_init c) (eddm_t c0 wl dl c) EDDM__update EDDM_reset anyv
             (fun vs pre _ => g_eddm_run_eq c0 wl dl c vs pre) (fun pre _ => eddm_rst_pre _) ops (ops_any ops)).
  Qed.
  Lemma eddm_fresh : forall ops1 ops2,
    g_exec EDDM__update EDDM_reset (eddm_t c0 wl dl c (eddm_init c)) (ops1 ++ Rst :: ops2) =
    g_exec EDDM__update EDDM_reset (eddm_t c0 wl dl c (eddm_init c)) ops2.
  Proof.
    intros ops1 ops2.
    exact (g_exec_pre_fresh _ _ _ (eddm_step c) (eddm_init c) (eddm_t c0 wl dl c) EDDM__update EDDM_reset anyv
             (fun vs pre _ => g_eddm_run_eq c0 wl dl c vs pre) (fun pre _ => eddm_rst_pre _) ops1 ops2 (ops_any _) (ops_any _)).
  Qed.
End ExecEDDM.

Theorem src_eddm_constant : forall c0 (wl dl : R) (c : eddm_cfg RealA) (s0 : eddm_st RealA) (k : R) ops,
  (k = 0 \/ k = 1)%R -> (0 < ed_beta c)%R -> (ed_beta c < ed_alpha c)%R -> (ed_alpha c <= 1)%R -> (0 < ed_level c)%R ->
  const_ops k ops ->
  match EDDM_reset (eddm_t c0 wl dl c s0) with
  | Ok (s1, _) => exists n last mx mean nm old sd var,
      g_exec EDDM__update EDDM_reset s1 ops = Ok (eddm_cfg_t c0 wl dl c, n, false, last, mx, mean, nm, old, sd, var, false)
  | Raise _ => False
  end.
Proof.
  intros c0 wl dl c s0 k ops Hk Hb Hba Ha Hl Hc. rewrite eddm_rst_pre. cbv beta iota.
  rewrite (eddm_exec_eq c0 wl dl c ops).
  destruct (eddm_constant c k ops Hk Hb Hba Ha Hl Hc) as [H1 H2]. unfold eddm_t. rewrite H1, H2.
  eexists _, _, _, _, _, _, _, _. reflexivity.
Qed.
Print Assumptions src_eddm_constant.

Theorem src_eddm_reset_fresh : forall c0 (wl dl : R) (c : eddm_cfg RealA) ops1 ops2,
  g_exec EDDM__update EDDM_reset (eddm_t c0 wl dl c (eddm_init c)) (ops1 ++ Rst :: ops2) =
  g_exec EDDM__update EDDM_reset (eddm_t c0 wl dl c (eddm_init c)) ops2.
Proof. exact eddm_fresh. Qed.

(** * CUSUM, Page-Hinkley, geometric moving average (any real stream) *)
Section ExecCusum.
  Variable c : cusum_cfg RealA.
  Lemma cusum_exec_eq : forall ops, ck_kind c = KCusum ->
    g_exec CUSUM__update CUSUM_reset (st_t (cfg_cusum c) (cusum_init c)) ops = Ok (st_t (cfg_cusum c) (exec (CusumD RealA) c ops)).
  Proof.
    intros ops Hk.
    exact (proj1 (g_exec_from _ _ _ (cusum_step c) (cusum_init c) (st_t (cfg_cusum c)) CUSUM__update CUSUM_reset st_wf anyv
             (init_wf c) (fun s v H _ => step_wf c s v H) (fun s v H _ => CUSUM_update_eq c s v Hk H) (fun s _ => CUSUM_reset_eq c s)
             ops _ (init_wf c) (ops_any ops))).
  Qed.
  Lemma ph_exec_eq : forall ops, ck_kind c = KPageHinkley ->
    g_exec PageHinkley__update PageHinkley_reset (st_t (cfg_ph c) (cusum_init c)) ops = Ok (st_t (cfg_ph c) (exec (CusumD RealA) c ops)).
  Proof.
    intros ops Hk.
    exact (proj1 (g_exec_from _ _ _ (cusum_step c) (cusum_init c) (st_t (cfg_ph c)) PageHinkley__update PageHinkley_reset st_wf anyv
             (init_wf c) (fun s v H _ => step_wf c s v H) (fun s v H _ => PH_update_eq c s v Hk H) (fun s _ => PH_reset_eq c s)
             ops _ (init_wf c) (ops_any ops))).
  Qed.
  Lemma gma_exec_eq : forall ops, ck_kind c = KGMA ->
    g_exec GeometricMovingAverage__update GeometricMovingAverage_reset (st_t (cfg_gma c) (cusum_init c)) ops =
      Ok (st_t (cfg_gma c) (exec (CusumD RealA) c ops)).
  Proof.
    intros ops Hk.
    exact (proj1 (g_exec_from _ _ _ (cusum_step c) (cusum_init c) (st_t (cfg_gma c)) GeometricMovingAverage__update GeometricMovingAverage_reset st_wf anyv
             (init_wf c) (fun s v H _ => step_wf c s v H) (fun s v H _ => GMA_update_eq c s v Hk H) (fun s _ => GMA_reset_eq c s)
             ops _ (init_wf c) (ops_any ops))).
  Qed.
End ExecCusum.

(** C01 (constant streams, any resets interleaved) over the generated CUSUM family: the drift slot stays False *)
Theorem src_cusum_family_constant : forall (c : cusum_cfg RealA) (s0 : cusum_st RealA) (k : R) ops,
  (0 <= ck_delta c)%R -> (0 <= ck_lambda c)%R -> (0 <= ck_alpha c <= 1)%R -> const_ops k ops ->
  (ck_kind c = KCusum ->
     match CUSUM_reset (st_t (cfg_cusum c) s0) with
     | Ok (s1, _) => exists n m g, g_exec CUSUM__update CUSUM_reset s1 ops = Ok (cfg_cusum c, n, false, m, g) | Raise _ => False end) /\
  (ck_kind c = KPageHinkley ->
     match PageHinkley_reset (st_t (cfg_ph c) s0) with
     | Ok (s1, _) => exists n m g, g_exec PageHinkley__update PageHinkley_reset s1 ops = Ok (cfg_ph c, n, false, m, g) | Raise _ => False end) /\
  (ck_kind c = KGMA ->
     match GeometricMovingAverage_reset (st_t (cfg_gma c) s0) with
     | Ok (s1, _) => exists n m g, g_exec GeometricMovingAverage__update GeometricMovingAverage_reset s1 ops = Ok (cfg_gma c, n, false, m, g)
     | Raise _ => False end).
Proof.
  intros c s0 k ops Hd Hl Ha Hc. pose proof (cusum_constant c k ops Hd Hl Ha Hc) as Hdr.
  repeat split; intros Hk.
  - rewrite CUSUM_reset_eq. cbv beta iota. rewrite (cusum_exec_eq c ops Hk). unfold st_t. rewrite Hdr. eexists _, _, _. reflexivity.
  - rewrite PH_reset_eq. cbv beta iota. rewrite (ph_exec_eq c ops Hk). unfold st_t. rewrite Hdr. eexists _, _, _. reflexivity.
  - rewrite GMA_reset_eq. cbv beta iota. rewrite (gma_exec_eq c ops Hk). unfold st_t. rewrite Hdr. eexists _, _, _. reflexivity.
Qed.
Print Assumptions src_cusum_family_constant.

(** * HDDM-A (both layouts) *)
Section ExecHDDMA.
  Variables (wl dl : R) (c : hddma_cfg RealA).
  Lemma h1_exec_eq : forall ops, ha_two c = false ->
    g_exec HDDMA1__update HDDMA1_reset (h1_t wl dl c (hddma_init c)) ops = Ok (h1_t wl dl c (exec (HDDMAD RealA) c ops)).
  Proof.
    intros ops H2.
    exact (proj1 (g_exec_from _ _ _ (hddma_step c) (hddma_init c) (h1_t wl dl c) HDDMA1__update HDDMA1_reset h_wf anyv
             (h_wf_init c) (fun s v H _ => h_wf_step c s v H) (fun s v H _ => HDDMA1_update_eq wl dl c s v H2 H) (fun s _ => HDDMA1_reset_eq wl dl c s)
             ops _ (h_wf_init c) (ops_any ops))).
  Qed.
  Lemma h2_exec_eq : forall ops, ha_two c = true ->
    g_exec HDDMA2__update HDDMA2_reset (h2_t wl dl c (hddma_init c)) ops = Ok (h2_t wl dl c (exec (HDDMAD RealA) c ops)).
  Proof.
    intros ops H2.
    exact (proj1 (g_exec_from _ _ _ (hddma_step c) (hddma_init c) (h2_t wl dl c) HDDMA2__update HDDMA2_reset h_wf anyv
             (h_wf_init c) (fun s v H _ => h_wf_step c s v H) (fun s v H _ => HDDMA2_update_eq wl dl c s v H2 H) (fun s _ => HDDMA2_reset_eq wl dl c s)
             ops _ (h_wf_init c) (ops_any ops))).
  Qed.
End ExecHDDMA.

Theorem src_hddma_constant : forall (wl dl : R) (c : hddma_cfg RealA) (s0 : hddma_st RealA) (k : R) ops,
  (0 < ha_alpha_d c <= 1)%R -> (0 < ha_alpha_w c <= 1)%R -> const_ops k ops ->
  (ha_two c = false ->
     match HDDMA1_reset (h1_t wl dl c s0) with
     | Ok (s1, _) => exists n tt_, g_exec HDDMA1__update HDDMA1_reset s1 ops = Ok (hcfg_t wl dl c, n, false, tt_, false) | Raise _ => False end) /\
  (ha_two c = true ->
     match HDDMA2_reset (h2_t wl dl c s0) with
     | Ok (s1, _) => exists n tt_, g_exec HDDMA2__update HDDMA2_reset s1 ops = Ok (hcfg_t wl dl c, n, false, tt_, false) | Raise _ => False end).
Proof.
  intros wl dl c s0 k ops Hd Hw Hc. destruct (hddma_constant c k ops Hd Hw Hc) as [H1 H2].
  split; intros Ht.
  - rewrite HDDMA1_reset_eq. cbv beta iota. rewrite (h1_exec_eq wl dl c ops Ht). unfold h1_t. rewrite H1, H2. eexists _, _. reflexivity.
  - rewrite HDDMA2_reset_eq. cbv beta iota. rewrite (h2_exec_eq wl dl c ops Ht). unfold h2_t. rewrite H1, H2. eexists _, _. reflexivity.
Qed.
Print Assumptions src_hddma_constant.

(** * HDDM-W (both layouts); the constant-stream clause is proved for the constant 0 only (known finding F05: a
      constant c > 0 does raise an alarm -- the EWMA statistics start at 0) *)
Section ExecHDDMW.
  Variables (wl dl : R) (c : hddmw_cfg RealA).
  Hypothesis Hl : lam_ok (hw_lambda c).
  Definition wn_ok (s : hddmw_st RealA) : Prop := (0 <= wn s)%Z.
  Lemma wn_step : forall s v, wn_ok s -> wn_ok (hddmw_step c s v).
  Proof.
    intros s v H. unfold wn_ok in *. unfold hddmw_step. repeat match goal with |- context [if ?b then _ else _] => destruct b end;
      repeat match goal with |- context [let '(_, _) := ?x in _] => destruct x end; cbn; lia.
  Qed.
  Lemma wn_init : wn_ok (hddmw_init c).
  Proof. unfold wn_ok. cbn. lia. Qed.
  Lemma hw1_exec_eq : forall ops, hw_two c = false ->
    g_exec HDDMW1__update HDDMW1_reset (hw1_t wl dl c (hddmw_init c)) ops = Ok (hw1_t wl dl c (exec (HDDMWD RealA) c ops)).
  Proof.
    intros ops H2.
    exact (proj1 (g_exec_from _ _ _ (hddmw_step c) (hddmw_init c) (hw1_t wl dl c) HDDMW1__update HDDMW1_reset wn_ok anyv
             wn_init (fun s v H _ => wn_step s v H) (fun s v H _ => HDDMW1_update_eq wl dl c s v H2 Hl H) (fun s _ => HDDMW1_reset_eq wl dl c s Hl)
             ops _ wn_init (ops_any ops))).
  Qed.
  Lemma hw2_exec_eq : forall ops, hw_two c = true ->
    g_exec HDDMW2__update HDDMW2_reset (hw2_t wl dl c (hddmw_init c)) ops = Ok (hw2_t wl dl c (exec (HDDMWD RealA) c ops)).
  Proof.
    intros ops H2.
    exact (proj1 (g_exec_from _ _ _ (hddmw_step c) (hddmw_init c) (hw2_t wl dl c) HDDMW2__update HDDMW2_reset wn_ok anyv
             wn_init (fun s v H _ => wn_step s v H) (fun s v H _ => HDDMW2_update_eq wl dl c s v H2 Hl H) (fun s _ => HDDMW2_reset_eq wl dl c s Hl)
             ops _ wn_init (ops_any ops))).
  Qed.
End ExecHDDMW.

Theorem src_hddmw_constant_zero_partial : forall (wl dl : R) (c : hddmw_cfg RealA) (s0 : hddmw_st RealA) ops,
  (0 < hw_alpha_d c <= 1)%R -> (0 < hw_alpha_w c <= 1)%R -> (0 <= hw_lambda c <= 1)%R -> const_ops 0%R ops ->
  (hw_two c = false ->
     match HDDMW1_reset (hw1_t wl dl c s0) with
     | Ok (s1, _) => exists n tt_, g_exec HDDMW1__update HDDMW1_reset s1 ops = Ok (wcfg_t wl dl c, n, false, tt_, false) | Raise _ => False end) /\
  (hw_two c = true ->
     match HDDMW2_reset (hw2_t wl dl c s0) with
     | Ok (s1, _) => exists n tt_, g_exec HDDMW2__update HDDMW2_reset s1 ops = Ok (wcfg_t wl dl c, n, false, tt_, false) | Raise _ => False end).
Proof.
  intros wl dl c s0 ops Hd Hw Hl Hc. destruct (hddmw_constant_zero c ops Hd Hw Hl Hc) as [H1 H2].
  pose proof (lam01_bool _ Hl) as Hlb.
  split; intros Ht.
  - rewrite (HDDMW1_reset_eq wl dl c s0 Hlb). cbv beta iota. rewrite (hw1_exec_eq wl dl c Hlb ops Ht). unfold hw1_t. rewrite H1, H2. eexists _, _. reflexivity.
  - rewrite (HDDMW2_reset_eq wl dl c s0 Hlb). cbv beta iota. rewrite (hw2_exec_eq wl dl c Hlb ops Ht). unfold hw2_t. rewrite H1, H2. eexists _, _. reflexivity.
Qed.
Print Assumptions src_hddmw_constant_zero_partial.

(** * C02 over histories for the remaining translated detectors: `reset()` = where a fresh history starts *)
Theorem src_cusum_family_reset_fresh : forall (c : cusum_cfg RealA) ops1 ops2,
  (ck_kind c = KCusum ->
     g_exec CUSUM__update CUSUM_reset (st_t (cfg_cusum c) (cusum_init c)) (ops1 ++ Rst :: ops2) =
     g_exec CUSUM__update CUSUM_reset (st_t (cfg_cusum c) (cusum_init c)) ops2) /\
  (ck_kind c = KPageHinkley ->
     g_exec PageHinkley__update PageHinkley_reset (st_t (cfg_ph c) (cusum_init c)) (ops1 ++ Rst :: ops2) =
     g_exec PageHinkley__update PageHinkley_reset (st_t (cfg_ph c) (cusum_init c)) ops2) /\
  (ck_kind c = KGMA ->
     g_exec GeometricMovingAverage__update GeometricMovingAverage_reset (st_t (cfg_gma c) (cusum_init c)) (ops1 ++ Rst :: ops2) =
     g_exec GeometricMovingAverage__update GeometricMovingAverage_reset (st_t (cfg_gma c) (cusum_init c)) ops2).
Proof.
  intros c ops1 ops2. repeat split; intros Hk.
  - exact (g_exec_reset_fresh _ _ _ (cusum_step c) (cusum_init c) (st_t (cfg_cusum c)) CUSUM__update CUSUM_reset st_wf anyv
             (init_wf c) (fun s v H _ => step_wf c s v H) (fun s v H _ => CUSUM_update_eq c s v Hk H) (fun s _ => CUSUM_reset_eq c s)
             ops1 ops2 (ops_any _) (ops_any _)).
  - exact (g_exec_reset_fresh _ _ _ (cusum_step c) (cusum_init c) (st_t (cfg_ph c)) PageHinkley__update PageHinkley_reset st_wf anyv
             (init_wf c) (fun s v H _ => step_wf c s v H) (fun s v H _ => PH_update_eq c s v Hk H) (fun s _ => PH_reset_eq c s)
             ops1 ops2 (ops_any _) (ops_any _)).
  - exact (g_exec_reset_fresh _ _ _ (cusum_step c) (cusum_init c) (st_t (cfg_gma c)) GeometricMovingAverage__update GeometricMovingAverage_reset st_wf anyv
             (init_wf c) (fun s v H _ => step_wf c s v H) (fun s v H _ => GMA_update_eq c s v Hk H) (fun s _ => GMA_reset_eq c s)
             ops1 ops2 (ops_any _) (ops_any _)).
Qed.

Theorem src_hddma_reset_fresh : forall (wl dl : R) (c : hddma_cfg RealA) ops1 ops2,
  (ha_two c = false ->
     g_exec HDDMA1__update HDDMA1_reset (h1_t wl dl c (hddma_init c)) (ops1 ++ Rst :: ops2) =
     g_exec HDDMA1__update HDDMA1_reset (h1_t wl dl c (hddma_init c)) ops2) /\
  (ha_two c = true ->
     g_exec HDDMA2__update HDDMA2_reset (h2_t wl dl c (hddma_init c)) (ops1 ++ Rst :: ops2) =
     g_exec HDDMA2__update HDDMA2_reset (h2_t wl dl c (hddma_init c)) ops2).
Proof.
  intros wl dl c ops1 ops2. split; intros H2.
  - exact (g_exec_reset_fresh _ _ _ (hddma_step c) (hddma_init c) (h1_t wl dl c) HDDMA1__update HDDMA1_reset h_wf anyv
             (h_wf_init c) (fun s v H _ => h_wf_step c s v H) (fun s v H _ => HDDMA1_update_eq wl dl c s v H2 H) (fun s _ => HDDMA1_reset_eq wl dl c s)
             ops1 ops2 (ops_any _) (ops_any _)).
  - exact (g_exec_reset_fresh _ _ _ (hddma_step c) (hddma_init c) (h2_t wl dl c) HDDMA2__update HDDMA2_reset h_wf anyv
             (h_wf_init c) (fun s v H _ => h_wf_step c s v H) (fun s v H _ => HDDMA2_update_eq wl dl c s v H2 H) (fun s _ => HDDMA2_reset_eq wl dl c s)
             ops1 ops2 (ops_any _) (ops_any _)).
Qed.

Theorem src_hddmw_reset_fresh : forall (wl dl : R) (c : hddmw_cfg RealA) ops1 ops2, (0 <= hw_lambda c <= 1)%R ->
  (hw_two c = false ->
     g_exec HDDMW1__update HDDMW1_reset (hw1_t wl dl c (hddmw_init c)) (ops1 ++ Rst :: ops2) =
     g_exec HDDMW1__update HDDMW1_reset (hw1_t wl dl c (hddmw_init c)) ops2) /\
  (hw_two c = true ->
     g_exec HDDMW2__update HDDMW2_reset (hw2_t wl dl c (hddmw_init c)) (ops1 ++ Rst :: ops2) =
     g_exec HDDMW2__update HDDMW2_reset (hw2_t wl dl c (hddmw_init c)) ops2).
Proof.
  intros wl dl c ops1 ops2 Hl01. pose proof (lam01_bool _ Hl01) as Hl. split; intros H2.
  - exact (g_exec_reset_fresh _ _ _ (hddmw_step c) (hddmw_init c) (hw1_t wl dl c) HDDMW1__update HDDMW1_reset (wn_ok) anyv
             (wn_init c) (fun s v H _ => wn_step c s v H) (fun s v H _ => HDDMW1_update_eq wl dl c s v H2 Hl H) (fun s _ => HDDMW1_reset_eq wl dl c s Hl)
             ops1 ops2 (ops_any _) (ops_any _)).
  - exact (g_exec_reset_fresh _ _ _ (hddmw_step c) (hddmw_init c) (hw2_t wl dl c) HDDMW2__update HDDMW2_reset (wn_ok) anyv
             (wn_init c) (fun s v H _ => wn_step c s v H) (fun s v H _ => HDDMW2_update_eq wl dl c s v H2 Hl H) (fun s _ => HDDMW2_reset_eq wl dl c s Hl)
             ops1 ops2 (ops_any _) (ops_any _)).
Qed.
Print Assumptions src_hddmw_reset_fresh.
Print Assumptions src_rddm_reset_fresh.
