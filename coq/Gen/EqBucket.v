(** Source-level tie for C05 (the lowest layer of ADWIN): the definitions GENERATED from the `Bucket` class of adwin.py
    (NumPy arrays of fixed size m + 1 filled up to `idx`; `insert_data`, `compress` -- a `for i in range(k, array_size)`
    loop shifting both arrays in place, then a slice assignment zeroing the tail --, `remove`, `reset`) refine the rows
    of the hand-written model [ADWIN.v]: a row is the list of (total, variance) pairs stored below `idx`;
    insert_data appends, compress k drops the k oldest, remove drops the oldest.  For every number system.
    (ADWIN's own methods hold their Bucket objects in a deque and mutate them through aliases, with `while` loops and
    `try/except IndexError`: outside the translated subset, tied by the correspondence check only.) *)
From Coq Require Import ZArith List Bool Lia.
From FV Require Import NumSys Py NumX Queue QueueRef ADWIN.
From FVG Require Import GSrc EqStats.
Import ListNotations.

Section ListLemmas.
  Context {X : Type}.
  Lemma set_nth_app_r : forall (a b : list X) (x : X), set_nth (length a) x (a ++ b) = a ++ set_nth 0 x b.
  Proof. induction a as [|h t IH]; intros b x; cbn [length app set_nth]; [reflexivity|]. destruct (t ++ b) eqn:E.
    - destruct t; destruct b; cbn in *; try discriminate; reflexivity.
    - rewrite <- E, IH. reflexivity. Qed.
  Lemma nth_app_r : forall (a b : list X) i d, nth (length a + i) (a ++ b) d = nth i b d.
  Proof. induction a as [|h t IH]; intros b i d; cbn [length app nth plus]; [reflexivity|apply IH]. Qed.
  Lemma nth_skipn : forall (l : list X) j i d, nth i (skipn j l) d = nth (j + i) l d.
  Proof. intros l j; revert l; induction j as [|j IH]; intros l i d; [reflexivity|]. destruct l as [|h t]; [destruct i; reflexivity|]. cbn [skipn plus nth]. apply IH. Qed.
  Lemma firstn_S_skipn : forall (l : list X) j d, (j < length l)%nat -> firstn (S j) l = firstn j l ++ [nth j l d].
  Proof. intros l j; revert l; induction j as [|j IH]; intros l d H; destruct l as [|h t]; cbn [length] in H; try lia; [reflexivity|].
    cbn [firstn nth app]. f_equal. apply IH. lia. Qed.
  Lemma skipn_S_cons : forall (l : list X) j d, (j < length l)%nat -> skipn j l = nth j l d :: skipn (S j) l.
  Proof. intros l j; revert l; induction j as [|j IH]; intros l d H; destruct l as [|h t]; cbn [length] in H; try lia; [reflexivity|].
    cbn [skipn nth]. apply IH. lia. Qed.
  Lemma firstn_skipn_comm : forall (l : list X) k a, firstn a (skipn k l) = skipn k (firstn (k + a) l).
  Proof. intros l k; revert l; induction k as [|k IH]; intros l a; [reflexivity|]. destruct l as [|h t]; [rewrite firstn_nil; reflexivity|]. cbn [skipn plus firstn]. apply IH. Qed.
  Lemma combine_skipn : forall {Y} (a : list X) (b : list Y) k, combine (skipn k a) (skipn k b) = skipn k (combine a b).
  Proof. intros Y a b k; revert a b; induction k as [|k IH]; intros a b; [reflexivity|]. destruct a as [|x a]; [reflexivity|]. destruct b as [|y b]; [cbn [skipn combine]; destruct (skipn k a); reflexivity|]. cbn [skipn combine]. apply IH. Qed.
  Lemma combine_app_same : forall {Y} (a a' : list X) (b b' : list Y), length a = length b -> combine (a ++ a') (b ++ b') = combine a b ++ combine a' b'.
  Proof. intros Y a; induction a as [|x a IH]; intros a' b b' H; destruct b as [|y b]; cbn [length] in H; try discriminate; [reflexivity|]. cbn [app combine]. f_equal. apply IH. lia. Qed.
  Lemma firstn_set_nth_same : forall (l : list X) i x, firstn i (set_nth i x l) = firstn i l.
  Proof. induction l as [|h t IH]; intros i x; destruct i; cbn [set_nth firstn]; try reflexivity. f_equal. apply IH. Qed.
End ListLemmas.

Section EqBucket.
  Context {A : Arith}.
  Notation z0 := (@ofZ A 0%Z).

  Definition bk_t (size : Z) (tot var : list (num A)) (idx : Z) := (size, tot, var, idx).
  (** the row the model holds for this bucket array *)
  Definition babs (tot var : list (num A)) (idx : Z) : row (A:=A) := combine (firstn (Z.to_nat idx) tot) (firstn (Z.to_nat idx) var).
  Definition b_inv (size : Z) (tot var : list (num A)) (idx : Z) : Prop :=
    (2 <= size)%Z /\ length tot = Z.to_nat size /\ length var = Z.to_nat size /\ (0 <= idx <= size)%Z.

  Lemma Bucket_init_eq : forall m, (1 <= m)%Z ->
    Bucket_init (A:=A) m = Ok (bk_t (m + 1) (repeat z0 (Z.to_nat (m + 1))) (repeat z0 (Z.to_nat (m + 1))) 0, tt) /\
    b_inv (m + 1) (repeat z0 (Z.to_nat (m + 1))) (repeat z0 (Z.to_nat (m + 1))) 0 /\
    babs (repeat z0 (Z.to_nat (m + 1))) (repeat z0 (Z.to_nat (m + 1))) 0 = [].
  Proof.
    intros m Hm. unfold Bucket_init, bk_t. split; [|split].
    - destruct (Z.ltb_spec (m + 1) 2); [lia|]. cbn [bind]. destruct (Z.ltb_spec (m + 1) 0); [lia|]. cbn [bind]. reflexivity.
    - unfold b_inv. rewrite !repeat_length. lia.
    - reflexivity.
  Qed.

  Lemma Bucket_init_rejects : forall m, (m < 1)%Z -> Bucket_init (A:=A) m = Raise ValueError.
  Proof. intros m Hm. unfold Bucket_init. destruct (Z.ltb_spec (m + 1) 2); [reflexivity|lia]. Qed.

  Lemma Bucket_insert_eq : forall size tot var idx v va, b_inv size tot var idx -> (idx < size)%Z ->
    exists tot' var', Bucket_insert_data (bk_t size tot var idx) v va = Ok (bk_t size tot' var' (idx + 1), tt) /\
      b_inv size tot' var' (idx + 1) /\ babs tot' var' (idx + 1) = babs tot var idx ++ [(v, va)].
  Proof.
    intros size tot var idx v va (Hs & Ht & Hv & Hi) Hlt.
    unfold Bucket_insert_data, bk_t. 
    destruct (Z.ltb_spec idx 0); [lia|]. destruct (Z.leb_spec (Z.of_nat (length tot)) idx); [lia|]. cbn [orb bind].
    destruct (Z.leb_spec (Z.of_nat (length var)) idx); [lia|]. cbn [orb bind].
    destruct (Z.ltb_spec (idx + 1) 0); [lia|]. cbn [bind].
    eexists _, _. split; [reflexivity|]. split.
    - unfold b_inv. rewrite !set_nth_length. lia.
    - unfold babs. replace (Z.to_nat (idx + 1)) with (S (Z.to_nat idx)) by lia. set (i := Z.to_nat idx).
      assert (Hit : (i < length tot)%nat) by (unfold i; lia). assert (Hiv : (i < length var)%nat) by (unfold i; lia).
      rewrite (firstn_S_skipn (set_nth i v tot) i z0) by (rewrite set_nth_length; exact Hit).
      rewrite (firstn_S_skipn (set_nth i va var) i z0) by (rewrite set_nth_length; exact Hiv).
      rewrite !nth_set_nth_eq by assumption.
      rewrite !firstn_set_nth_same.
      rewrite combine_app_same by (rewrite !firstn_length; lia). reflexivity.
  Qed.

  (** a full array: NumPy raises IndexError (the store is at position array_size) *)
  Lemma Bucket_insert_full : forall size tot var v va, b_inv size tot var size ->
    Bucket_insert_data (bk_t size tot var size) v va = Raise IndexError.
  Proof.
    intros size tot var v va (Hs & Ht & Hv & Hi). unfold Bucket_insert_data, bk_t.
    destruct (Z.ltb_spec size 0); [lia|]. destruct (Z.leb_spec (Z.of_nat (length tot)) size); [reflexivity|lia].
  Qed.

  (** the in-place left shift by [k]: after j iterations positions < j hold the values that were k places to the right *)
  Definition shifted (k j : nat) (l : list (num A)) : list (num A) := firstn j (skipn k l) ++ skipn j l.

  Lemma shifted_length : forall k j l, (j + k <= length l)%nat -> length (shifted k j l) = length l.
  Proof. intros k j l H. unfold shifted. rewrite app_length, firstn_length, !skipn_length. lia. Qed.

  Lemma shifted_step : forall k j l, (j + k < length l)%nat ->
    set_nth j (nth (k + j) (shifted k j l) z0) (shifted k j l) = shifted k (S j) l.
  Proof.
    intros k j l H. unfold shifted.
    assert (Hfl : length (firstn j (skipn k l)) = j) by (rewrite firstn_length, skipn_length; lia).
    replace (k + j)%nat with (length (firstn j (skipn k l)) + k)%nat by lia.
    rewrite nth_app_r, nth_skipn.
    rewrite <- Hfl at 1. rewrite set_nth_app_r.
    rewrite (skipn_S_cons l j z0) by lia. cbn [set_nth].
    rewrite (firstn_S_skipn (skipn k l) j z0) by (rewrite skipn_length; lia).
    rewrite nth_skipn, <- app_assoc. replace (k + j)%nat with (j + k)%nat by lia. reflexivity.
  Qed.

  Lemma Bucket_compress_eq : forall size tot var idx kz, b_inv size tot var idx -> (0 <= kz <= idx)%Z ->
    exists tot' var', Bucket_compress (bk_t size tot var idx) kz = Ok (bk_t size tot' var' (idx - kz), tt) /\
      b_inv size tot' var' (idx - kz) /\ babs tot' var' (idx - kz) = skipn (Z.to_nat kz) (babs tot var idx).
  Proof.
    intros size tot var idx kz (Hs & Ht & Hv & Hi) Hk.
    set (k := Z.to_nat kz). set (L := Z.to_nat size).
    unfold Bucket_compress, bk_t.
    match goal with |- context [iter_res _ ?F _] => set (Floop := F) end.
    assert (Loop : forall n j, (j + n + k <= L)%nat ->
      iter_res n Floop (shifted k j tot, shifted k j var, (kz + Z.of_nat j)%Z) =
        Ok (shifted k (j + n) tot, shifted k (j + n) var, (kz + Z.of_nat (j + n))%Z)).
    { induction n as [|n IH]; intros j Hj; [rewrite Nat.add_0_r; reflexivity|].
      cbn [iter_res]. unfold Floop at 1. cbv beta iota.
      rewrite !shifted_length by lia.
      destruct (Z.ltb_spec (kz + Z.of_nat j) 0); [lia|].
      destruct (Z.leb_spec (Z.of_nat (length tot)) (kz + Z.of_nat j)); [lia|]. cbn [orb bind].
      destruct (Z.leb_spec (Z.of_nat (length var)) (kz + Z.of_nat j)); [lia|]. cbn [orb bind].
      replace (Z.to_nat (kz + Z.of_nat j - kz)) with j by lia.
      replace (Z.to_nat (kz + Z.of_nat j)) with (k + j)%nat by (unfold k; lia).
      rewrite !shifted_step by lia.
      replace (kz + Z.of_nat j + 1)%Z with (kz + Z.of_nat (S j))%Z by lia.
      replace (kz + Z.of_nat j - kz)%Z with (Z.of_nat j) by lia.
      destruct (Z.ltb_spec (Z.of_nat j) 0); [lia|]. destruct (Z.leb_spec (Z.of_nat (length tot)) (Z.of_nat j)); [lia|]. cbn [orb bind].
      destruct (Z.leb_spec (Z.of_nat (length var)) (Z.of_nat j)); [lia|]. cbn [orb bind].
      rewrite (IH (S j)) by lia. replace (S j + n)%nat with (j + S n)%nat by lia. reflexivity. }
    replace (Z.to_nat (size - kz)) with (L - k)%nat by (unfold L, k; lia).
    pose proof (Loop (L - k)%nat 0%nat ltac:(unfold L, k; lia)) as Hloop.
    cbn [plus] in Hloop. change (shifted k 0 tot) with tot in Hloop. change (shifted k 0 var) with var in Hloop.
    replace (kz + Z.of_nat 0)%Z with kz in Hloop by lia. rewrite Hloop. cbn [bind].
    assert (HkL : (k <= L)%nat) by (unfold k, L; lia).
    assert (Sh : forall l : list (num A), length l = L -> shifted k (L - k) l = skipn k l ++ skipn (L - k) l).
    { intros l Hl. unfold shifted. rewrite firstn_all2 by (rewrite skipn_length; lia). reflexivity. }
    rewrite (Sh tot Ht), (Sh var Hv).
    assert (Fin : forall l : list (num A), length l = L ->
      firstn (L - k) (skipn k l ++ skipn (L - k) l) ++ repeat z0 (Z.to_nat (size - (size - kz))) ++ skipn (Z.to_nat size) (skipn k l ++ skipn (L - k) l)
        = skipn k l ++ repeat z0 k).
    { intros l Hl. assert (Hsk : length (skipn k l) = (L - k)%nat) by (rewrite skipn_length; lia).
      rewrite firstn_app, Hsk, Nat.sub_diag. cbn [firstn]. rewrite app_nil_r. rewrite <- Hsk at 1. rewrite firstn_all.
      assert (Hall : skipn (Z.to_nat size) (skipn k l ++ skipn (L - k) l) = []).
      { apply skipn_all2. rewrite app_length, Hsk, skipn_length, Hl. unfold L. lia. }
      rewrite Hall, app_nil_r.
      replace (Z.to_nat (size - (size - kz))) with k by (unfold k; lia). reflexivity. }
    rewrite (Fin tot Ht), (Fin var Hv).
    rewrite !app_length, !skipn_length, Ht, Hv. fold L.
    destruct (Z.ltb_spec (size - kz) 0); [lia|]. destruct (Z.ltb_spec size (size - kz)); [lia|].
    destruct (Z.ltb_spec (Z.of_nat (L - k + (L - (L - k)))) size); [unfold L in *; lia|]. cbn [orb bind].
    destruct (Z.ltb_spec (idx - kz) 0); [lia|]. cbn [bind].
    eexists _, _. split; [reflexivity|]. split.
    - unfold b_inv. rewrite !app_length, !skipn_length, !repeat_length, Ht, Hv. fold L. lia.
    - unfold babs. replace (Z.to_nat (idx - kz)) with (Z.to_nat idx - k)%nat by (unfold k; lia).
      assert (Hik : (Z.to_nat idx - k <= L - k)%nat) by (unfold L; lia).
      rewrite !firstn_app, !skipn_length, Ht, Hv. fold L.
      replace (Z.to_nat idx - k - (L - k))%nat with 0%nat by lia. cbn [firstn]. rewrite !app_nil_r.
      rewrite !firstn_skipn_comm. replace (k + (Z.to_nat idx - k))%nat with (Z.to_nat idx) by (unfold k; lia).
      apply combine_skipn.
  Qed.

  Lemma Bucket_remove_eq : forall size tot var idx, b_inv size tot var idx -> (1 <= idx)%Z ->
    exists tot' var', Bucket_remove (bk_t size tot var idx) = Ok (bk_t size tot' var' (idx - 1), tt) /\
      b_inv size tot' var' (idx - 1) /\ babs tot' var' (idx - 1) = tl (babs tot var idx).
  Proof.
    intros size tot var idx Hinv Hi. unfold Bucket_remove.
    destruct (Bucket_compress_eq size tot var idx 1 Hinv ltac:(lia)) as (tot' & var' & Hc & Hinv' & Habs).
    unfold bk_t in *. rewrite Hc. cbn [bind]. exists tot', var'. split; [reflexivity|]. split; [exact Hinv'|].
    rewrite Habs. change (Z.to_nat 1) with 1%nat. destruct (babs tot var idx); reflexivity.
  Qed.

  Lemma Bucket_reset_eq : forall size tot var idx, (0 <= size)%Z ->
    Bucket_reset (bk_t size tot var idx) = Ok (bk_t size (repeat z0 (Z.to_nat size)) (repeat z0 (Z.to_nat size)) idx, tt).
  Proof. intros size tot var idx Hs. unfold Bucket_reset, bk_t. destruct (Z.ltb_spec size 0); [lia|]. reflexivity. Qed.
End EqBucket.

(** C05 (bucket layer) over the source-derived definitions: a Bucket built by the source's constructor (m >= 1) and driven
    by any sequence of insert_data (while not full) / compress k / remove holds, below `idx`, exactly the row the model
    keeps: appended values at the end, the k oldest dropped from the front; it never raises in that regime and raises
    IndexError on an insertion into a full array (which ADWIN avoids by compressing first). *)
Inductive bop {A : Arith} := BIns (v va : num A) | BCompress (k : Z) | BRemove.
Definition bop_ok {A : Arith} (size : Z) (r : row (A:=A)) (o : @bop A) : Prop :=
  match o with
  | BIns _ _ => (Z.of_nat (length r) < size)%Z
  | BCompress k => (0 <= k <= Z.of_nat (length r))%Z
  | BRemove => (1 <= Z.of_nat (length r))%Z
  end.
Definition bop_row {A : Arith} (r : row (A:=A)) (o : @bop A) : row (A:=A) :=
  match o with BIns v va => r ++ [(v, va)] | BCompress k => skipn (Z.to_nat k) r | BRemove => tl r end.
Definition bop_gen {A : Arith} (t : Z * list (num A) * list (num A) * Z) (o : @bop A) :=
  match o with BIns v va => Bucket_insert_data t v va | BCompress k => Bucket_compress t k | BRemove => Bucket_remove t end.

Theorem src_bucket_refines_row : forall (A : Arith) (m : Z) (ops : list (@bop A)), (1 <= m)%Z ->
  match Bucket_init (A:=A) m with
  | Ok (t0, _) =>
      (fix ok (r : row (A:=A)) (os : list (@bop A)) : Prop := match os with [] => True | o :: rest => bop_ok (m + 1) r o /\ ok (bop_row r o) rest end) [] ops ->
      exists (tot var : list (num A)), fold_left (fun acc o => match acc with Ok t => match bop_gen t o with Ok (t', _) => Ok t' | Raise e => Raise e end | Raise e => Raise e end) ops (Ok t0)
                      = Ok ((m + 1)%Z, tot, var, Z.of_nat (length (fold_left bop_row ops []))) /\
                      babs tot var (Z.of_nat (length (fold_left bop_row ops []))) = fold_left bop_row ops []
  | Raise _ => False
  end.
Proof.
  intros A m ops Hm. destruct (Bucket_init_eq (A:=A) m Hm) as (Hi & Hinv0 & Habs0). rewrite Hi. unfold bk_t.
  set (size := (m + 1)%Z) in *.
  assert (G : forall os tot var idx r, b_inv size tot var idx -> babs tot var idx = r -> idx = Z.of_nat (length r) ->
    (fix ok (r : row (A:=A)) (os : list (@bop A)) : Prop := match os with [] => True | o :: rest => bop_ok size r o /\ ok (bop_row r o) rest end) r os ->
    exists (tot' var' : list (num A)), fold_left (fun acc o => match acc with Ok t => match bop_gen t o with Ok (t', _) => Ok t' | Raise e => Raise e end | Raise e => Raise e end) os (Ok (size, tot, var, idx))
                      = Ok (size, tot', var', Z.of_nat (length (fold_left bop_row os r))) /\
                      babs tot' var' (Z.of_nat (length (fold_left bop_row os r))) = fold_left bop_row os r).
  { induction os as [|o rest IH]; intros tot var idx r Hinv Habs Hidx Hok.
    - cbn [fold_left]. exists tot, var. subst idx. split; [reflexivity|exact Habs].
    - destruct Hok as [Ho Hrest]. cbn [fold_left]. destruct o as [v va|k|]; cbn [bop_ok bop_row bop_gen] in *.
      + destruct (Bucket_insert_eq size tot var idx v va Hinv ltac:(lia)) as (t' & v' & He & Hinv' & Habs'). unfold bk_t in He. rewrite He.
        apply (IH t' v' (idx + 1)%Z); [exact Hinv'|rewrite Habs', Habs; reflexivity|rewrite app_length; cbn [length]; lia|exact Hrest].
      + destruct (Bucket_compress_eq size tot var idx k Hinv ltac:(lia)) as (t' & v' & He & Hinv' & Habs'). unfold bk_t in He. rewrite He.
        apply (IH t' v' (idx - k)%Z); [exact Hinv'|rewrite Habs', Habs; reflexivity|rewrite skipn_length; lia|exact Hrest].
      + destruct (Bucket_remove_eq size tot var idx Hinv ltac:(lia)) as (t' & v' & He & Hinv' & Habs'). unfold bk_t in He. rewrite He.
        apply (IH t' v' (idx - 1)%Z); [exact Hinv'|rewrite Habs', Habs; reflexivity|destruct r; cbn [length tl] in *; lia|exact Hrest]. }
  intros Hok. exact (G ops _ _ 0%Z [] Hinv0 Habs0 eq_refl Hok).
Qed.
Print Assumptions src_bucket_refines_row.

(** * `ADWIN._calculate_threshold` (the bound eps_cut that justifies every cut): for every number system the generated
      method returns the model's [eps_cut] whenever neither sub-window has exactly min_window_size + 1 values.  At that size the
      reciprocal is 1/0: the model says "no cut possible" (+inf, what NumPy integer operands give); the translation, which
      types the operands as Python ints, raises ZeroDivisionError there - the one place where the typing hint is too coarse
      (`w0_instances` is a NumPy integer in the running code), stated here rather than hidden. *)
Section EqAdwinThreshold.
  Context {A : Arith}.
  Definition acfg_t (c : adwin_cfg A) := (ad_min c, ad_clock c, ad_delta c, ad_m c, ad_mws c).
  Definition athr_t (c : adwin_cfg A) (s : adwin_st A) := (acfg_t c, avar s, awidth s).

  Lemma ADWIN_threshold_eq : forall c s w0 w1, (w0 <> ad_mws c + 1)%Z -> (w1 <> ad_mws c + 1)%Z ->
    exists e, eps_cut c s w0 w1 = Some e /\ ADWIN__calculate_threshold (athr_t c s) w0 w1 = Ok (athr_t c s, e).
  Proof.
    intros c s w0 w1 H0 H1. unfold eps_cut, ADWIN__calculate_threshold, athr_t, acfg_t.
    destruct (Z.eqb_spec w0 (ad_mws c + 1)); [contradiction|]. destruct (Z.eqb_spec w1 (ad_mws c + 1)); [contradiction|]. cbn [orb].
    destruct (Z.eqb_spec (w0 - (ad_mws c + 1)) 0); [lia|]. destruct (Z.eqb_spec (w1 - (ad_mws c + 1)) 0); [lia|]. cbn [bind].
    change (3 =? 0)%Z with false. cbn [bind]. eexists. split; reflexivity.
  Qed.

  Lemma ADWIN_threshold_div0 : forall c s w0 w1, (w0 = ad_mws c + 1 \/ w1 = ad_mws c + 1)%Z ->
    eps_cut c s w0 w1 = None /\ ADWIN__calculate_threshold (athr_t c s) w0 w1 = Raise ZeroDivisionError.
  Proof.
    intros c s w0 w1 H. unfold eps_cut, ADWIN__calculate_threshold, athr_t, acfg_t. split.
    - destruct H as [-> | ->]; rewrite Z.eqb_refl; [reflexivity|rewrite orb_true_r; reflexivity].
    - destruct (Z.eqb_spec (w0 - (ad_mws c + 1)) 0) as [E0|N0]; [reflexivity|]. cbn [bind].
      destruct (Z.eqb_spec (w1 - (ad_mws c + 1)) 0) as [E1|N1]; [reflexivity|]. lia.
  Qed.
End EqAdwinThreshold.
