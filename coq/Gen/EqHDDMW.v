(** Source-level tie for C04 (HDDM-W): the definitions GENERATED from hddm.py (`HDDMW._update` / `reset`,
    `SampleInfo`, `McDiarmidOneSidedTest` / `McDiarmidTwoSidedTest`: `update_stats`, `check_changes`,
    `_check_threshold`, `_mcdiarmid_error_bound`, the +inf / -inf cut-point sentinels) equal the hand-written model
    [HDDM.v] in one- and two-sided mode, for every number system and every lambda_ in [0,1]. *)
From Coq Require Import ZArith List Bool Lia.
From FV Require Import NumSys Py NumX Queue Stats Detector HDDM HDDMR.
From FVG Require Import GSrc EqStats.
Import ListNotations.

Ltac bdec := match goal with |- context [if ?b then _ else _] => destruct b eqn:? end.

Section EqHDDMW.
  Context {A : Arith}.
  Variables wl dl : num A.

  Definition si_t (lam : num A) (s : sinfo A) :=
    ((lam, sub (ofZ 1) lam, si_mean s), si_ibc s, mul lam lam, mul (sub (ofZ 1) lam) (sub (ofZ 1) lam)).
  Definition w1 (ad aw lam : num A) (t i1 i2 : sinfo A) (ic : option (num A)) :=
    (ad, aw, lam, si_t lam t, si_t lam i1, si_t lam i2, ic).
  Definition w2 (ad aw lam : num A) (t i1 i2 : sinfo A) (ic : option (num A)) (d1 d2 : sinfo A) (dc : option (num A)) :=
    (ad, aw, lam, si_t lam t, si_t lam i1, si_t lam i2, ic, si_t lam d1, si_t lam d2, dc).
  Definition wcfg_t (c : hddmw_cfg A) := (hw_min c, wl, dl, hw_alpha_d c, hw_alpha_w c, hw_two c, hw_lambda c).
  Definition lam_ok (lam : num A) : Prop := leb (ofZ 0) lam && leb lam (ofZ 1) = true.

  Lemma SI_update_eq : forall lam s v, SampleInfo_update (si_t lam s) v = Ok (si_t lam (si_update lam s v), tt).
  Proof. reflexivity. Qed.
  Lemma SI_init_eq : forall lam, lam_ok lam -> SampleInfo_init lam = Ok (si_t lam si_init, tt).
  Proof. intros lam H. unfold SampleInfo_init, EWMA_init. rewrite H. reflexivity. Qed.

  Ltac redw := cbn -[SampleInfo_update SampleInfo_init si_update si_init mcd_bound mcd_check Z.mul].

  (** update_stats(value, alpha): the increase side *)
  Lemma W1_update_stats_eq : forall ad aw lam t i1 i2 ic v, lam_ok lam ->
    McDiarmidOneSidedTest_update_stats (w1 ad aw lam t i1 i2 ic) v lam =
      (let total := si_update lam t v in
       let up := add (si_mean total) (mcd_bound (si_ibc total) lam) in
       if lt_opt up ic then Ok (w1 ad aw lam total total si_init (Some up), tt)
       else Ok (w1 ad aw lam total i1 (si_update lam i2 v) ic, tt)).
  Proof.
    intros ad aw lam t i1 i2 ic v H. unfold McDiarmidOneSidedTest_update_stats, w1. redw.
    change ((lam, sub (ofZ 1) lam, si_mean t), si_ibc t, mul lam lam, mul (sub (ofZ 1) lam) (sub (ofZ 1) lam)) with (si_t lam t).
    rewrite SI_update_eq. redw.
    unfold lt_opt, x_lt_nx, mcd_bound, one, two.
    destruct ic as [cut|]; redw.
    - bdec; redw.
      + rewrite (SI_init_eq lam H). reflexivity.
      + change ((lam, sub (ofZ 1) lam, si_mean i2), si_ibc i2, mul lam lam, mul (sub (ofZ 1) lam) (sub (ofZ 1) lam)) with (si_t lam i2).
        rewrite SI_update_eq. reflexivity.
    - rewrite (SI_init_eq lam H). reflexivity.
  Qed.

  Lemma W1_check_changes_eq : forall ad aw lam t i1 i2 ic,
    McDiarmidOneSidedTest_check_changes (w1 ad aw lam t i1 i2 ic) =
      Ok (w1 ad aw lam t i1 i2 ic,
          (mcd_check i1 i2 ad, if mcd_check i1 i2 ad then false else mcd_check i1 i2 aw)).
  Proof. intros. unfold McDiarmidOneSidedTest_check_changes, w1, si_t, mcd_check, mcd_bound, one, two. cbn. reflexivity. Qed.

  Lemma W1_reset_eq : forall ad aw lam t i1 i2 ic, lam_ok lam ->
    McDiarmidOneSidedTest_reset (w1 ad aw lam t i1 i2 ic) = Ok (w1 ad aw lam si_init si_init si_init None, tt).
  Proof.
    intros. unfold McDiarmidOneSidedTest_reset, w1. redw. rewrite (SI_init_eq lam H). reflexivity.
  Qed.

  Definition hw1_t (c : hddmw_cfg A) (s : hddmw_st A) :=
    (wcfg_t c, wn s, wdrift s, w1 (hw_alpha_d c) (hw_alpha_w c) (hw_lambda c) (wtotal s) (winc1 s) (winc2 s) (winc_cut s), wwarning s).

  Ltac fold_si := repeat match goal with
    | |- context [((?lam, sub (ofZ 1) ?lam, si_mean ?s), si_ibc ?s, mul ?lam ?lam, mul (sub (ofZ 1) ?lam) (sub (ofZ 1) ?lam))] =>
        change ((lam, sub (ofZ 1) lam, si_mean s), si_ibc s, mul lam lam, mul (sub (ofZ 1) lam) (sub (ofZ 1) lam)) with (si_t lam s)
    end.
  Ltac fold_w1 := fold_si; repeat match goal with
    | |- context [(?ad, ?aw, ?lam, si_t ?lam ?t, si_t ?lam ?i1, si_t ?lam ?i2, ?ic)] =>
        change (ad, aw, lam, si_t lam t, si_t lam i1, si_t lam i2, ic) with (w1 ad aw lam t i1 i2 ic)
    end.
  Ltac redm := cbn -[McDiarmidOneSidedTest_update_stats McDiarmidOneSidedTest_check_changes McDiarmidOneSidedTest_reset
                     w1 si_t si_update si_init mcd_bound mcd_check Z.mul lt_opt gt_opt].

  Lemma HDDMW1_update_eq : forall c s v, hw_two c = false -> lam_ok (hw_lambda c) -> (0 <= wn s)%Z ->
    HDDMW1__update (hw1_t c s) v = Ok (hw1_t c (hddmw_step c s v), tt).
  Proof.
    intros c [n t i1 i2 ic d1 d2 dc dr w] v H2 Hl Hn. cbn in Hn.
    unfold HDDMW1__update, hw1_t, wcfg_t, hddmw_step.
    cbn [wn wtotal winc1 winc2 winc_cut wdec1 wdec2 wdec_cut wdrift wwarning]. rewrite H2.
    unfold w1 at 1. unfold si_t at 1 2 3. redm.
    destruct (Z.ltb_spec (n + 1) 0); [lia|]. redm. fold_w1.
    rewrite (W1_update_stats_eq _ _ _ t i1 i2 ic v Hl). cbn zeta.
    set (total := si_update (hw_lambda c) t v).
    set (up := add (si_mean total) (mcd_bound (si_ibc total) (hw_lambda c))).
    destruct (lt_opt up ic); (unfold w1 at 1; unfold si_t at 1 2 3; redm; destruct (Z.leb (hw_min c) (n + 1)); redm; [|reflexivity]);
      (fold_w1; rewrite W1_check_changes_eq; unfold w1 at 1; unfold si_t at 1 2 3; redm;
       match goal with |- context [mcd_check ?a ?b (hw_alpha_d c)] => destruct (mcd_check a b (hw_alpha_d c)) end; redm;
       [fold_w1; rewrite (W1_reset_eq _ _ _ _ _ _ _ Hl); reflexivity
       |match goal with |- context [mcd_check ?a ?b (hw_alpha_w c)] => destruct (mcd_check a b (hw_alpha_w c)) end; reflexivity]).
  Qed.

  Lemma HDDMW1_reset_eq : forall c s, lam_ok (hw_lambda c) ->
    HDDMW1_reset (hw1_t c s) = Ok (hw1_t c (hddmw_init c), tt).
  Proof.
    intros c s Hl. unfold HDDMW1_reset, HDDMW1_super_BaseSPC_reset, HDDMW1_super_BaseConceptDrift_reset, hw1_t.
    unfold w1 at 1. unfold si_t at 1 2 3. redm. fold_w1. rewrite (W1_reset_eq _ _ _ _ _ _ _ Hl). reflexivity.
  Qed.

  (** * two-sided *)
  Ltac fold_w2 := fold_si; repeat match goal with
    | |- context [(?ad, ?aw, ?lam, si_t ?lam ?t, si_t ?lam ?i1, si_t ?lam ?i2, ?ic, si_t ?lam ?d1, si_t ?lam ?d2, ?dc)] =>
        change (ad, aw, lam, si_t lam t, si_t lam i1, si_t lam i2, ic, si_t lam d1, si_t lam d2, dc) with (w2 ad aw lam t i1 i2 ic d1 d2 dc)
    end.
  Ltac unf_w2 := unfold w2 at 1; unfold si_t at 1 2 3 4 5.
  Ltac red2 := cbn -[McDiarmidTwoSidedTest_update_stats McDiarmidTwoSidedTest_super_McDiarmidOneSidedTest_update_stats
                     McDiarmidTwoSidedTest_check_changes McDiarmidTwoSidedTest_reset McDiarmidTwoSidedTest_super_McDiarmidOneSidedTest_reset
                     SampleInfo_update SampleInfo_init w2 si_t si_update si_init mcd_bound mcd_check Z.mul lt_opt gt_opt].

  Lemma W2_super_update_stats_eq : forall ad aw lam t i1 i2 ic d1 d2 dc v, lam_ok lam ->
    McDiarmidTwoSidedTest_super_McDiarmidOneSidedTest_update_stats (w2 ad aw lam t i1 i2 ic d1 d2 dc) v lam =
      (let total := si_update lam t v in
       let up := add (si_mean total) (mcd_bound (si_ibc total) lam) in
       if lt_opt up ic then Ok (w2 ad aw lam total total si_init (Some up) d1 d2 dc, tt)
       else Ok (w2 ad aw lam total i1 (si_update lam i2 v) ic d1 d2 dc, tt)).
  Proof.
    intros ad aw lam t i1 i2 ic d1 d2 dc v H. unfold McDiarmidTwoSidedTest_super_McDiarmidOneSidedTest_update_stats. unf_w2. redw. fold_si.
    rewrite SI_update_eq. redw. unfold lt_opt, x_lt_nx, mcd_bound, one, two.
    destruct ic as [cut|]; redw.
    - bdec; redw.
      + rewrite (SI_init_eq lam H). reflexivity.
      + fold_si. rewrite SI_update_eq. reflexivity.
    - rewrite (SI_init_eq lam H). reflexivity.
  Qed.

  Lemma W2_update_stats_eq : forall ad aw lam t i1 i2 ic d1 d2 dc v, lam_ok lam ->
    McDiarmidTwoSidedTest_update_stats (w2 ad aw lam t i1 i2 ic d1 d2 dc) v lam =
      (let total := si_update lam t v in
       let eps := mcd_bound (si_ibc total) lam in
       let up := add (si_mean total) eps in
       let lo := sub (si_mean total) eps in
       let '(j1, j2, jc) := if lt_opt up ic then (total, si_init, Some up) else (i1, si_update lam i2 v, ic) in
       let '(e1, e2, ec) := if gt_opt lo dc then (total, si_init, Some lo) else (d1, si_update lam d2 v, dc) in
       Ok (w2 ad aw lam total j1 j2 jc e1 e2 ec, tt)).
  Proof.
    intros ad aw lam t i1 i2 ic d1 d2 dc v H. unfold McDiarmidTwoSidedTest_update_stats. unf_w2. red2. fold_w2.
    rewrite (W2_super_update_stats_eq _ _ _ _ _ _ _ _ _ _ _ H). cbn zeta.
    destruct (lt_opt _ ic); (unf_w2; redw; unfold gt_opt, xn_lt_xn, mcd_bound, one, two;
      destruct dc as [cut|]; redw;
      [bdec; redw; [rewrite (SI_init_eq lam H); reflexivity | fold_si; rewrite SI_update_eq; reflexivity]
      |rewrite (SI_init_eq lam H); reflexivity]).
  Qed.

  Lemma W2_check_changes_eq : forall ad aw lam t i1 i2 ic d1 d2 dc,
    McDiarmidTwoSidedTest_check_changes (w2 ad aw lam t i1 i2 ic d1 d2 dc) =
      Ok (w2 ad aw lam t i1 i2 ic d1 d2 dc,
          (let di := mcd_check i1 i2 ad in
           let wi := if di then false else mcd_check i1 i2 aw in
           let dd := if di then false else mcd_check d2 d1 ad in
           let wd := if wi || dd then false else mcd_check d2 d1 aw in (di || dd, wi || wd))).
  Proof. intros. unfold McDiarmidTwoSidedTest_check_changes, w2, si_t, mcd_check, mcd_bound, one, two. cbn. reflexivity. Qed.

  Lemma W2_reset_eq : forall ad aw lam t i1 i2 ic d1 d2 dc, lam_ok lam ->
    McDiarmidTwoSidedTest_reset (w2 ad aw lam t i1 i2 ic d1 d2 dc) = Ok (w2 ad aw lam si_init si_init si_init None si_init si_init None, tt).
  Proof.
    intros. unfold McDiarmidTwoSidedTest_reset, McDiarmidTwoSidedTest_super_McDiarmidOneSidedTest_reset. unf_w2.
    cbn -[SampleInfo_init si_init]. repeat (rewrite (SI_init_eq lam H); cbn -[SampleInfo_init si_init]). reflexivity.
  Qed.

  Definition hw2_t (c : hddmw_cfg A) (s : hddmw_st A) :=
    (wcfg_t c, wn s, wdrift s,
     w2 (hw_alpha_d c) (hw_alpha_w c) (hw_lambda c) (wtotal s) (winc1 s) (winc2 s) (winc_cut s) (wdec1 s) (wdec2 s) (wdec_cut s), wwarning s).

  Lemma HDDMW2_update_eq : forall c s v, hw_two c = true -> lam_ok (hw_lambda c) -> (0 <= wn s)%Z ->
    HDDMW2__update (hw2_t c s) v = Ok (hw2_t c (hddmw_step c s v), tt).
  Proof.
    intros c [n t i1 i2 ic d1 d2 dc dr w] v H2 Hl Hn. cbn in Hn.
    unfold HDDMW2__update, hw2_t, wcfg_t, hddmw_step.
    cbn [wn wtotal winc1 winc2 winc_cut wdec1 wdec2 wdec_cut wdrift wwarning]. rewrite H2.
    unf_w2. red2.
    destruct (Z.ltb_spec (n + 1) 0); [lia|]. red2. fold_w2.
    rewrite (W2_update_stats_eq _ _ _ t i1 i2 ic d1 d2 dc v Hl). cbn zeta.
    set (total := si_update (hw_lambda c) t v).
    set (eps := mcd_bound (si_ibc total) (hw_lambda c)).
    (* the two cut-point updates are the same expressions on both sides: name their results instead of splitting *)
    destruct (if lt_opt (add (si_mean total) eps) ic then (total, si_init, Some (add (si_mean total) eps))
              else (i1, si_update (hw_lambda c) i2 v, ic)) as [[j1 j2] jc].
    destruct (if gt_opt (sub (si_mean total) eps) dc then (total, si_init, Some (sub (si_mean total) eps))
              else (d1, si_update (hw_lambda c) d2 v, dc)) as [[e1 e2] ec].
    unf_w2. red2. destruct (Z.leb (hw_min c) (n + 1)); red2; [|reflexivity].
    fold_w2. rewrite W2_check_changes_eq. unf_w2. cbn zeta. red2.
    generalize (mcd_check j1 j2 (hw_alpha_d c)) (mcd_check j1 j2 (hw_alpha_w c))
               (mcd_check e2 e1 (hw_alpha_d c)) (mcd_check e2 e1 (hw_alpha_w c)).
    intros b1 b2 b3 b4.
    destruct b1, b2, b3, b4; red2; try reflexivity; fold_w2; rewrite (W2_reset_eq _ _ _ _ _ _ _ _ _ _ Hl); reflexivity.
  Qed.

  Lemma HDDMW2_reset_eq : forall c s, lam_ok (hw_lambda c) ->
    HDDMW2_reset (hw2_t c s) = Ok (hw2_t c (hddmw_init c), tt).
  Proof.
    intros c s Hl. unfold HDDMW2_reset, HDDMW2_super_BaseSPC_reset, HDDMW2_super_BaseConceptDrift_reset, hw2_t.
    unf_w2. red2. fold_w2. rewrite (W2_reset_eq _ _ _ _ _ _ _ _ _ _ Hl). reflexivity.
  Qed.

  (** runs *)
  Lemma g_hw1_run_eq : forall c vs s, hw_two c = false -> lam_ok (hw_lambda c) -> (0 <= wn s)%Z ->
    g_run HDDMW1__update (hw1_t c s) vs = Ok (hw1_t c (fold_left (hddmw_step c) vs s)).
  Proof.
    intros c vs. induction vs as [|v r IH]; intros s H2 Hl Hn; [reflexivity|]. cbn [g_run fold_left].
    rewrite HDDMW1_update_eq by assumption. apply IH; try assumption.
    unfold hddmw_step. repeat match goal with |- context [if ?b then _ else _] => destruct b end;
      repeat match goal with |- context [let '(_, _) := ?x in _] => destruct x end; cbn; lia.
  Qed.
  Lemma g_hw2_run_eq : forall c vs s, hw_two c = true -> lam_ok (hw_lambda c) -> (0 <= wn s)%Z ->
    g_run HDDMW2__update (hw2_t c s) vs = Ok (hw2_t c (fold_left (hddmw_step c) vs s)).
  Proof.
    intros c vs. induction vs as [|v r IH]; intros s H2 Hl Hn; [reflexivity|]. cbn [g_run fold_left].
    rewrite HDDMW2_update_eq by assumption. apply IH; try assumption.
    unfold hddmw_step. repeat match goal with |- context [if ?b then _ else _] => destruct b end;
      repeat match goal with |- context [let '(_, _) := ?x in _] => destruct x end; cbn; lia.
  Qed.
End EqHDDMW.

(** Every C04 theorem about [wrun] (state meaning, verdict <-> McDiarmid bound, one-sided alarms are two-sided alarms
    until the first alarm) is a theorem about the code generated from the source: for EVERY number system and
    lambda_ in [0,1] (what HDDMWConfig admits, besides excluding 0), reset() followed by any stream never raises
    and ends in [wrun c vs]. *)
Theorem src_hddmw_one_sided_run : forall (A : Arith) (wl dl : num A) (c : hddmw_cfg A) (s0 : hddmw_st A) (vs : list (num A)),
  hw_two c = false -> lam_ok (hw_lambda c) ->
  match HDDMW1_reset (hw1_t wl dl c s0) with
  | Ok (s1, _) => g_run HDDMW1__update s1 vs = Ok (hw1_t wl dl c (wrun c vs))
  | Raise _ => False end.
Proof. intros. rewrite HDDMW1_reset_eq by assumption. cbv beta iota. apply g_hw1_run_eq; try assumption. cbn. lia. Qed.
Theorem src_hddmw_two_sided_run : forall (A : Arith) (wl dl : num A) (c : hddmw_cfg A) (s0 : hddmw_st A) (vs : list (num A)),
  hw_two c = true -> lam_ok (hw_lambda c) ->
  match HDDMW2_reset (hw2_t wl dl c s0) with
  | Ok (s1, _) => g_run HDDMW2__update s1 vs = Ok (hw2_t wl dl c (wrun c vs))
  | Raise _ => False end.
Proof. intros. rewrite HDDMW2_reset_eq by assumption. cbv beta iota. apply g_hw2_run_eq; try assumption. cbn. lia. Qed.
Print Assumptions src_hddmw_one_sided_run.
Print Assumptions src_hddmw_two_sided_run.
