(** Source-level tie for C07 (and the reset clause of C02 for the three change detectors): the definitions
    GENERATED from change_detection/{base,cusum,page_hinkley,geometric_moving_average}.py (`_update`,
    `_update_sum`, `reset`, reached through the classes' MRO) equal the hand-written model [Cusum.v] for every
    number system, and C07's recurrence theorem is re-stated over the generated code. *)
From Coq Require Import ZArith List Bool Lia Reals.
From FV Require Import NumSys RealA Py Sums Queue Stats Detector Cusum StatsR CusumR.
From FVG Require Import GSrc EqStats.
Import ListNotations.

Section EqCusum.
  Context {A : Arith}.

  (** configuration tuples in the order the constructors assign the fields *)
  Definition cfg_cusum (c : cusum_cfg A) := (ck_min c, ck_lambda c, ck_delta c).
  Definition cfg_ph (c : cusum_cfg A) := (ck_min c, ck_lambda c, ck_delta c, ck_alpha c).
  Definition cfg_gma (c : cusum_cfg A) := (ck_min c, ck_lambda c, ck_alpha c).
  Definition st_t {C} (cf : C) (s : cusum_st A) := (cf, cs_n s, cs_drift s, mean_t (cs_mean s), cs_sum s).
  Definition st_wf (s : cusum_st A) : Prop := (0 <= cs_n s /\ 0 <= m_n (cs_mean s))%Z.

  Ltac upd := intros c s v Hk (Hn & Hm); unfold st_t, mean_t, cusum_step, update_sum, mean_update, incr_op, max0, zero, one;
    rewrite Hk; cbn; repeat zstep; cbn;
    repeat match goal with |- context [if ?b then true else false] => destruct b eqn:? end; reflexivity.

  Lemma CUSUM_update_eq : forall c s v, ck_kind c = KCusum -> st_wf s ->
    CUSUM__update (st_t (cfg_cusum c) s) v = Ok (st_t (cfg_cusum c) (cusum_step c s v), tt).
  Proof. unfold CUSUM__update, CUSUM__update_sum, Mean_update, cfg_cusum. upd. Qed.
  Lemma PH_update_eq : forall c s v, ck_kind c = KPageHinkley -> st_wf s ->
    PageHinkley__update (st_t (cfg_ph c) s) v = Ok (st_t (cfg_ph c) (cusum_step c s v), tt).
  Proof. unfold PageHinkley__update, PageHinkley__update_sum, Mean_update, cfg_ph. upd. Qed.
  Lemma GMA_update_eq : forall c s v, ck_kind c = KGMA -> st_wf s ->
    GeometricMovingAverage__update (st_t (cfg_gma c) s) v = Ok (st_t (cfg_gma c) (cusum_step c s v), tt).
  Proof. unfold GeometricMovingAverage__update, GeometricMovingAverage__update_sum, Mean_update, cfg_gma. upd. Qed.

  (** reset() yields the model's initial state (= a new instance's), whatever was seen before *)
  Lemma CUSUM_reset_eq : forall c s, CUSUM_reset (st_t (cfg_cusum c) s) = Ok (st_t (cfg_cusum c) (cusum_init c), tt).
  Proof. reflexivity. Qed.
  Lemma PH_reset_eq : forall c s, PageHinkley_reset (st_t (cfg_ph c) s) = Ok (st_t (cfg_ph c) (cusum_init c), tt).
  Proof. reflexivity. Qed.
  Lemma GMA_reset_eq : forall c s, GeometricMovingAverage_reset (st_t (cfg_gma c) s) = Ok (st_t (cfg_gma c) (cusum_init c), tt).
  Proof. reflexivity. Qed.

  Lemma step_wf : forall c s v, st_wf s -> st_wf (cusum_step c s v).
  Proof. intros c s v (Hn & Hm). unfold st_wf, cusum_step, mean_update. cbn. lia. Qed.
  Lemma init_wf : forall c, st_wf (cusum_init c).
  Proof. intros c. unfold st_wf. cbn. lia. Qed.
End EqCusum.

(** runs of the generated update from the state a reset produces *)
Lemma g_cusum_run_eq : forall {A} (c : cusum_cfg A) vs s, ck_kind c = KCusum -> st_wf s ->
  g_run CUSUM__update (st_t (cfg_cusum c) s) vs = Ok (st_t (cfg_cusum c) (fold_left (cusum_step c) vs s)).
Proof.
  intros A c vs. induction vs as [|v r IH]; intros s Hk Hw; [reflexivity|]. cbn [g_run fold_left].
  rewrite CUSUM_update_eq by assumption. apply IH; [assumption | apply step_wf; assumption].
Qed.
Lemma g_ph_run_eq : forall {A} (c : cusum_cfg A) vs s, ck_kind c = KPageHinkley -> st_wf s ->
  g_run PageHinkley__update (st_t (cfg_ph c) s) vs = Ok (st_t (cfg_ph c) (fold_left (cusum_step c) vs s)).
Proof.
  intros A c vs. induction vs as [|v r IH]; intros s Hk Hw; [reflexivity|]. cbn [g_run fold_left].
  rewrite PH_update_eq by assumption. apply IH; [assumption | apply step_wf; assumption].
Qed.
Lemma g_gma_run_eq : forall {A} (c : cusum_cfg A) vs s, ck_kind c = KGMA -> st_wf s ->
  g_run GeometricMovingAverage__update (st_t (cfg_gma c) s) vs = Ok (st_t (cfg_gma c) (fold_left (cusum_step c) vs s)).
Proof.
  intros A c vs. induction vs as [|v r IH]; intros s Hk Hw; [reflexivity|]. cbn [g_run fold_left].
  rewrite GMA_update_eq by assumption. apply IH; [assumption | apply step_wf; assumption].
Qed.

(** C07 over the source-derived definitions: starting from the state produced by the source's reset() (any
    earlier state [s0]), after any stream the code's `sum_` obeys the property's recurrence over the batch running
    mean, `num_instances` counts the updates, no update raises, and `drift` is set exactly when
    t >= min_num_instances and g_t > lambda_. *)
Definition src_holds {C} (upd : (C * Z * bool * (R * Z) * R) -> R -> res ((C * Z * bool * (R * Z) * R) * unit))
    (rst : (C * Z * bool * (R * Z) * R) -> res ((C * Z * bool * (R * Z) * R) * unit)) (cf : C) (c : cusum_cfg RealA) : Prop :=
  forall (s0 : cusum_st RealA) (vs : list R),
    match rst (st_t cf s0) with
    | Ok (s1, _) => exists n d m g, g_run upd s1 vs = Ok (cf, n, d, m, g) /\
        g = g_spec c (rev vs) /\ n = Z.of_nat (length vs) /\
        (vs <> [] -> (d = true <-> (ck_min c <= Z.of_nat (length vs))%Z /\ (ck_lambda c < g_spec c (rev vs))%R))
    | Raise _ => False
    end.

Theorem src_cusum_recurrence : forall c : cusum_cfg RealA, ck_kind c = KCusum ->
  src_holds CUSUM__update CUSUM_reset (cfg_cusum c) c.
Proof.
  intros c Hk s0 vs. rewrite CUSUM_reset_eq. cbv beta iota.
  destruct (cusum_recurrence c vs) as (H1 & H2 & H3). unfold crun in *.
  eexists _, _, _, _. split; [exact (g_cusum_run_eq c vs _ Hk (init_wf c))|].
  repeat split; try assumption; apply H3; assumption.
Qed.
Theorem src_page_hinkley_recurrence : forall c : cusum_cfg RealA, ck_kind c = KPageHinkley ->
  src_holds PageHinkley__update PageHinkley_reset (cfg_ph c) c.
Proof.
  intros c Hk s0 vs. rewrite PH_reset_eq. cbv beta iota.
  destruct (cusum_recurrence c vs) as (H1 & H2 & H3). unfold crun in *.
  eexists _, _, _, _. split; [exact (g_ph_run_eq c vs _ Hk (init_wf c))|].
  repeat split; try assumption; apply H3; assumption.
Qed.
Theorem src_gma_recurrence : forall c : cusum_cfg RealA, ck_kind c = KGMA ->
  src_holds GeometricMovingAverage__update GeometricMovingAverage_reset (cfg_gma c) c.
Proof.
  intros c Hk s0 vs. rewrite GMA_reset_eq. cbv beta iota.
  destruct (cusum_recurrence c vs) as (H1 & H2 & H3). unfold crun in *.
  eexists _, _, _, _. split; [exact (g_gma_run_eq c vs _ Hk (init_wf c))|].
  repeat split; try assumption; apply H3; assumption.
Qed.
Print Assumptions src_cusum_recurrence.
Print Assumptions src_page_hinkley_recurrence.
Print Assumptions src_gma_recurrence.
