(** Source-level tie for C19: the configuration constructors GENERATED from the source (every `__init__` with
    the property setters it triggers, in source order, through the classes' MRO) accept exactly the arguments
    the hand-written validators of [Model/Config.v] accept and raise the same exception otherwise -- for every
    number system in which 2 and 3 are positive and 2 < 3 ([sane]: EDDMConfig and the HDDM configs run the SPC
    base constructor with its default levels 2.0 / 3.0), in particular over R and over binary64.  The
    accepts <-> documented-domain theorems of C19 are then re-stated over the generated constructors. *)
From Coq Require Import ZArith List Bool Lia Reals Lra PrimFloat.
From FV Require Import NumSys RealA FloatA Py Queue Config ConfigR.
From FVG Require Import GSrc EqStats.
Import ListNotations.

Definition verdict {X} (r : res X) : res unit := match r with Ok _ => Ok tt | Raise e => Raise e end.

Definition sane (A : Arith) : Prop :=
  leb (@ofZ A 2) (@ofZ A 0) = false /\ leb (@ofZ A 3) (@ofZ A 0) = false /\ leb (@ofZ A 3) (@ofZ A 2) = false.
Lemma sane_R : sane RealA.
Proof. unfold sane; cbn. repeat split; apply Rleb_false; lra. Qed.
Lemma sane_F : sane FloatA.
Proof. unfold sane; cbn. repeat split; vm_compute; reflexivity. Qed.

(** symbolic evaluation of a guard sequence: decide the next guard on both sides *)
Ltac gstep := cbn; match goal with
  | |- context [if Z.ltb ?a ?b then _ else _] => destruct (Z.ltb a b) eqn:?; try reflexivity
  | |- context [if Z.eqb ?a ?b then _ else _] => destruct (Z.eqb a b) eqn:?; try reflexivity
  | |- context [if @leb ?A ?a ?b then _ else _] => destruct (@leb A a b) eqn:?; try reflexivity
  | |- context [if @ltb ?A ?a ?b then _ else _] => destruct (@ltb A a b) eqn:?; try reflexivity
  | |- context [if negb ?c then _ else _] => destruct c eqn:?; try reflexivity
  end.
Ltac gsteps := unfold verdict, guard, chk_min, in_cc, in_oo, in_oc, zero, one; repeat gstep; cbn; try reflexivity; try congruence; try lia.

Section EqConfig.
  Context {A : Arith}.
  Notation F := (num A).

  Lemma CUSUMConfig_eq : forall (delta lam : F) n, verdict (CUSUMConfig_init delta lam n) = acc_cusum delta lam n.
  Proof. intros. unfold CUSUMConfig_init, acc_cusum. gsteps. Qed.
  Lemma PageHinkleyConfig_eq : forall (delta lam alpha : F) n,
    verdict (PageHinkleyConfig_init delta lam alpha n) = acc_ph delta lam alpha n.
  Proof. intros. unfold PageHinkleyConfig_init, acc_ph, acc_cusum. gsteps. Qed.
  Lemma GMAConfig_eq : forall (alpha lam : F) n, verdict (GeometricMovingAverageConfig_init alpha lam n) = acc_gma alpha lam n.
  Proof. intros. unfold GeometricMovingAverageConfig_init, acc_gma. gsteps. Qed.
  Lemma DDMConfig_eq : forall (w d : F) n, verdict (DDMConfig_init w d n) = acc_spc w d n.
  Proof. intros. unfold DDMConfig_init, acc_spc. gsteps. Qed.
  Lemma RDDMConfig_eq : forall (w d : F) maxc minc maxw n,
    verdict (RDDMConfig_init w d maxc minc maxw n) = acc_rddm w d n maxc minc maxw.
  Proof. intros. unfold RDDMConfig_init, acc_rddm, acc_spc. gsteps. Qed.
  Lemma ECDDWTConfig_eq : forall (l : F) arl (w : F) n, verdict (ECDDWTConfig_init l arl w n) = acc_ecdd l w arl n.
  Proof. intros. unfold ECDDWTConfig_init, acc_ecdd, arl_ok. gsteps. Qed.
  Lemma ADWINConfig_eq : forall clock (delta : F) m mws n,
    verdict (ADWINConfig_init clock delta m mws n) = acc_adwin clock delta m mws n.
  Proof. intros. unfold ADWINConfig_init, acc_adwin. gsteps. Qed.
  Lemma STEPDConfig_eq : forall (ad aw : F) n, verdict (STEPDConfig_init ad aw n) = acc_stepd ad aw n.
  Proof. intros. unfold STEPDConfig_init, acc_stepd. gsteps. Qed.
  Lemma KSWINConfig_eq : forall (alpha : F) seed n nt, verdict (KSWINConfig_init alpha seed n nt) = acc_kswin alpha seed n nt.
  Proof.
    intros. unfold KSWINConfig_init, acc_kswin, seed_ok. destruct seed as [z|]; cbn.
    - rewrite negb_andb, <- Z.ltb_antisym, <- Z.leb_antisym. destruct (_ || _); [reflexivity|]. gsteps.
    - gsteps.
  Qed.
  Lemma PrequentialError_eq : forall alpha : F, verdict (PrequentialError_init alpha) = acc_preq true alpha.
  Proof. intros. unfold PrequentialError_init, acc_preq. gsteps. Qed.

  (** constructors that run the SPC base constructor with its default levels first *)
  Hypothesis HS : sane A.
  Lemma EDDMConfig_eq : forall (a b l : F) nmis, verdict (EDDMConfig_init a b l nmis) = acc_eddm a b l nmis.
  Proof. intros. destruct HS as (H1 & H2 & H3). unfold EDDMConfig_init, acc_eddm. cbn. rewrite H1, H2, H3. gsteps. Qed.
  Lemma HDDMAConfig_eq : forall (ad aw : F) two n, verdict (HDDMAConfig_init ad aw two n) = acc_hddma ad aw true n.
  Proof. intros. destruct HS as (H1 & H2 & H3). unfold HDDMAConfig_init, acc_hddma. cbn. rewrite H1, H2, H3. gsteps. Qed.
  Lemma HDDMWConfig_eq : forall (ad aw : F) two (l : F) n, verdict (HDDMWConfig_init ad aw two l n) = acc_hddmw ad aw true l n.
  Proof. intros. destruct HS as (H1 & H2 & H3). unfold HDDMWConfig_init, acc_hddmw, acc_hddma. cbn. rewrite H1, H2, H3. gsteps. Qed.
End EqConfig.

(** * C19 over the source-derived constructors (over R): accepted <-> the documented domain *)
Theorem src_ddm_accepts_iff : forall (w d : R) n,
  verdict (DDMConfig_init (A:=RealA) w d n) = Ok tt <-> (1 <= n)%Z /\ (0 < w)%R /\ (0 < d)%R /\ (w < d)%R.
Proof. intros. rewrite DDMConfig_eq. apply spc_accepts_iff. Qed.
Theorem src_adwin_accepts_iff : forall clock (delta : R) m mws n,
  verdict (ADWINConfig_init (A:=RealA) clock delta m mws n) = Ok tt <->
  (1 <= n)%Z /\ (1 <= clock)%Z /\ (0 < delta < 1)%R /\ (1 <= m)%Z /\ (1 <= mws)%Z.
Proof. intros. rewrite ADWINConfig_eq. apply adwin_accepts_iff. Qed.
Theorem src_cusum_accepts_iff : forall (delta lam : R) n,
  verdict (CUSUMConfig_init (A:=RealA) delta lam n) = Ok tt <-> (1 <= n)%Z /\ (0 <= lam)%R /\ (0 <= delta <= 1)%R.
Proof. intros. rewrite CUSUMConfig_eq. apply cusum_accepts_iff. Qed.
Theorem src_rddm_accepts_iff : forall (w d : R) maxc minc maxw n,
  verdict (RDDMConfig_init (A:=RealA) w d maxc minc maxw n) = Ok tt <-> ((1 <= n)%Z /\ (0 < w)%R /\ (0 < d)%R /\ (w < d)%R) /\ (1 <= minc)%Z.
Proof. intros. rewrite RDDMConfig_eq. apply rddm_accepts_iff. Qed.
Theorem src_ecdd_accepts_iff : forall (l : R) arl (w : R) n,
  verdict (ECDDWTConfig_init (A:=RealA) l arl w n) = Ok tt <->
  (1 <= n)%Z /\ (arl = 100 \/ arl = 400 \/ arl = 1000)%Z /\ (0 <= l <= 1)%R /\ (0 < w < 1)%R.
Proof. intros. rewrite ECDDWTConfig_eq. apply ecdd_accepts_iff. Qed.
Theorem src_eddm_accepts_iff : forall (a b l : R) nmis,
  verdict (EDDMConfig_init (A:=RealA) a b l nmis) = Ok tt <-> (0 < b)%R /\ (b < a)%R /\ (0 < l)%R /\ (0 <= nmis)%Z.
Proof. intros. rewrite (EDDMConfig_eq sane_R). apply eddm_accepts_iff. Qed.
Theorem src_hddma_accepts_iff : forall (ad aw : R) two n,
  verdict (HDDMAConfig_init (A:=RealA) ad aw two n) = Ok tt <-> (1 <= n)%Z /\ (0 < ad <= 1)%R /\ (0 < aw <= 1)%R /\ (ad < aw)%R.
Proof. intros. rewrite (HDDMAConfig_eq sane_R). rewrite hddma_accepts_iff. tauto. Qed.
Theorem src_hddmw_accepts_iff : forall (ad aw : R) two (l : R) n,
  verdict (HDDMWConfig_init (A:=RealA) ad aw two l n) = Ok tt <->
  ((1 <= n)%Z /\ (0 < ad <= 1)%R /\ (0 < aw <= 1)%R /\ (ad < aw)%R) /\ (0 < l <= 1)%R.
Proof. intros. rewrite (HDDMWConfig_eq sane_R). rewrite hddmw_accepts_iff. tauto. Qed.
Theorem src_kswin_accepts_iff : forall (alpha : R) seed n nt,
  verdict (KSWINConfig_init (A:=RealA) alpha seed n nt) = Ok tt <->
  seed_ok seed = true /\ (1 <= n)%Z /\ (0 < alpha)%R /\ (1 <= nt)%Z /\ (2 * nt <= n)%Z.
Proof. intros. rewrite KSWINConfig_eq. apply kswin_accepts_iff. Qed.
Theorem src_stepd_accepts_iff : forall (ad aw : R) n,
  verdict (STEPDConfig_init (A:=RealA) ad aw n) = Ok tt <-> (1 <= n)%Z /\ (0 < ad)%R /\ (0 < aw)%R /\ (ad < aw)%R.
Proof. intros. rewrite STEPDConfig_eq. apply stepd_accepts_iff. Qed.
Theorem src_ph_accepts_iff : forall (delta lam alpha : R) n,
  verdict (PageHinkleyConfig_init (A:=RealA) delta lam alpha n) = Ok tt <->
  ((1 <= n)%Z /\ (0 <= lam)%R /\ (0 <= delta <= 1)%R) /\ (0 <= alpha <= 1)%R.
Proof. intros. rewrite PageHinkleyConfig_eq. apply ph_accepts_iff. Qed.
Theorem src_gma_accepts_iff : forall (alpha lam : R) n,
  verdict (GeometricMovingAverageConfig_init (A:=RealA) alpha lam n) = Ok tt <-> (1 <= n)%Z /\ (0 <= lam)%R /\ (0 <= alpha <= 1)%R.
Proof. intros. rewrite GMAConfig_eq. apply gma_accepts_iff. Qed.
Theorem src_preq_accepts_iff : forall alpha : R,
  verdict (PrequentialError_init (A:=RealA) alpha) = Ok tt <-> (0 < alpha <= 1)%R.
Proof. intros. rewrite PrequentialError_eq. rewrite preq_accepts_iff. tauto. Qed.
(** binary64: the same constructors, run on NaN (the known finding F34: `value <= 0` is False for NaN) *)
Example src_ddm_accepts_nan : verdict (DDMConfig_init (A:=FloatA) nan 3%float 30%Z) = Ok tt.
Proof. vm_compute. reflexivity. Qed.
Example src_cusum_rejects_nan_delta : verdict (CUSUMConfig_init (A:=FloatA) nan 50%float 30%Z) = Raise ValueError.
Proof. vm_compute. reflexivity. Qed.
Print Assumptions src_ddm_accepts_iff.
Print Assumptions src_adwin_accepts_iff.
Print Assumptions src_cusum_accepts_iff.
