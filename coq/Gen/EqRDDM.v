(** Source-level tie for C03 (RDDM): the definitions GENERATED from rddm.py -- `_update`, `_rdd_drift_case` (a
    `for _ in range(count)` loop walking the ring buffer of stored predictions by index, translated to [iter_res]),
    `_reset_stats`, `reset` -- equal the hand-written model [SPC.v] over the reals on non-negative streams. *)
From Coq Require Import ZArith List Bool Lia Reals Lra.
From FV Require Import NumSys RealA Py NumX Sums Queue Stats Detector SPC QueueRef StatsR SPCSpec SPCR RDDMR.
From FVG Require Import GSrc EqStats EqSPC.
Import ListNotations.

Definition rcfg_t (c : rddm_cfg RealA) := (rd_min c, rd_warn c, rd_drift c, rd_max_concept c, rd_min_concept c, rd_max_warn c).
Definition rddm_t (c : rddm_cfg RealA) (s : rddm_st RealA) :=
  (rcfg_t c, rn s, rdrift s, mean_t (rer s), mins_er (rmins s), mins_sd (rmins s), rwarning s, rnum_warn s, rflag s, cq_t (rpred s)).

(** carried state of the rebuild loop: (num_instances, mean, num_values, min_error_rate, min_std, pos) *)
Definition enc (acc : Z * mean_st RealA * mins (A:=RealA)) (pos : Z) :=
  let '(n, er, m) := acc in (n, m_mean er, m_n er, mins_er m, mins_sd m, pos).
Definition acc_ok (acc : Z * mean_st RealA * mins (A:=RealA)) : Prop :=
  let '(n, er, m) := acc in (0 <= n)%Z /\ (0 <= m_n er)%Z /\ (0 <= m_mean er)%R.

Lemma mean_update_nonneg : forall (er : mean_st RealA) (v : R), (0 <= m_n er)%Z -> (0 <= m_mean er)%R -> (0 <= v)%R ->
  (0 <= m_mean (mean_update er v))%R.
Proof.
  intros er v Hn Hm Hv. unfold mean_update, incr_op. cbn [m_mean add sub div ofZ RealA num].
  assert (H1 : (1 <= IZR (m_n er + 1))%R) by (apply IZR_le; lia).
  set (k := IZR (m_n er + 1)) in *.
  replace (m_mean er + (v - m_mean er) / k)%R with ((m_mean er * (k - 1) + v) / k)%R by (field; lra).
  apply Rmult_le_pos; [|left; apply Rinv_0_lt_compat; lra]. nra.
Qed.

Lemma RDDM_drift_case_eq : forall c s (d : list R),
  q_max (rpred s) = rd_min_concept c -> (1 <= q_max (rpred s))%Z -> (0 <= q_first (rpred s) < q_max (rpred s))%Z ->
  (0 <= q_count (rpred s))%Z -> cq_abs (rpred s) = map Some d -> (forall v, In v d -> 0 <= v)%R ->
  RDDM__rdd_drift_case (rddm_t c s) = Ok (rddm_t c (rdd_drift_case c s), tt) /\
  (let s' := rdd_drift_case c s in acc_ok (rn s', rer s', rmins s')).
Proof.
  intros c [n er m dr w nw fl q] d HM H1 Hf Hc Habs Hd. cbn in HM, H1, Hf, Hc, Habs.
  cbv zeta. unfold rdd_drift_case. cbn [rn rer rmins rdrift rwarning rnum_warn rflag rpred].
  remember (fold_left (rebuild_one c dr) (cq_abs q) (0%Z, mean_init, None)) as F0 eqn:EF. destruct F0 as [[n1 er1] m1].
  unfold RDDM__rdd_drift_case, RDDM__reset_stats, Mean_init, rddm_t, rcfg_t, cq_t, mean_t, mins_er, mins_sd.
  cbn [rn rer rmins rdrift rwarning rnum_warn rflag rpred]. cbn -[iter_res Z.mul Mean_update].
  match goal with |- context [iter_res _ ?F _] => set (Floop := F) end.
  assert (L : forall k pos acc (l : list R), acc_ok acc -> read_from q pos k = map Some l -> (forall v, In v l -> (0 <= v)%R) ->
     exists pos', iter_res k Floop (enc acc pos) = Ok (enc (fold_left (rebuild_one c dr) (map Some l) acc) pos') /\
                  acc_ok (fold_left (rebuild_one c dr) (map Some l) acc)).
  { induction k as [|k IH]; intros pos [[n0 er0] m0] l Hacc Hr Hl.
    - destruct l; [|discriminate]. exists pos. split; [reflexivity|exact Hacc].
    - cbn [read_from] in Hr. destruct l as [|v l']; [discriminate|]. cbn [map] in Hr. injection Hr as Hs Hr'.
      destruct Hacc as (Hn0 & Hk0 & Hm0).
      assert (Hv : (0 <= v)%R) by (apply Hl; left; reflexivity).
      pose proof (mean_update_nonneg er0 v Hk0 Hm0 Hv) as Hm1.
      assert (Hstep : Floop (enc (n0, er0, m0) pos) = Ok (enc (rebuild_one c dr (n0, er0, m0) (Some v)) ((pos + 1) mod q_max q)%Z)).
      { subst Floop. unfold enc, rebuild_one, eps_std. cbn -[Z.mul Mean_update mean_update].
        destruct (Z.ltb_spec (n0 + 1) 0); [lia|]. cbn -[Z.mul Mean_update mean_update].
        unfold slot in Hs. rewrite Hs. cbn -[Z.mul Mean_update mean_update].
        change (m_mean er0, m_n er0) with (mean_t er0). rewrite (Mean_update_eq er0 v Hk0). cbn -[Z.mul mean_update].
        rewrite <- HM. match goal with |- context [Z.eqb ?a 0%Z] => destruct (Z.eqb_spec a 0) as [e|e] end; [exfalso; cbn in *; lia|].
        set (erx := mean_update er0 v) in *.
        assert (G1 : Rltb (m_mean erx) 0 = false) by (apply Rltb_false; exact Hm1).
        assert (G2 : forall x, Rltb (R_sqrt.sqrt x) 0 = false) by (intros x; apply Rltb_false; apply sqrt_pos).
        unfold update_mins, mins_er, mins_sd, one. cbn [ofZ RealA num add sub mul div sqrt ltb].
        destruct dr; cbn -[Z.mul mean_update]; [|reflexivity].
        destruct (Z.leb (rd_min c) (n0 + 1)); cbn -[Z.mul mean_update]; [|reflexivity].
        destruct m0 as [[pm sm]|]; cbn -[Z.mul mean_update].
        - destruct (Rltb _ (pm + sm)); cbn -[Z.mul mean_update]; [rewrite G1, G2|]; reflexivity.
        - rewrite G1, G2. reflexivity. }
      cbn [iter_res]. rewrite Hstep.
      destruct (IH ((pos + 1) mod q_max q)%Z (rebuild_one c dr (n0, er0, m0) (Some v)) l') as [pos' [Hp Hok]].
      + unfold rebuild_one, eps_std, acc_ok. split; [lia|split; [cbn; lia|exact Hm1]].
      + exact Hr'.
      + intros x Hx. apply Hl. right. exact Hx.
      + exists pos'. split; [rewrite Hp; reflexivity|exact Hok]. }
  destruct (L (Z.to_nat (q_count q)) (q_first q) (0%Z, mean_init, None) d) as [pos' [HL HLok]].
  - cbn. repeat split; try lia. lra.
  - exact Habs.
  - exact Hd.
  - match goal with |- context [iter_res ?k Floop ?init] => change init with (enc (0%Z, mean_init (A:=RealA), None) (q_first q)) end.
    assert (E2 : Ok (enc (fold_left (rebuild_one c dr) (map Some d) (0%Z, mean_init (A:=RealA), None)) pos') = Ok (enc (n1, er1, m1) pos')).
    { rewrite EF. do 2 f_equal. f_equal. symmetry. exact Habs. }
    match goal with |- context [iter_res ?k Floop ?i] =>
      replace (iter_res k Floop i) with (Ok (enc (n1, er1, m1) pos'))
        by (etransitivity; [symmetry; exact E2 | symmetry; exact HL]) end.
    split; [reflexivity|]. cbn [rn rer rmins].
    assert (E3 : fold_left (rebuild_one c dr) (map Some d) (0%Z, mean_init (A:=RealA), None) = (n1, er1, m1)) by (rewrite EF; f_equal; symmetry; exact Habs).
    rewrite E3 in HLok. exact HLok.
Qed.

Definition rq_ok (c : rddm_cfg RealA) (q : cq R) (d : list R) : Prop :=
  cq_rel (rd_min_concept c) q d /\ (forall v, In v d -> 0 <= v)%R.

Lemma thr_eq : forall (m : mins (A:=RealA)) (l e : R),
  x_lt_xn (xadd (mins_er m) (xmul l (mins_sd m))) e = check_thr e m l.
Proof. intros [[pm sm]|] l e; reflexivity. Qed.

(** `_update_min_values` on the RDDM layout *)
Lemma RMIN_eq : forall c n dr er mn w nw fl q (eps std : R), (0 <= m_mean er)%R -> (0 <= std)%R ->
  RDDM__update_min_values (rcfg_t c, n, dr, mean_t er, mins_er mn, mins_sd mn, w, nw, fl, cq_t q) eps std =
    Ok ((rcfg_t c, n, dr, mean_t er, mins_er (update_mins mn (m_mean er) eps std), mins_sd (update_mins mn (m_mean er) eps std), w, nw, fl, cq_t q), tt).
Proof.
  intros c n dr er mn w nw fl q eps std Hm Hs.
  assert (G1 : Rltb (m_mean er) 0 = false) by (apply Rltb_false; exact Hm).
  assert (G2 : Rltb std 0 = false) by (apply Rltb_false; exact Hs).
  unfold RDDM__update_min_values, rcfg_t, mean_t, mins_er, mins_sd, cq_t, update_mins. cbn.
  destruct mn as [[pm sm]|]; cbn.
  - destruct (Rltb eps (pm + sm)); cbn; [rewrite G1, G2|]; reflexivity.
  - rewrite G1, G2. reflexivity.
Qed.

Ltac rw_enq Eq := change (num RealA) with R in *; rewrite !Eq.
Ltac redr := cbn -[RDDM__rdd_drift_case CircularQueue_enqueue CircularQueue_maintain_last_element Mean_update RDDM__update_min_values
                     Z.mul rcfg_t cq_t mean_t mins_er mins_sd update_mins check_thr eps_std mean_update cq_enqueue cq_keep_last lift].

(** no rebuild pending ([rddm_drift] False): a DDM step plus the bookkeeping of the prediction queue *)
Lemma RDDM_update_eq0 : forall c s v d, rflag s = false -> rq_ok c (rpred s) d -> (-1 <= rn s)%Z -> (0 <= m_n (rer s))%Z ->
  (0 <= m_mean (rer s))%R -> (0 <= v)%R ->
  RDDM__update (rddm_t c s) v = Ok (rddm_t c (rddm_step c s v), tt).
Proof.
  intros c [n er m dr w nw fl q] v d Hfl (Hrel & Hd) Hn Hk Hm Hv.
  cbn in Hfl, Hrel, Hn, Hk, Hm. subst fl.
  pose proof Hrel as (((H1 & Hlen & Hc & Hf & Hl & Hmod) & Hl1) & HM & Habs).
  assert (Hwf : cq_wf q) by (unfold cq_wf; cbn in *; lia).
  destruct (cq_enqueue_rel (rd_min_concept c) q d v ltac:(cbn in *; lia) Hrel) as (q' & Eq & Hrel').
  pose proof Hrel' as (((H1' & Hlen' & Hc' & Hf' & Hl' & Hmod') & Hl1') & HM' & Habs').
  assert (Hwf' : cq_wf q') by (unfold cq_wf; cbn in *; lia).
  pose proof (mean_update_nonneg er v Hk Hm Hv) as Hm1.
  unfold RDDM__update, rddm_t, rddm_step. cbn [rn rer rmins rdrift rwarning rnum_warn rflag rpred].
  unfold rcfg_t at 1. unfold cq_t at 1. unfold mean_t at 1. redr.
  destruct (Z.ltb_spec (n + 1) 0); [lia|]. redr.
  match goal with |- context [CircularQueue_enqueue ?a v] =>
    replace (CircularQueue_enqueue a v) with (lift (cq_t (T:=R)) (cq_enqueue q v)) by (symmetry; exact (CQ_enqueue_eq q v Hwf)) end.
  rewrite Eq. unfold lift. redr.
  match goal with |- context [Mean_update ?a v] =>
    replace (Mean_update a v) with (Ok (mean_t (mean_update er v), tt)) by (symmetry; exact (Mean_update_eq er v Hk)) end.
  redr.
  unfold cq_t, mean_t. redr.
  destruct (rd_min c <=? n + 1)%Z eqn:Emin; redr.
  2:{ unfold rcfg_t, eps_std. redr. rw_enq Eq. reflexivity. }
  set (std := R_sqrt.sqrt _). 
  assert (Hs : (0 <= std)%R) by (apply R_sqrt.sqrt_pos).
  match goal with |- context [RDDM__update_min_values ?a ?e ?sd] =>
    replace (RDDM__update_min_values a e sd) with
      (Ok ((rcfg_t c, (n+1)%Z, dr, mean_t (mean_update er v), mins_er (update_mins m (m_mean (mean_update er v)) e sd), mins_sd (update_mins m (m_mean (mean_update er v)) e sd), w, nw, false, cq_t q'), tt))
      by (symmetry; exact (RMIN_eq c (n+1)%Z dr (mean_update er v) m w nw false q' e sd Hm1 Hs)) end.
  unfold rcfg_t, cq_t, mean_t. redr. rewrite !thr_eq.
  assert (Hkeep : CircularQueue_maintain_last_element (q_count q', q_first q', q_last q', q_max q', q_slots q') = Ok (cq_t (cq_keep_last q'), tt)).
  { apply (CQ_keep_eq q' Hwf'). destruct (Z.eq_dec (q_last q') (-1)); [left; auto|right; lia]. }
  change (num RealA) with R in *. rewrite !Hkeep. unfold eps_std. redr. rw_enq Eq. fold std. redr.
  set (eps := (m_mean (mean_update er v) + std)%R).
  set (m' := update_mins m (m_mean (mean_update er v)) eps std).
  destruct (check_thr eps m' (rd_drift c)); redr.
  { destruct (nw =? 0)%Z; unfold cq_t; reflexivity. }
  destruct (check_thr eps m' (rd_warn c)); redr.
  { destruct (rd_max_warn c <=? nw)%Z; unfold cq_t; redr; rewrite ?andb_false_r, ?andb_true_r; destruct (rd_max_concept c <=? n + 1)%Z; reflexivity. }
  rewrite andb_true_r. destruct (rd_max_concept c <=? n + 1)%Z; reflexivity.
Qed.

(** rebuild pending ([rddm_drift] True): `_rdd_drift_case` first, on the incremented counter *)
Lemma RDDM_update_eq1 : forall c s v d, rflag s = true -> rq_ok c (rpred s) d -> (-1 <= rn s)%Z -> (0 <= v)%R ->
  RDDM__update (rddm_t c s) v = Ok (rddm_t c (rddm_step c s v), tt).
Proof.
  intros c [n er m dr w nw fl q] v d Hfl Hq Hn Hv. cbn in Hfl, Hq, Hn. subst fl.
  pose proof Hq as (Hrel & Hd).
  pose proof Hrel as (((H1 & Hlen & Hc & Hf & Hl & Hmod) & Hl1) & HM & Habs).
  set (s1 := {| rn := (n + 1)%Z; rer := er; rmins := m; rdrift := dr; rwarning := w; rnum_warn := nw; rflag := true; rpred := q |}).
  assert (HH := RDDM_drift_case_eq c s1 d). cbn [rpred s1] in HH.
  destruct (HH HM H1 Hf (proj1 Hc) Habs Hd) as (Hdc & Hacc). clear HH.
  cbv zeta in Hacc. unfold rdd_drift_case in Hdc, Hacc. cbn [rn rer rmins rdrift rwarning rnum_warn rflag rpred s1] in Hdc, Hacc.
  destruct (fold_left (rebuild_one c dr) (cq_abs q) (0%Z, mean_init, None)) as [[n2 er2] m2] eqn:EF.
  cbn [rn rer rmins] in Hacc. destruct Hacc as (Hn2 & Hk2 & Hm2).
  set (s2m := {| rn := (n2 - 1)%Z; rer := er2; rmins := m2; rdrift := false; rwarning := w; rnum_warn := 0%Z; rflag := false; rpred := q |}).
  assert (G : RDDM__update (rddm_t c {| rn := n; rer := er; rmins := m; rdrift := dr; rwarning := w; rnum_warn := nw; rflag := true; rpred := q |}) v
              = RDDM__update (rddm_t c s2m) v).
  { unfold RDDM__update, rddm_t, s2m. cbn [rn rer rmins rdrift rwarning rnum_warn rflag rpred].
    unfold rcfg_t, cq_t, mean_t. redr.
    replace (n2 - 1 + 1)%Z with n2 by lia.
    destruct (Z.ltb_spec (n + 1) 0); [lia|]. destruct (Z.ltb_spec n2 0); [lia|]. redr.
    change (num RealA) with R in *.
    match goal with |- context [RDDM__rdd_drift_case ?a] =>
      replace (RDDM__rdd_drift_case a) with (Ok (rddm_t c {| rn := n2; rer := er2; rmins := m2; rdrift := false; rwarning := w; rnum_warn := 0;
                     rflag := false; rpred := q |}, tt)) by (symmetry; exact Hdc) end.
    unfold rddm_t. cbn [rn rer rmins rdrift rwarning rnum_warn rflag rpred]. unfold rcfg_t, cq_t, mean_t. redr. reflexivity. }
  assert (H : rddm_step c {| rn := n; rer := er; rmins := m; rdrift := dr; rwarning := w; rnum_warn := nw; rflag := true; rpred := q |} v
              = rddm_step c s2m v).
  { unfold rddm_step, s2m, rdd_drift_case. cbn [rn rer rmins rdrift rwarning rnum_warn rflag rpred]. cbv zeta.
    cbn [rn rer rmins rdrift rwarning rnum_warn rflag rpred]. change (num RealA) with R in *. rewrite EF.
    cbn [rn rer rmins rdrift rwarning rnum_warn rflag rpred].
    replace (n2 - 1 + 1)%Z with n2 by lia. reflexivity. }
  rewrite G, H. apply RDDM_update_eq0 with (d := d); unfold s2m; cbn [rn rer rmins rdrift rwarning rnum_warn rflag rpred]; auto; lia.
Qed.

Lemma RDDM_update_eq : forall c s v d, rq_ok c (rpred s) d -> (-1 <= rn s)%Z -> (0 <= m_n (rer s))%Z ->
  (0 <= m_mean (rer s))%R -> (0 <= v)%R ->
  RDDM__update (rddm_t c s) v = Ok (rddm_t c (rddm_step c s v), tt).
Proof.
  intros c s v d Hq Hn Hk Hm Hv. destruct (rflag s) eqn:Hfl.
  - apply RDDM_update_eq1 with (d := d); assumption.
  - apply RDDM_update_eq0 with (d := d); assumption.
Qed.

(** `reset` (repaired, F09): the base reset plus `predictions.clear()` *)
Lemma RDDM_reset_eq : forall c s, q_max (rpred s) = rd_min_concept c ->
  RDDM_reset (rddm_t c s) = Ok (rddm_t c (rddm_init c), tt).
Proof.
  intros c [n er m dr w nw fl q] HM. cbn in HM.
  unfold RDDM_reset, rddm_t, rddm_init, rcfg_t, cq_t, mean_t, mins_er, mins_sd. cbn.
  unfold cq_init. cbn. change (num RealA) with R in *. rewrite HM. reflexivity.
Qed.

Lemma rebuild_n_mono : forall (c : rddm_cfg RealA) b l acc,
  (fst (fst acc) <= fst (fst (fold_left (rebuild_one c b) l acc)))%Z.
Proof.
  intros c b l; induction l as [|ov l IH]; intros [[n er] m]; cbn [fold_left fst]; [lia|].
  eapply Z.le_trans; [|apply IH]. destruct ov as [x|]; cbn [rebuild_one fst].
  - destruct (eps_std _ _). cbn [fst]. lia.
  - cbn [fst]. lia.
Qed.

Lemma rddm_step_rn : forall (c : rddm_cfg RealA) s v, (-1 <= rn s)%Z -> (0 <= rn (rddm_step c s v))%Z.
Proof.
  intros c s v Hn.
  assert (G : forall s', (0 <= rn s')%Z ->
    (0 <= rn (let pred := match cq_enqueue (rpred s') v with Ok (q, _) => q | Raise _ => rpred s' end in
              let er := mean_update (rer s') v in let n := rn s' in
              if (rd_min c <=? n)%Z then
                let '(eps, std) := eps_std (m_mean er) n in
                let m := update_mins (rmins s') (m_mean er) eps std in
                if check_thr eps m (rd_drift c) then
                  {| rn := n; rer := er; rmins := m; rdrift := true; rwarning := false; rnum_warn := rnum_warn s'; rflag := true;
                     rpred := if (rnum_warn s' =? 0)%Z then cq_keep_last pred else pred |}
                else if check_thr eps m (rd_warn c) then
                  if (rd_max_warn c <=? rnum_warn s')%Z then
                    {| rn := n; rer := er; rmins := m; rdrift := true; rwarning := false; rnum_warn := rnum_warn s'; rflag := true;
                       rpred := cq_keep_last pred |}
                  else {| rn := n; rer := er; rmins := m; rdrift := false; rwarning := true; rnum_warn := (rnum_warn s' + 1)%Z;
                          rflag := rflag s'; rpred := pred |}
                else {| rn := n; rer := er; rmins := m; rdrift := false; rwarning := false; rnum_warn := 0;
                        rflag := rflag s' || (rd_max_concept c <=? n)%Z; rpred := pred |}
              else {| rn := n; rer := er; rmins := rmins s'; rdrift := false; rwarning := false; rnum_warn := rnum_warn s';
                      rflag := rflag s'; rpred := pred |}))%Z).
  { intros s' H. cbv zeta. destruct (rd_min c <=? rn s')%Z; [|exact H].
    destruct (eps_std _ _). destruct (check_thr _ _ _); [exact H|]. destruct (check_thr _ _ _); [|exact H].
    destruct (rd_max_warn c <=? _)%Z; exact H. }
  unfold rddm_step. cbv zeta. apply G. cbn [rflag rn].
  destruct (rflag s); [|cbn [rn]; lia].
  unfold rdd_drift_case. cbn [rn rer rmins rdrift rwarning rnum_warn rflag rpred].
  pose proof (rebuild_n_mono c (rdrift s) (cq_abs (rpred s)) (0%Z, mean_init, None)) as Hmono. cbn [fst] in Hmono.
  destruct (fold_left _ _ _) as [[n2 er2] m2]. cbn [fst rn] in *. exact Hmono.
Qed.

Lemma rddm_run_rn : forall (c : rddm_cfg RealA) vs, (0 <= rn (rddm_run c vs))%Z.
Proof.
  intros c vs; induction vs as [|v vs IH] using rev_ind; [cbn; lia|].
  rewrite rddm_run_snoc. apply rddm_step_rn. lia.
Qed.

Lemma In_lastn : forall {X} k (l : list X) x, In x (lastn k l) -> In x l.
Proof. intros X k l x H. unfold lastn in H. rewrite <- (firstn_skipn (length l - k) l). apply in_or_app. right. exact H. Qed.

Lemma g_rddm_run_eq : forall (c : rddm_cfg RealA) vs pre, (1 <= rd_min_concept c)%Z -> (forall v, In v (pre ++ vs) -> 0 <= v)%R ->
  g_run RDDM__update (rddm_t c (rddm_run c pre)) vs = Ok (rddm_t c (rddm_run c (pre ++ vs))).
Proof.
  intros c vs. induction vs as [|v r IH]; intros pre HM H; [rewrite app_nil_r; reflexivity|].
  cbn [g_run].
  destruct (rddm_run_RInv c pre HM) as (k & j & Hk & Her & Hj & Hrel).
  assert (Hpre : forall x, In x pre -> (0 <= x)%R) by (intros x Hx; apply H; apply in_or_app; left; exact Hx).
  rewrite RDDM_update_eq with (d := lastn j pre).
  - rewrite <- rddm_run_snoc. replace (pre ++ v :: r) with ((pre ++ [v]) ++ r) by (rewrite <- app_assoc; reflexivity).
    apply IH; [exact HM|]. intros x Hx. apply H. rewrite <- app_assoc in Hx. exact Hx.
  - split; [exact Hrel|]. intros x Hx. apply Hpre. eapply In_lastn; exact Hx.
  - pose proof (rddm_run_rn c pre). lia.
  - rewrite Her. destruct (mean_run_inv (lastn k pre)) as [_ Hc]. rewrite Hc. lia.
  - rewrite Her. destruct (mean_run_inv (lastn k pre)) as [Hmn _]. rewrite Hmn. apply Rmean_nonneg.
    intros x Hx. apply Hpre. eapply In_lastn; exact Hx.
  - apply H. apply in_or_app. right. left. reflexivity.
Qed.

(** * C03 (RDDM clauses) over the source-derived definitions *)

Definition flag9 {X1 X2 X3 X4 X5 X6 X7 X8 X9 X10} (t : X1 * X2 * X3 * X4 * X5 * X6 * X7 * X8 * X9 * X10) : X9 :=
  let '(_, _, _, _, _, _, _, _, fl, _) := t in fl.

(** from the state the source's reset() produces (its prediction queue was built with min_concept_size), on any stream of
    non-negative reals no update raises -- including the `_rdd_drift_case` replay loop over the stored predictions -- and
    the error-rate estimate (mean, count) is the batch mean of the last k values for some k <= t *)
Theorem src_rddm_suffix_mean : forall (c : rddm_cfg RealA) (s0 : rddm_st RealA) (vs : list R),
  (1 <= rd_min_concept c)%Z -> q_max (rpred s0) = rd_min_concept c -> (forall v, In v vs -> 0 <= v)%R ->
  match RDDM_reset (rddm_t c s0) with
  | Ok (s1, _) => exists n dr mean cnt mer msd w nw fl q (k : nat),
      g_run RDDM__update s1 vs = Ok (rcfg_t c, n, dr, (mean, cnt), mer, msd, w, nw, fl, q) /\
      (k <= length vs)%nat /\ cnt = Z.of_nat k /\ mean = Rmean (lastn k vs)
  | Raise _ => False
  end.
Proof.
  intros c s0 vs HM Hq Hv. rewrite (RDDM_reset_eq c s0 Hq). cbv beta iota.
  destruct (rddm_suffix_Rmean c vs HM) as (k & Hk & Hmean & Hcnt).
  pose proof (g_rddm_run_eq c vs [] HM Hv) as Hrun. cbn [app] in Hrun.
  change (rddm_run c []) with (rddm_init c) in Hrun.
  eexists _, _, _, _, _, _, _, _, _, _, k. split; [exact Hrun|]. split; [exact Hk|]. split; [exact Hcnt|exact Hmean].
Qed.
Print Assumptions src_rddm_suffix_mean.

(** source against source: while the rebuild flag `rddm_drift` stays False on every proper prefix, the translated RDDM and the
    translated DDM (same levels and min_num_instances), each started from its own reset(), hold the same counter, error rate
    and minima and give the same verdict -- except at a step where RDDM's warning limit turns DDM's warning into a drift *)
Theorem src_rddm_simulates_ddm : forall (c : rddm_cfg RealA) (s0 : rddm_st RealA) (d0 : ddm_st RealA) (vs : list R),
  (1 <= rd_min_concept c)%Z -> q_max (rpred s0) = rd_min_concept c -> (forall v, In v vs -> 0 <= v)%R ->
  match RDDM_reset (rddm_t c s0), DDM_reset (ddm_t (ddm_of c) d0) with
  | Ok (r1, _), Ok (d1, _) =>
      (forall k, (k < length vs)%nat ->
         match g_run RDDM__update r1 (firstn k vs) with Ok t => flag9 t = false | Raise _ => False end) ->
      exists n er mer msd dr w nw fl q dd wd,
        g_run RDDM__update r1 vs = Ok (rcfg_t c, n, dr, er, mer, msd, w, nw, fl, q) /\
        g_run DDM__update d1 vs = Ok (ddm_cfg_t (ddm_of c), n, dd, er, mer, msd, wd) /\
        ((dr = dd /\ w = wd) \/ (dr = true /\ w = false /\ dd = false /\ wd = true))
  | _, _ => False
  end.
Proof.
  intros c s0 d0 vs HM Hq Hv. rewrite (RDDM_reset_eq c s0 Hq), DDM_reset_eq. cbv beta iota. intros Hflag.
  assert (Hne : no_event_before c vs).
  { intros k Hk. specialize (Hflag k Hk).
    assert (Hvk : forall v, In v (firstn k vs) -> (0 <= v)%R).
    { intros v Hin. apply Hv. rewrite <- (firstn_skipn k vs). apply in_or_app. left. exact Hin. }
    pose proof (g_rddm_run_eq c (firstn k vs) [] HM Hvk) as Hrun. cbn [app] in Hrun.
    change (rddm_run c []) with (rddm_init c) in Hrun. rewrite Hrun in Hflag. exact Hflag. }
  destruct (rddm_simulates_ddm RealA c vs Hne) as (Hn & He & Hm & Hver).
  pose proof (g_rddm_run_eq c vs [] HM Hv) as Hrun. cbn [app] in Hrun. change (rddm_run c []) with (rddm_init c) in Hrun.
  pose proof (g_ddm_run_eq (ddm_of c) vs [] Hv) as Hdrun. cbn [app] in Hdrun.
  change (ddm_run (ddm_of c) []) with (ddm_init (ddm_of c)) in Hdrun.
  change (ddm_run (ddm_of c) vs) with (ddm_run' (ddm_of c) vs) in Hdrun.
  eexists _, _, _, _, _, _, _, _, _, _, _. split; [exact Hrun|]. split.
  - rewrite Hdrun. unfold ddm_t. rewrite <- Hn, <- He, <- Hm. reflexivity.
  - destruct Hver as [[H1 H2]|(_ & H1 & H2 & H3 & H4 & _)]; [left; split; assumption|right; repeat split; assumption].
Qed.
Print Assumptions src_rddm_simulates_ddm.
