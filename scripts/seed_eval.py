#!/usr/bin/env python3
"""usage: scripts/seed_eval.py <mutant dir with patch.diff demo.py meta.json> <Cxx> [more checks...]
Confirms a seeded change in a scratch worktree of /repo (demo passes without / fails with the patch,
the 144 baseline tests still pass with it) and runs the given checks against the patched worktree."""
import json, os, shutil, subprocess, sys, tempfile, xml.etree.ElementTree as ET

mdir, pids = os.path.abspath(sys.argv[1]), sys.argv[2:]
wt = tempfile.mkdtemp(prefix="fvseed.", dir="/tmp")
os.rmdir(wt)
sh = lambda c, **k: subprocess.run(c, shell=True, capture_output=True, text=True, **k)
sh(f"git -C /repo worktree add -q --detach {wt} HEAD")
env = dict(os.environ, PYTHONPATH=wt, PYTHONHASHSEED="0", PYTHONDONTWRITEBYTECODE="1", PYTHONWARNINGS="ignore", FROUROS_REPO=wt, VERIF_OUT="/tmp/fvseed_out")
out = {"dir": mdir}
try:
    r = subprocess.run(["/venv/bin/python", os.path.join(mdir, "demo.py")], env=env, capture_output=True, text=True, cwd=wt, timeout=900)
    out["demo_clean_rc"] = r.returncode
    a = sh(f"git -C {wt} apply {mdir}/patch.diff")
    out["apply_rc"] = a.returncode
    if a.returncode:
        out["apply_err"] = a.stderr[-300:]
    else:
        r = subprocess.run(["/venv/bin/python", os.path.join(mdir, "demo.py")], env=env, capture_output=True, text=True, cwd=wt, timeout=900)
        out["demo_patched_rc"] = r.returncode
        out["demo_patched_tail"] = (r.stdout + r.stderr)[-300:]
        x = os.path.join(wt, "_j.xml")
        subprocess.run(f"cd {wt} && /venv/bin/python -m pytest -q -p no:cacheprovider --timeout=900 --continue-on-collection-errors --junitxml={x}", shell=True, env=env, capture_output=True)
        passed = set()
        for tc in ET.parse(x).getroot().iter("testcase"):
            if not any(c.tag in ("failure", "error", "skipped") for c in tc):
                passed.add(f"{tc.get('classname')}::{tc.get('name')}")
        base = json.load(open("/root/.vp/BASELINE.json"))["stable_pass"]
        out["baseline_missing"] = [t for t in base if t not in passed][:5]
        os.remove(x)
        out["checks"] = {}
        for p in pids:
            r = subprocess.run(["/venv/bin/python", "/verif/harness/main.py", p, "--tier", "quick"], env=env, capture_output=True, text=True, cwd="/verif", timeout=3000)
            lines = [l for l in r.stdout.splitlines() if l.startswith(("VIOLATION", "[C"))]
            out["checks"][p] = dict(rc=r.returncode, violations=sum(l.startswith("VIOLATION") for l in lines), no_input=sum("no-failing-input-found" in l for l in lines), summary=lines[-1][:300] if lines else (r.stdout + r.stderr)[-300:])
finally:
    sh(f"git -C /repo worktree remove --force {wt}")
    shutil.rmtree(wt, ignore_errors=True)
ok = out.get("demo_clean_rc") == 0 and out.get("demo_patched_rc") not in (0, None) and not out.get("baseline_missing")
out["valid_seed"] = bool(ok)
print(json.dumps(out, indent=1))
