#!/bin/sh
# usage: scripts/revert_test.sh <fix-commit> Cxx [Cyy ...]
# Temporarily re-introduces the defect repaired by <fix-commit> (reverse patch on /repo's working tree),
# runs the given checks, and restores the tree.
c=$1; shift
cd /repo || exit 2
git diff --quiet || { echo "repo has local changes"; exit 2; }
git show "$c" | git apply -R || exit 2
for p in "$@"; do
  (cd /verif && ./check "$p" 2>&1 | grep -v conda | grep -E "^(VIOLATION|KNOWN|\[C)" | cut -c1-400)
done
git checkout -- .
