#!/bin/sh
# Independent re-check (coqchk) of the source tie: translates /repo's current source, compiles coq/Gen/Eq*.v against
# it in a scratch directory and runs coqchk -o on the result. Several minutes. Not part of the per-property checks.
set -e
D=/verif/build/coqchk_gen
rm -rf "$D"; mkdir -p "$D"
cd /verif/harness
PYTHONPATH=/repo /venv/bin/python -c "import gen_units; t, e = gen_units.translate('/repo'); assert not e, e; open('$D/GSrc.v', 'w').write(t); t, e, o = gen_units.translate_fns('/repo'); assert not e, e; open('$D/GFn.v', 'w').write(t)"
cp /verif/coq/Gen/Eq*.v "$D"/
cd "$D"
W=-notation-overridden,-inexact-float,-deprecated-hint-without-locality,-deprecated-instance-without-locality
for f in GSrc GFn EqStats EqCusum EqConfig EqSPC EqHDDM EqHDDMW EqRDDM EqExec EqSTEPD EqSrcStats EqKSWIN EqBOCD EqBucket EqPerm EqDist EqData EqIKS EqAQ EqKuiper; do
  timeout 900 coqc -Q /verif/coq FV -Q . FVG -w $W $f.v > /dev/null
done
timeout 3000 coqchk -silent -o -Q /verif/coq FV -Q . FVG EqStats.vo EqCusum.vo EqConfig.vo EqSPC.vo EqHDDM.vo EqHDDMW.vo EqRDDM.vo EqExec.vo EqSTEPD.vo EqSrcStats.vo EqKSWIN.vo EqBOCD.vo EqBucket.vo EqPerm.vo EqDist.vo EqData.vo EqIKS.vo EqAQ.vo EqKuiper.vo > coqchk.log 2>&1
rc=$?
awk '/\* Axioms:/,/\* Inductives whose positivity is assumed/' coqchk.log | grep -v "PrimInt63\|PrimFloat\|Uint63"
echo "coqchk (source tie) exit status: $rc (full log: $D/coqchk.log)"
exit $rc
