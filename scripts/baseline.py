#!/usr/bin/env python3
"""Run the repository's pinned suite and compare with /root/.vp/BASELINE.json stable passes."""
import json, subprocess, sys, tempfile, os, xml.etree.ElementTree as ET
base = json.load(open('/root/.vp/BASELINE.json'))
d = tempfile.mkdtemp(prefix='fvbase')
x = os.path.join(d, 'j.xml')
subprocess.run(f"cd /repo && /venv/bin/python -m pytest -ra -q -p no:cacheprovider --timeout=900 --continue-on-collection-errors --junitxml={x}", shell=True, capture_output=True)
passed = set()
for tc in ET.parse(x).getroot().iter('testcase'):
    if not any(c.tag in ('failure', 'error', 'skipped') for c in tc):
        passed.add(f"{tc.get('classname')}::{tc.get('name')}")
missing = [t for t in base['stable_pass'] if t not in passed]
print(f"stable_pass={len(base['stable_pass'])} passed_now={len(passed)} missing={len(missing)}")
for m in missing: print("  MISSING", m)
import shutil; shutil.rmtree(d)
sys.exit(1 if missing else 0)
