#!/bin/sh
# Independent re-check of every property file (and everything it depends on) with coqchk; prints the axioms
# the compiled development relies on. About 1-3 minutes. Not part of the per-property checks.
cd /verif/coq || exit 2
timeout 3000 coqchk -silent -o -Q . FV Props/*.vo > /verif/build/coqchk.log 2>&1
rc=$?
awk '/\* Axioms:/,/\* Inductives whose positivity is assumed/' /verif/build/coqchk.log | grep -v "PrimInt63\|PrimFloat\|Uint63"
echo "coqchk exit status: $rc (full log: build/coqchk.log)"
exit $rc
