#!/bin/sh
# Build the whole Coq development from scratch (full .vo) and audit it.
set -e
cd /verif/coq
coq_makefile -f _CoqProject -o Makefile
timeout 3000 make -j16 2>&1 | grep -v "conda" | tail -40
cd /verif
sh scripts/audit.sh
