#!/bin/sh
# usage: scripts/fa_pass.sh <tier> <jobs> <seeds> [Cxx ...]: false-alarm pass on the unchanged tree -- every (seed, check) pair is run
# with its output directory outside /verif, one summary line each; VIOLATION lines are shown.
T=$1; J=$2; SEEDS=$3; shift 3
CH=${*:-C01 C02 C03 C04 C05 C06 C07 C08 C09 C10 C11 C12 C13 C14 C15 C16 C17 C18 C19 C20}
for sd in $SEEDS; do for c in $CH; do echo "$sd $c"; done; done | xargs -P"$J" -L1 sh -c '
  sd=$0; c=$1
  VERIF_SEED=$sd VERIF_OUT=/tmp/fa_out_$sd /verif/check $c --tier '"$T"' 2>&1 | grep -E "^\[C|VIOLATION" | sed "s/^/seed=$sd /" | cut -c1-230'
rm -rf /tmp/fa_out_*
