#!/usr/bin/env python3
"""Regenerates the machine-written tables of DESIGN.md (between <!-- BEGIN x --> / <!-- END x --> markers)
from known_findings.json, seeded/*/meta.json and evidence/*.json."""
import glob, json, os, re
V = '/verif'
def block(name, text, s):
    a, b = f"<!-- BEGIN {name} -->", f"<!-- END {name} -->"
    i, j = s.index(a) + len(a), s.index(b)
    return s[:i] + "\n" + text.rstrip() + "\n" + s[j:]
s = open(f'{V}/DESIGN.md').read()
k = json.load(open(f'{V}/known_findings.json'))['findings']
rows = ["| id | property | status | what failed (witness) |", "|---|---|---|---|"]
for f in sorted(k, key=lambda f: (f['property'], f['id'])):
    rows.append(f"| {f['id']} | {f['property']} | {f['status']} | {f['summary'].replace('|', '/')[:330]} |")
s = block("FINDINGS", "\n".join(rows), s)
rows = ["| seeded change | breaks | needs | caught by (violations, of which no-failing-input-found) |", "|---|---|---|---|"]
for d in sorted(glob.glob(f'{V}/seeded/*')):
    try:
        m = json.load(open(os.path.join(d, 'meta.json')))
    except Exception:
        continue
    ch = m.get('checks_run_against_change', {})
    caught = ", ".join(f"{p}: {v['violations']}" + (f" ({v['no_input']} nfi)" if v['no_input'] else "") for p, v in ch.items() if v['violations']) or "**missed**"
    rows.append(f"| {os.path.basename(d)} | {str(m.get('breaks', ''))[:140].replace('|', '/')} | {str(m.get('needs', ''))[:200].replace('|', '/')} | {caught} |")
s = block("SEEDED", "\n".join(rows), s)
rows = ["| property | theorems in Props | axioms (Print Assumptions) | cases (quick) | non-trivial | correspondence cases | wall s |", "|---|---|---|---|---|---|---|"]
for f in sorted(glob.glob(f'{V}/evidence/C*.json')):
    e = json.load(open(f)); c = e['coverage']
    ax = c['trusted_base'][1].split(': ', 1)[1]
    ax = "none" if ax.startswith("none") else ", ".join(a.split('.')[-1] for a in ax.split(', '))
    rows.append(f"| {e['property_id']} | {len(c['theorems'])} | {ax} | {c['evaluations']} | {c['distinct_nontrivial']} | {c['correspondence_cases']} | {e['wall_s']} |")
s = block("EVIDENCE", "\n".join(rows), s)
open(f'{V}/DESIGN.md', 'w').write(s)
print("tables regenerated")
