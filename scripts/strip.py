#!/usr/bin/env python3
"""Print python sources without docstrings / blank lines (reading aid)."""
import sys,ast
for f in sys.argv[1:]:
    src=open(f).read()
    tree=ast.parse(src)
    lines=src.split('\n')
    rm=set()
    for node in ast.walk(tree):
        if isinstance(node,(ast.FunctionDef,ast.ClassDef,ast.Module)):
            b=node.body
            if b and isinstance(b[0],ast.Expr) and isinstance(getattr(b[0],'value',None),ast.Constant) and isinstance(b[0].value.value,str):
                for i in range(b[0].lineno-1,b[0].end_lineno): rm.add(i)
    print('#### ',f)
    for i,l in enumerate(lines):
        if i in rm or not l.strip(): continue
        print(f"{i+1}\t{l}")
