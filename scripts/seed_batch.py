#!/usr/bin/env python3
"""usage: scripts/seed_batch.py <seedout dir> <Cxx> [extra checks]: evaluate every m*/ under the dir, keep the valid ones in /verif/seeded."""
import json, os, shutil, subprocess, sys
src, pid, extra = sys.argv[1], sys.argv[2], sys.argv[3:]
for m in sorted(os.listdir(src)):
    d = os.path.join(src, m)
    if not (os.path.isdir(d) and os.path.exists(os.path.join(d, "patch.diff"))):
        continue
    r = subprocess.run(["python3", "/verif/scripts/seed_eval.py", d, pid, *extra], capture_output=True, text=True)
    try:
        res = json.loads(r.stdout[r.stdout.index("{"):])
    except Exception:
        print(m, "EVAL FAILED", r.stdout[-300:], r.stderr[-300:]); continue
    caught = {k: (v["violations"], v["no_input"]) for k, v in res.get("checks", {}).items()}
    print(pid, m, "valid" if res["valid_seed"] else f"INVALID clean={res.get('demo_clean_rc')} patched={res.get('demo_patched_rc')} missing={res.get('baseline_missing')} apply={res.get('apply_rc')}", caught, flush=True)
    if res["valid_seed"]:
        dst = f"/verif/seeded/{pid}_{os.environ.get('SEED_TAG', '')}{m}"
        os.makedirs(dst, exist_ok=True)
        for f in ("patch.diff", "demo.py"):
            shutil.copy(os.path.join(d, f), dst)
        try:
            meta = json.load(open(os.path.join(d, "meta.json")))
        except Exception:
            meta = {}
        meta["confirmed"] = dict(demo_exit_unchanged=res["demo_clean_rc"], demo_exit_changed=res["demo_patched_rc"], baseline_144_pass_with_change=True,
                                 how="scripts/seed_eval.py in a scratch worktree of /repo HEAD")
        meta["checks_run_against_change"] = res["checks"]
        json.dump(meta, open(os.path.join(dst, "meta.json"), "w"), indent=1)
