#!/usr/bin/env python3
"""Fails if the Coq development (comments stripped) contains forbidden vernacular, or a
Variable/Hypothesis/Context outside a Section (which would declare an axiom)."""
import os, re, sys
ROOT = '/verif/coq'
BAD = re.compile(r'(?<![A-Za-z_0-9\'])(Admitted|admit|Axiom|Axioms|Parameter|Parameters|Conjecture|Conjectures|Admit\s+Obligations|Unset\s+Guard\s+Checking|Unset\s+Positivity\s+Checking|Unset\s+Universe\s+Checking|bypass_check|native_compute|give_up)(?![A-Za-z_0-9\'])')
FLAGS = re.compile(r'type-in-type|impredicative-set')

def strip_comments(s):
    out, depth, i, instr = [], 0, 0, False
    while i < len(s):
        if depth == 0 and s[i] == '"':
            instr = not instr
            out.append(s[i]); i += 1; continue
        if not instr and s.startswith('(*', i):
            depth += 1; i += 2; continue
        if not instr and depth and s.startswith('*)', i):
            depth -= 1; i += 2; continue
        if depth == 0:
            out.append(s[i])
        elif s[i] == '\n':
            out.append('\n')
        i += 1
    return ''.join(out)

bad = 0
for dp, _, fs in os.walk(ROOT):
    for f in fs:
        p = os.path.join(dp, f)
        if f == '_CoqProject':
            if FLAGS.search(open(p).read()):
                print(f"{p}: forbidden flag"); bad = 1
        if not f.endswith('.v'):
            continue
        src = strip_comments(open(p).read())
        depth = 0
        for n, line in enumerate(src.split('\n'), 1):
            m = BAD.search(line)
            if m:
                print(f"{p}:{n}: forbidden vernacular: {line.strip()[:120]}"); bad = 1
            if re.match(r'\s*Section\s', line):
                depth += 1
            elif re.match(r'\s*End\s', line):
                depth = max(0, depth - 1)
            elif re.match(r'\s*(Variable|Variables|Hypothesis|Hypotheses|Context)\s', line) and depth == 0:
                print(f"{p}:{n}: {line.strip()[:100]} outside a section"); bad = 1
if bad:
    print("AUDIT FAILED", file=sys.stderr); sys.exit(1)
print("audit ok")
