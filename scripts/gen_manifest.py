#!/usr/bin/env python3
"""Regenerates MANIFEST.json from the table below (kept valid at all times)."""
import json, os
V = '/verif'
props = [json.loads(l) for l in open(f'{V}/properties.jsonl')]
CLAIMED = {
 'C01': dict(text="Warm-up silence, flag exclusivity and status shape proved in Coq for every number system and every history of updates/resets (all 13 detectors via 11 models); constant-stream silence proved over R per detector (HDDM-W only for the constant 0: known finding F05). Models tied to the code on every run: exhaustive 0/1 streams of length 10 (13 thorough) for the 7 error-stream detectors, constants x config grid, random streams with resets.",
             note="Trusted: Coq kernel/vm_compute; Reals axioms for the R theorems; KSWIN's random sample and STEPD's normal quantile are oracle inputs; model-to-code tie is differential testing.",
             tech="Coq proof by invariant over operation lists + model-vs-code correspondence check"),
 'C02': dict(text="In every model reset is the initial state, hence (theorem, all histories) continuation traces after a reset equal those of a new instance. That the code's reset() reaches a state equivalent to a fresh instance is established per run by the correspondence check and a side-by-side monitor with resets placed in every detector phase.",
             note="Trusted: as C01. The theorem is definitional in the model; the weight is on the correspondence (state after reset compared field by field and on all later outputs).",
             tech="Coq proof (reset = init, trace equality) + correspondence/monitor with resets in every phase"),
 'C03': dict(text="DDM and ECDD-WT verdicts proved equal to their non-incremental published rules (batch mean, earliest argmin of p+s, closed-form EWMA, Ross polynomial typed from the paper) for all streams and configurations over R; EDDM statistics proved equal to batch mean/SSD/std of the error distances and each step's decision characterised by the ratio rule; RDDM proved to give DDM's verdicts until its first event (every number system) and to keep the running mean of a suffix that grows by one and is cut back only right after an event to <= min_concept_size+1 values. Code tied by exhaustive 0/1 streams (length 11/14) against an independent Python transcription of the rules, plus model correspondence.",
             note="Trusted: Coq kernel; Reals axioms; numerically tied comparisons are excluded from the run-time comparison as the property allows.",
             tech="Coq proof (refinement to non-incremental specifications; simulation RDDM->DDM; suffix invariant via ring-buffer refinement) + correspondence check"),
 'C04': dict(text="Proved: for every history (resets included) HDDM-A's z/x/y samples are the Mean of the values since the last restart and of a non-empty prefix of them (the running cut), HDDM-W's samples the EWMA/ibc of the window, of the prefix at the cut and of the values after it; drift (warning) at a step <-> t >= min and the mean (EWMA) after the cut exceeds the one up to it by at least the two-sample Hoeffding (McDiarmid) bound at alpha_d (alpha_w) (over R); one-sided alarms are two-sided alarms up to the first alarm (every number system); two-sided HDDM-A verdicts invariant under x -> 1-x; a drop 1^n 0^k is detected exactly as the rise 0^n 1^k and within an explicit delay bound; HDDM-W: invariance under x -> -x only (1-x mirror is false: EWMA starts at 0), delay bound not proved (partial). HDDM-A/W models tied to the code on all 0/1 streams of length 10 (12 thorough) and random [0,1] streams in both modes; monitors: verdict vs two-sample Hoeffding / McDiarmid bound on the detector's own cut-point samples, one-sided alarms subset of two-sided, mirror symmetry x->1-x, rise/drop family within the formula's delay bound. Coq: rule equivalence, mirror symmetry and extension theorems (Proofs/HDDMR.v).",
             note="Trusted: Coq kernel; Reals axioms; ln is a ~1 ulp Gallina implementation in the binary64 run; verdict disagreements are accepted as near ties only if the model with ln perturbed by 2^-40 reproduces the code.",
             tech="Coq proof (algebraic equivalence, simulation, mirror bisimulation) + correspondence check and metamorphic monitors"),
 'C05': dict(text="ADWIN model (rows of buckets, compress cascade, delete, eps_cut scan, shrink loop on fuel) tied to the code after every update (width, total, variance, row lengths, drift); monitor recomputes the window from the raw stream and checks suffix-window, bucket sizes, shrink-only-at-check, drift-iff-dropped, justified shrink, quiet after check. Structural theorems (warm-up, drift only at checks) proved; representation invariant in progress.",
             note="Trusted: as C01; R theorems do not bound binary64 downdating error (monitor uses tolerance).",
             tech="Coq proof (structural + representation lemmas) + per-update correspondence and window recomputation"),
 'C06': dict(text="KSWIN: for every number system and history the window is exactly the last min_num_instances inputs since reset, and once full the verdict is the exact-KS decision p <= alpha on the supplied draw; the exact p-value is antitone in the statistic and, for EVERY sub-multiset sample of the older part, the statistic lies between H_lo and H_hi, so the verdict is forced when p(H_lo) <= alpha (alarm) or p(H_hi) > alpha (silent); a seeded run is a function of (config, seed, stream). STEPD: counters proved equal to the numbers of correct predictions in the last min_num_instances and in all earlier inputs (ring-buffer refinement), verdict = one-sided test of the continuity-corrected two-proportion statistic against the normal quantile, equivalently sf(T) < alpha for any strictly decreasing sf. Tied to the code per run (recorded draws, all 0/1 streams of length 10/12 for STEPD).",
             note="Trusted: Coq kernel/vm_compute; Reals axioms for sub_H_lower and the sf inversion; NumPy's draw and SciPy's norm.sf are oracles (values taken from the real libraries at run time).",
             tech="Coq proof (window invariant, antitone exact p-value, bounds over all sub-samples, ring-buffer refinement) + correspondence check with recorded draws"),
 'C07': dict(text="Statistic = property's recurrence over the batch mean, verdict iff t>=min and g>lambda, shift invariance and lambda antitonicity proved over R for all streams and configurations; warm-up/no-latch for every number system. Binary64 model compared with the code at every step; invariances also checked on the implementation.",
             note="Trusted: Coq kernel; Reals axioms; correspondence by differential testing.",
             tech="Coq proof (induction over the stream, refinement to the batch recurrence) + correspondence check"),
 'C08': dict(text="Over R, for every configuration with positive variances and hazard in (0,1) and every stream: the model's parameter lists are the conjugate posterior mean/precision of the k newest values; its log message is ln of the Adams-MacKay joint P(r_t=k, x_1..t) defined non-incrementally in linear space; exp of its row is the exact run-length posterior; every row sums to one; predicted mean/variance are the posterior-weighted mixtures of the updated parameters; from min_num_instances on drift <-> the first arg-max of the posterior is not t, and no drift before. Model tied to the code per run (rows of log_r, predictions, verdict) on Gaussian streams with shifts, priors/variances/hazards on a grid incl. extremes.",
             note="Trusted: Coq kernel/vm_compute; Reals axioms (classical reals, classic, funext); binary64 run uses Gallina exp/ln (~1 ulp), tolerance 1e-8 on probabilities, arg-max ties skipped; SciPy's norm.logpdf/logsumexp are modelled by their formulas.",
             tech="Coq proof (log-space recursion refines the linear-space Adams-MacKay specification; logsumexp/logpdf lemmas with explicit domain safety) + correspondence check"),
 'C09': dict(text="Over R, for any kernel with k(x,x)=1 (RBF proved to satisfy it), every chunk_size (None or > 0), any prior detector state and samples of at least 2 points: the chunked kernel sums equal the full double sums, and both MMD.compare after fit (cached reference term) and the stand-alone statistic used by the permutation test return the unbiased estimator of the statement; the fitted path performs the same operations as the static one in every number system (bit-identical in binary64); the estimator is permutation invariant; the streaming detector, over any history of fit/reset/update, raises MissingFitError while unfitted, returns None before window_size values and then exactly the batch value on the last window_size values (ring buffer read in storage order). Tied to the code per run for every chunk size 1..max(n,m)+2, dims 1-4, bandwidth grid, windows 1..10.",
             note="Trusted: Coq kernel/vm_compute; Reals axioms; binary64 run uses the Gallina exp (~1 ulp), tolerance 1e-9; scipy cdist/rbf formula transliterated.",
             tech="Coq proof (chunked sum = double sum by induction over chunk lists; ring-buffer refinement + permutation invariance) + correspondence over every chunk size"),
 'C11': dict(text="The model's statistic is the supremum over all reals of |F_ref - F_test| (attained at a sample point); the exact p-value DP equals the count of interleaving words whose maximal deviation reaches the observed one, out of C(n+m,n) equally likely words, for all n, m (no bound); 0 <= p <= 1. IncrementalKSTest: for every reference, window size >= 1 and history of fit/update/reset, update never fails once fitted (MissingFitError exactly when unfitted), returns nothing for the first window_size-1 values and then exactly the batch test on the last window_size values (ring buffer handed over in storage order + permutation invariance). Tied to the code per run: all (n,m) with n+m <= 14 and every attainable d exhaustively, random larger samples with ties, sizes straddling 10 000.",
             note="Trusted: Coq kernel/vm_compute; Reals axioms where samples are reals; above 10 000 values the p-value is SciPy's kstwo.sf (oracle): the model carries the statistic and the check compares batch with incremental there.",
             tech="Coq proof (DP = enumeration of interleavings by induction on n+m; ring-buffer refinement; permutation invariance) + exhaustive small-size and random correspondence"),
 'C17': dict(text="For EVERY detector model, number system, configuration and history of updates/resets: the history callback holds exactly one entry per update since the last reset for every tracked variable, entry i being the input, counter, drift flag and the variable's value in the detector state right after update i; the registration chain yields each name once; attaching the callback leaves the detector's state equal to the detector run alone; reset empties the history. ResetStatisticalTest: reset iff p <= alpha and the returned result is the pre-reset one, over all fit/compare/reset sequences. Tied to the code per run on the 13 detectors (history compared with the model's, field by field) and 6 statistical-test detectors.",
             note="Trusted: Coq kernel/vm_compute (theorems are axiom-free); tracked non-scalar objects are recorded by reference and are outside the property's 'scalar statistics'; the statistical test's p-value is an oracle for the reset model; BWSTest excluded from the reset oracle (Monte-Carlo p-value).",
             tech="Coq proof (invariant over operation lists for the generic detector+callback system) + model-vs-code correspondence and per-step monitor"),
 'C19': dict(text="Every validator (18 configuration classes / validated constructors + 8 num_bins / window_size sites) modelled in the order its setters run; proved over R and Z: accepted <-> the domain its own error messages state, each ordering constraint (warning < drift level, beta < alpha, alpha_d < alpha_w, 2*num_test_instances <= min_num_instances) rejected whatever the other parameters, and an accepted configuration cannot reach the configuration-dependent raise sites of the update path (ADWIN % clock, KSWIN draw without replacement, RDDM queue capacity, HDDM-W log(1/lambda_)). Per run: boundary grid per parameter (just outside/on/inside, NaN, inf, wrong types), all pairs for ordered parameters, acceptance vs the documented domain and vs the model in binary64, and every accepted configuration operated on in-domain streams filling every window.",
             note="Trusted: Coq kernel/vm_compute; Reals axioms. Guards on computed statistics are exercised per run, not proved (rounding). Known findings: NaN passes the `value <= bound` style setters of 10 classes (F34-*).",
             tech="Coq proof (decision procedures lra/lia over the transliterated validators; accepted => raise sites unreachable) + boundary-grid correspondence and operability battery"),
 'C18': dict(text="Closed forms of Mean/EWMA/CircularMean/PrequentialError proved over R for all streams; ring buffer proved to refine a bounded deque for every operation sequence and capacity >= 1; AccuracyQueue counts proved. Model tied to the code on every run (queue transitions exhaustively to closure for capacities 1-3).",
             note="Trusted: Coq kernel + vm_compute; Reals axioms for the R theorems; rounding not covered by R theorems.",
             tech="Coq proof (refinement to a deque by induction over operation lists; closed forms over R) + correspondence check"),
}
PENDING_REASON = "check under construction in this round: model/theorems/correspondence not landed yet (claimed once its ./check exists)"
checks, na = [], []
for p in props:
    pid = p['id']
    if pid in CLAIMED and os.path.exists(f'{V}/harness/{pid.lower()}.py'):
        c = CLAIMED[pid]
        checks.append({
            "property_id": pid,
            "quick_cmd": f"./check {pid} --tier quick",
            "thorough_cmd": f"./check {pid} --tier thorough",
            "evidence_file": f"evidence/{pid}.json",
            "replay_cmd_template": f"./check {pid} --replay {{path}}",
            "engine": "coq",
            "level_claimed": {"category": "proof", "text": c['text'], "design_ref": f"DESIGN.md section 5, {pid}"},
            "level_note": c['note'],
            "technique": c['tech'],
        })
    else:
        na.append({"property_id": pid, "reason": PENDING_REASON})
ids = [c['property_id'] for c in checks]
m = {
 "version": 1,
 "setup_cmd": "sh scripts/setup.sh",
 "hooks": {"guard": "FROUROS_VERIF",
           "enable": "no hooks are needed: every observable is a public attribute; checks import frouros from /repo's working tree (PYTHONPATH=/repo)",
           "baseline_off_cmd": "cd /repo && /venv/bin/python -m pytest -ra -q -p no:cacheprovider --timeout=900 --continue-on-collection-errors",
           "source_commits": [], "add_only": True},
 "engines": [
  {"name": "coq", "path": "coq", "serves_properties": ids, "kind_free_text": "Coq 8.16.1 development: executable Gallina models (Model/), proofs (Proofs/), property theorems (Props/Cxx.v, each followed by Print Assumptions)"},
  {"name": "harness", "path": "harness", "serves_properties": ids, "kind_free_text": "correspondence check (models under vm_compute vs /repo implementation), property monitors on the implementation, known-findings matching, evidence writer"}],
 "checks": checks,
 "not_applicable": na,
 "notes": "Repairs of genuine defects are 'fix:' commits in /repo, listed in known_findings.json as fixed; known (unrepaired) findings are listed there with status 'known'.",
}
json.dump(m, open(f'{V}/MANIFEST.json', 'w'), indent=1)
print("claimed:", ids)
