#!/usr/bin/env python3
"""usage: scripts/seed_all.py [-j N] [pattern ...]: re-evaluate every kept seeded change (seeded/<id>/) with
scripts/seed_eval.py and refresh meta.json's `confirmed` / `checks_run_against_change`.  Seeds of one property
run one after the other (they share Props/<id>.vo and the VERIF_OUT evidence file); properties run in parallel."""
import fnmatch, json, os, subprocess, sys
from concurrent.futures import ThreadPoolExecutor

args = sys.argv[1:]
jobs = 6
if args[:1] == ["-j"]:
    jobs = int(args[1]); args = args[2:]
root = "/verif/seeded"
dirs = sorted(d for d in os.listdir(root) if os.path.exists(f"{root}/{d}/patch.diff"))
if args:
    dirs = [d for d in dirs if any(fnmatch.fnmatch(d, p) for p in args)]
groups = {}
for d in dirs:
    groups.setdefault(d.split("_")[0], []).append(d)


def run_group(pid):
    for d in groups[pid]:
        path = f"{root}/{d}"
        meta = json.load(open(f"{path}/meta.json"))
        checks = sorted(set([pid] + list(meta.get("checks_run_against_change", {}).keys())))
        r = subprocess.run(["python3", "/verif/scripts/seed_eval.py", path, *checks], capture_output=True, text=True)
        try:
            res = json.loads(r.stdout[r.stdout.index("{"):])
        except Exception:
            print(d, "EVAL FAILED", r.stdout[-300:], r.stderr[-300:], flush=True)
            continue
        meta["confirmed"] = dict(demo_exit_unchanged=res.get("demo_clean_rc"), demo_exit_changed=res.get("demo_patched_rc"),
                                 baseline_144_pass_with_change=not res.get("baseline_missing"), valid=res["valid_seed"],
                                 how="scripts/seed_eval.py in a scratch worktree of /repo HEAD")
        meta["checks_run_against_change"] = res.get("checks", {})
        json.dump(meta, open(f"{path}/meta.json", "w"), indent=1)
        caught = {k: (v["violations"], v["no_input"]) for k, v in res.get("checks", {}).items()}
        print(d, "valid" if res["valid_seed"] else f"INVALID clean={res.get('demo_clean_rc')} patched={res.get('demo_patched_rc')} apply={res.get('apply_rc')} missing={res.get('baseline_missing')}", caught, flush=True)


with ThreadPoolExecutor(max_workers=jobs) as ex:
    list(ex.map(run_group, sorted(groups)))
