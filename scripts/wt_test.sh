#!/bin/sh
# usage: scripts/wt_test.sh (<patch.diff> | -R <fix-commit>) Cxx [Cyy ...]
# Applies a patch (or the reverse of a fix commit) to a scratch worktree of /repo's HEAD and runs the
# given checks against that worktree (FROUROS_REPO), leaving /repo itself untouched.
set -e
WT=$(mktemp -d /tmp/fvwt.XXXXXX)
git -C /repo worktree add -q --detach "$WT" HEAD
trap 'git -C /repo worktree remove --force "$WT" 2>/dev/null; rm -rf "$WT"' EXIT
if [ "$1" = "-R" ]; then
  git -C /repo show "$2" | git -C "$WT" apply -R
  shift 2
else
  git -C "$WT" apply "$1"
  shift
fi
for p in "$@"; do
  (cd /verif && VERIF_OUT=/tmp/fvseed_out FROUROS_REPO="$WT" PYTHONPATH="$WT" PYTHONHASHSEED=0 PYTHONDONTWRITEBYTECODE=1 PYTHONWARNINGS=ignore \
     /venv/bin/python /verif/harness/main.py "$p" --tier quick 2>&1 | grep -E "^(VIOLATION|KNOWN|\[C)" | cut -c1-300) || true
done
