#!/bin/sh
# Fails if the development contains forbidden vernacular.
cd /verif/coq || exit 2
if grep -rnE '(^|[^A-Za-z_])(Admitted|admit|Axiom|Axioms|Parameter|Parameters|Conjecture|Admit Obligations|Unset Guard Checking|Unset Positivity Checking|Unset Universe Checking|bypass_check|type-in-type|impredicative-set|native_compute)([^A-Za-z_]|$)' --include='*.v' --include='_CoqProject' . ; then
  echo "AUDIT FAILED: forbidden vernacular found" >&2
  exit 1
fi
# Variable / Hypothesis outside a section would declare an axiom: list them with context for review
awk 'FNR==1{depth=0} /^[ \t]*Section /{depth++} /^[ \t]*End /{if(depth>0)depth--} /^[ \t]*(Variable|Variables|Hypothesis|Hypotheses|Context)[ \t]/{ if(depth==0){print FILENAME":"FNR": "$0; bad=1} } END{exit bad}' $(find . -name '*.v') || { echo "AUDIT FAILED: Variable/Hypothesis/Context outside a section" >&2; exit 1; }
echo "audit ok"
