#!/bin/sh
# Fails if the development contains forbidden vernacular (comments are stripped first).
exec python3 /verif/scripts/audit.py
