#!/bin/sh
# usage: scripts/seed_quick.sh <patch.diff> <Cxx> [tier]: run one check against a scratch worktree of /repo HEAD with the
# patch applied (no demo / baseline confirmation -- scripts/seed_eval.py does that). /repo itself is not touched.
P=$(readlink -f "$1"); C=$2; T=${3:-quick}
WT=$(mktemp -d /tmp/fvq.XXXXXX); rmdir "$WT"
git -C /repo worktree add -q --detach "$WT" HEAD
git -C "$WT" apply "$P" || { git -C /repo worktree remove --force "$WT"; exit 3; }
cd /verif
PYTHONPATH="$WT" PYTHONHASHSEED=0 PYTHONDONTWRITEBYTECODE=1 FROUROS_REPO="$WT" VERIF_OUT=/tmp/fvseed_out /venv/bin/python harness/main.py "$C" --tier "$T" 2>&1 | grep -E "VIOLATION|INTERNAL|Traceback|Error|^\[C" | cut -c1-220 | head -12
git -C /repo worktree remove --force "$WT"; rm -rf "$WT"
